From Coq Require Import List Arith Bool Lia.
Import ListNotations.

(* ---------- a tiny heap model of Python dict/list objects ---------- *)
Definition loc := nat.  Definition key := nat.  Definition var := nat.
Inductive val := Atom (a : nat) | Ref (l : loc).
Definition obj := list (key * val).                      (* dicts; lists are dicts keyed by index *)
Definition heap := loc -> option obj.
Definition env := var -> option val.

Definition upd_heap (h : heap) (l : loc) (o : obj) : heap := fun l' => if Nat.eqb l' l then Some o else h l'.
Definition upd_env (e : env) (x : var) (v : val) : env := fun x' => if Nat.eqb x' x then Some v else e x'.
Fixpoint lookup (k : key) (o : obj) : option val :=
  match o with [] => None | (k', v) :: r => if Nat.eqb k k' then Some v else lookup k r end.
Definition setk (k : key) (v : val) (o : obj) : obj := (k, v) :: filter (fun p => negb (Nat.eqb (fst p) k)) o.

Inductive instr :=
| ILoadRoot (x : var) (r : loc)            (* x := a static root object (cdb, grant_config, a class dict, ...) *)
| IGet (x y : var) (k : key)               (* x := y[k] *)
| INew (x : var)                           (* x := {} / [] *)
| IDeepCopy (x y : var)                    (* x := copy.deepcopy(y) *)
| ISet (x : var) (k : key) (y : var)       (* x[k] := y      (also list.append) *)
| ISetAtom (x : var) (k : key) (a : nat)   (* x[k] := literal *)
| IUpdate (x y : var).                     (* x.update(y)    (also list.extend) *)

(* ---------- relational semantics; [fresh] = locations allocated by this flow ---------- *)
Definition state := (heap * env * (loc -> bool))%type.      (* heap, registers, allocated-by-this-flow *)

Definition all_refs_in (o : obj) (P : loc -> Prop) : Prop := forall k l, lookup k o = Some (Ref l) -> P l.

Inductive step : instr -> state -> state -> Prop :=
| s_root x r h e f : h r <> None -> f r = false -> step (ILoadRoot x r) (h, e, f) (h, upd_env e x (Ref r), f)
| s_get x y k h e f l o v : e y = Some (Ref l) -> h l = Some o -> lookup k o = Some v ->
    step (IGet x y k) (h, e, f) (h, upd_env e x v, f)
| s_new x h e f l : h l = None -> f l = false ->
    step (INew x) (h, e, f) (upd_heap h l [], upd_env e x (Ref l), fun l' => Nat.eqb l' l || f l')
| s_deepcopy x y h e f h' f' l :
    (* deepcopy allocates a set of new objects, touches nothing that existed, and the copy is closed:
       every reference inside a new object points to a new object *)
    (forall l0, h l0 <> None -> h' l0 = h l0) ->
    (forall l0, f l0 = true -> f' l0 = true) ->
    (forall l0, f' l0 = true -> f l0 = false -> h l0 = None /\ exists o, h' l0 = Some o /\ all_refs_in o (fun l1 => f' l1 = true /\ f l1 = false)) ->
    (forall l0, h' l0 <> None -> h l0 <> None \/ f' l0 = true) ->
    f' l = true -> f l = false ->
    step (IDeepCopy x y) (h, e, f) (h', upd_env e x (Ref l), f')
| s_set x k y h e f l o v : e x = Some (Ref l) -> h l = Some o -> e y = Some v ->
    step (ISet x k y) (h, e, f) (upd_heap h l (setk k v o), e, f)
| s_setatom x k a h e f l o : e x = Some (Ref l) -> h l = Some o ->
    step (ISetAtom x k a) (h, e, f) (upd_heap h l (setk k (Atom a) o), e, f)
| s_update x y h e f l o ly oy : e x = Some (Ref l) -> h l = Some o -> e y = Some (Ref ly) -> h ly = Some oy ->
    step (IUpdate x y) (h, e, f) (upd_heap h l (fold_right (fun p acc => setk (fst p) (snd p) acc) o oy), e, f).

Inductive run : list instr -> state -> state -> Prop :=
| r_nil s : run [] s s
| r_cons i p s1 s2 s3 : step i s1 s2 -> run p s2 s3 -> run (i :: p) s1 s3.

(* ---------- the ownership discipline: F = "certainly an object of this flow", S = "possibly shared" ---------- *)
Inductive ty := F | S.
Definition tenv := var -> ty.
Definition upd_t (t : tenv) (x : var) (a : ty) : tenv := fun x' => if Nat.eqb x' x then a else t x'.
Definition is_F (a : ty) : bool := match a with F => true | S => false end.

(* checker state: typing of registers and a flag "some flow object may contain a shared reference" *)
Fixpoint check (p : list instr) (t : tenv) (tainted : bool) : bool :=
  match p with
  | [] => true
  | ILoadRoot x _ :: r => check r (upd_t t x S) tainted
  | IGet x y _ :: r => check r (upd_t t x (if is_F (t y) && negb tainted then F else S)) tainted
  | INew x :: r => check r (upd_t t x F) tainted
  | IDeepCopy x _ :: r => check r (upd_t t x F) tainted
  | ISet x _ y :: r => is_F (t x) && check r t (tainted || negb (is_F (t y)))
  | ISetAtom x _ _ :: r => is_F (t x) && check r t tainted
  | IUpdate x y :: r => is_F (t x) && check r t (tainted || negb (is_F (t y)))
  end.

(* ---------- soundness: a checked flow never modifies an object that existed before it started ---------- *)
Definition inv (h0 : heap) (t : tenv) (tainted : bool) (s : state) : Prop :=
  let '(h, e, f) := s in
  (forall l, h0 l <> None -> f l = false /\ h l = h0 l) /\                       (* old objects untouched, never "fresh" *)
  (forall l, f l = true -> h l <> None) /\
  (forall x l, t x = F -> e x = Some (Ref l) -> f l = true) /\                  (* F registers point to flow objects *)
  (tainted = false -> forall l o, f l = true -> h l = Some o -> all_refs_in o (fun l1 => f l1 = true)).

Lemma lookup_setk k v o k' : lookup k' (setk k v o) = if Nat.eqb k' k then Some v else lookup k' o.
Proof.
  unfold setk. cbn. destruct (Nat.eqb k' k) eqn:E; [reflexivity|].
  induction o as [|[k0 v0] r IH]; cbn; [reflexivity|].
  destruct (Nat.eqb k0 k) eqn:E0; cbn.
  - destruct (Nat.eqb k' k0) eqn:E1; [|exact IH]. apply Nat.eqb_eq in E0, E1. subst. rewrite Nat.eqb_refl in E. discriminate.
  - destruct (Nat.eqb k' k0); [reflexivity|exact IH].
Qed.

Lemma lookup_update o oy k v : lookup k (fold_right (fun p acc => setk (fst p) (snd p) acc) o oy) = Some v ->
  lookup k oy = Some v \/ lookup k o = Some v.
Proof.
  induction oy as [|[k0 v0] r IH]; cbn [fold_right fst snd]; [auto|]. rewrite lookup_setk. cbn [lookup].
  destruct (Nat.eqb k k0) eqn:E; [intros H; left; exact H|]. intros H. destruct (IH H); auto.
Qed.

Ltac inv4 := refine (conj _ (conj _ (conj _ _))).
Lemma step_sound h0 i p t tainted s s' :
  check (i :: p) t tainted = true -> inv h0 t tainted s -> step i s s' ->
  exists t' tainted', check p t' tainted' = true /\ inv h0 t' tainted' s'.
Proof.
  intros Hc Hinv Hs. destruct Hs; cbn [check] in Hc; destruct Hinv as (Hold & Hlive & HF & Hclosed).
  - (* ILoadRoot *) exists (upd_t t x S), tainted. split; [exact Hc|]. inv4; auto.
    intros x0 l0 Hx0. unfold upd_t in Hx0. unfold upd_env. destruct (Nat.eqb x0 x); [discriminate|eauto].
  - (* IGet *) eexists _, tainted. split; [exact Hc|]. inv4; auto.
    intros x0 l1 Hx0. unfold upd_t in Hx0. unfold upd_env. destruct (Nat.eqb x0 x) eqn:E; [|eauto].
    destruct (is_F (t y) && negb tainted) eqn:E2; [|discriminate].
    apply andb_true_iff in E2 as [Ty Tn]. apply negb_true_iff in Tn. destruct (t y) eqn:Ety; [|discriminate].
    intros Hv. inversion Hv; subst v. pose proof (HF y l Ety H) as Fy. eapply (Hclosed Tn l o Fy H0); eauto.
  - (* INew *) exists (upd_t t x F), tainted. split; [exact Hc|]. inv4.
    + intros l0 Hl0. destruct (Hold l0 Hl0) as [A B]. unfold upd_heap. destruct (Nat.eqb l0 l) eqn:E.
      * apply Nat.eqb_eq in E; subst. rewrite B in H. contradiction.
      * cbn. rewrite A. auto.
    + intros l0 Hl0. unfold upd_heap. destruct (Nat.eqb l0 l) eqn:E; [discriminate|]. cbn in Hl0. apply Hlive; auto.
    + intros x0 l0 Hx0. unfold upd_t in Hx0. unfold upd_env. destruct (Nat.eqb x0 x) eqn:E.
      * intros Hv; inversion Hv; subst. now rewrite Nat.eqb_refl.
      * intros Hv. rewrite (HF x0 l0 Hx0 Hv). apply orb_true_r.
    + intros Tn l0 o Hl0 Ho. unfold upd_heap in Ho. destruct (Nat.eqb l0 l) eqn:E.
      * inversion Ho; subst. intros k l1 Hk. discriminate.
      * cbn in Hl0. intros k l1 Hk. pose proof (Hclosed Tn l0 o Hl0 Ho k l1 Hk) as A. now rewrite A, orb_true_r.
  - (* IDeepCopy *) exists (upd_t t x F), tainted. split; [exact Hc|]. inv4.
    + intros l0 Hl0. destruct (Hold l0 Hl0) as [A B]. split.
      * destruct (f' l0) eqn:E; [|reflexivity]. destruct (H1 l0 E A) as [C _]. rewrite B in C. contradiction.
      * rewrite <- B. apply H. rewrite B. exact Hl0.
    + intros l0 Hl0. destruct (f l0) eqn:E.
      * rewrite H by (apply Hlive; exact E). apply Hlive; exact E.
      * destruct (H1 l0 Hl0 E) as (_ & o & Ho & _). rewrite Ho. discriminate.
    + intros x0 l0 Hx0. unfold upd_t in Hx0. unfold upd_env. destruct (Nat.eqb x0 x) eqn:E.
      * intros Hv; inversion Hv; subst. assumption.
      * intros Hv. apply H0. eapply HF; eauto.
    + intros Tn l0 o Hl0 Ho k l1 Hk. destruct (f l0) eqn:E.
      * rewrite H in Ho by (apply Hlive; exact E). apply H0. eapply Hclosed; eauto.
      * destruct (H1 l0 Hl0 E) as (_ & o' & Ho' & Hrefs). rewrite Ho' in Ho. inversion Ho; subst. apply (Hrefs k l1 Hk).
  - (* ISet *) apply andb_true_iff in Hc as [Tx Hc]. destruct (t x) eqn:Etx; [|discriminate].
    pose proof (HF x l Etx H) as Fx.
    exists t, (tainted || negb (is_F (t y))). split; [exact Hc|]. inv4; auto.
    + intros l0 Hl0. destruct (Hold l0 Hl0) as [A B]. split; [exact A|]. unfold upd_heap.
      destruct (Nat.eqb l0 l) eqn:E; [apply Nat.eqb_eq in E; subst; congruence|exact B].
    + intros l0 Hl0. unfold upd_heap. destruct (Nat.eqb l0 l); [discriminate|auto].
    + intros Tn l0 o0 Hl0 Ho k0 l1 Hk. apply orb_false_iff in Tn as [Tn Ty]. apply negb_false_iff in Ty.
      destruct (t y) eqn:Ety; [|discriminate].
      unfold upd_heap in Ho. destruct (Nat.eqb l0 l) eqn:E.
      * inversion Ho; subst. rewrite lookup_setk in Hk. destruct (Nat.eqb k0 k).
        -- inversion Hk; subst. eapply HF; eauto.
        -- exact (Hclosed eq_refl l o Fx H0 k0 l1 Hk).
      * eapply Hclosed; eauto.
  - (* ISetAtom *) apply andb_true_iff in Hc as [Tx Hc]. destruct (t x) eqn:Etx; [|discriminate].
    pose proof (HF x l Etx H) as Fx.
    exists t, tainted. split; [exact Hc|]. inv4; auto.
    + intros l0 Hl0. destruct (Hold l0 Hl0) as [A B]. split; [exact A|]. unfold upd_heap.
      destruct (Nat.eqb l0 l) eqn:E; [apply Nat.eqb_eq in E; subst; congruence|exact B].
    + intros l0 Hl0. unfold upd_heap. destruct (Nat.eqb l0 l); [discriminate|auto].
    + intros Tn l0 o0 Hl0 Ho k0 l1 Hk. unfold upd_heap in Ho. destruct (Nat.eqb l0 l) eqn:E.
      * inversion Ho; subst. rewrite lookup_setk in Hk. destruct (Nat.eqb k0 k); [discriminate|]. exact (Hclosed eq_refl l o Fx H0 k0 l1 Hk).
      * eapply Hclosed; eauto.
  - (* IUpdate *) apply andb_true_iff in Hc as [Tx Hc]. destruct (t x) eqn:Etx; [|discriminate].
    pose proof (HF x l Etx H) as Fx.
    exists t, (tainted || negb (is_F (t y))). split; [exact Hc|]. inv4; auto.
    + intros l0 Hl0. destruct (Hold l0 Hl0) as [A B]. split; [exact A|]. unfold upd_heap.
      destruct (Nat.eqb l0 l) eqn:E; [apply Nat.eqb_eq in E; subst; congruence|exact B].
    + intros l0 Hl0. unfold upd_heap. destruct (Nat.eqb l0 l); [discriminate|auto].
    + intros Tn l0 o0 Hl0 Ho k0 l1 Hk. apply orb_false_iff in Tn as [Tn Ty]. apply negb_false_iff in Ty.
      destruct (t y) eqn:Ety; [|discriminate]. pose proof (HF y ly Ety H1) as Fy.
      unfold upd_heap in Ho. destruct (Nat.eqb l0 l) eqn:E.
      * inversion Ho; subst. destruct (lookup_update _ _ _ _ Hk) as [A|A];
        [exact (Hclosed eq_refl ly oy Fy H2 k0 l1 A)|exact (Hclosed eq_refl l o Fx H0 k0 l1 A)].
      * exact (Hclosed Tn l0 o0 Hl0 Ho k0 l1 Hk).
Qed.

Theorem flow_sound h0 p : forall t tainted s s',
  check p t tainted = true -> inv h0 t tainted s -> run p s s' ->
  forall l, h0 l <> None -> fst (fst s') l = h0 l.
Proof.
  induction p as [|i p IH]; intros t tainted s s' Hc Hinv Hr l Hl.
  - inversion Hr; subst. destruct s' as [[h e] f]. destruct Hinv as (Hold & _). cbn. apply Hold; exact Hl.
  - inversion Hr as [|i' p' s1 s2 s3 Hst Hrun]; subst.
    destruct (step_sound h0 i p t tainted s s2 Hc Hinv Hst) as (t' & tn' & Hc' & Hinv'). eapply IH; eauto.
Qed.

(* every flow starts like this: nothing allocated yet, all registers of unknown provenance *)
Corollary C20_no_static_write_sketch (h0 : heap) (e0 : env) p s' :
  check p (fun _ => S) false = true ->
  run p (h0, e0, fun _ => false) s' -> forall l, h0 l <> None -> fst (fst s') l = h0 l.
Proof.
  intros Hc Hr. eapply flow_sound; eauto. repeat split; auto; try discriminate.
Qed.
Print Assumptions C20_no_static_write_sketch.

(* the usage_rules flow: repaired version passes, original is rejected by the checker *)
Definition cdb := 0. Definition grant_config := 1.
Definition k_usage := 0. Definition k_client := 1. Definition k_tur := 2. Definition k_code := 3. Definition k_max := 4. Definition k_sm := 5.
Definition usage_rules_fixed : list instr :=
  [ ILoadRoot 0 grant_config; IGet 1 0 k_usage; IDeepCopy 2 1;          (* r := deepcopy(grant_config["usage_rules"]) *)
    ILoadRoot 3 cdb; IGet 4 3 k_client; IGet 5 4 k_tur; IDeepCopy 6 5;   (* pc := deepcopy(cdb[c]["token_usage_rules"]) *)
    IGet 7 2 k_code; IGet 8 6 k_code; IUpdate 7 8;                       (* r[code].update(pc[code]) *)
    ISetAtom 7 k_max 1;                                                  (* AuthorizationCode.set_defaults *)
    IGet 9 7 k_sm; ISetAtom 9 7 77 ].                                    (* supports_minting.append("refresh_token") *)
Definition usage_rules_orig : list instr :=
  [ ILoadRoot 3 cdb; IGet 4 3 k_client; IGet 5 4 k_tur;                  (* _usage_rules = _per_client  (by reference) *)
    IGet 7 5 k_code; ISetAtom 7 k_max 1 ].                               (* set_defaults writes the client record *)
Example fixed_ok : check usage_rules_fixed (fun _ => S) false = true. Proof. reflexivity. Qed.
Example orig_rejected : check usage_rules_orig (fun _ => S) false = false. Proof. reflexivity. Qed.
