From Coq Require Import List ZArith Bool Lia.
Require Import S.
Import ListNotations.
Open Scope Z_scope.

Lemma find_upd c f l : (forall t, tid (f t) = tid t) -> find c (upd c f l) = option_map f (find c l).
Proof.
  intros Hf. induction l as [|t r IH]; cbn; [reflexivity|].
  destruct (Nat.eqb (tid t) c) eqn:E; cbn; [rewrite Hf, E; reflexivity| rewrite E; exact IH].
Qed.
Lemma find_app c l x t : find c l = Some t -> find c (l ++ x) = Some t.
Proof. induction l as [|a r IH]; cbn; [discriminate|]. destruct (Nat.eqb (tid a) c); auto. Qed.

(* the code-token view of a state *)
Definition view (s : st) (c : nat) := find c (toks s).
Definition same_static (a b : tok) := maxu a = maxu b /\ revoked a = revoked b /\ expires a = expires b /\ mints a = mints b /\ tid a = tid b.

Lemma bump_view s c d ct : view s c = Some ct ->
  view (bump s c d) c = Some (set_used ct (used ct + d)) /\ clock (bump s c d) = clock s.
Proof. unfold view, bump; cbn. intros H. rewrite find_upd by reflexivity. rewrite H. split; reflexivity. Qed.

Lemma mint_some s c k ct : view s c = Some ct ->
  mint s c k = (if supports ct k && is_active ct (clock s) then
     Some {| toks := upd c (fun t => set_used t (used t + 1)) (toks s) ++
                     [{| tid := supply s; cls := k; based := Some c; used := 0; maxu := None;
                         revoked := false; expires := clock s + 3600; mints := [] |}];
             clock := clock s; supply := S (supply s) |} else None).
Proof. unfold view, mint. intros ->. reflexivity. Qed.

Lemma mint_view s c k ct s' : view s c = Some ct -> mint s c k = Some s' ->
  view s' c = Some (set_used ct (used ct + 1)) /\ clock s' = clock s /\ supports ct k = true /\ is_active ct (clock s) = true.
Proof.
  intros Hv Hm. rewrite (mint_some _ _ _ _ Hv) in Hm.
  destruct (supports ct k) eqn:Es; destruct (is_active ct (clock s)) eqn:Ea; cbn in Hm; try discriminate.
  inversion Hm; subst; clear Hm. unfold view; cbn. split; [|auto].
  erewrite find_app; [reflexivity|]. rewrite find_upd by reflexivity. unfold view in Hv. rewrite Hv. reflexivity.
Qed.

(* activity only depends on used once the static part is fixed *)
Lemma active_used0 ct now u : maxu ct = Some 1 -> is_active ct now = true -> u <= 0 ->
  is_active (set_used ct u) now = true.
Proof.
  unfold is_active, max_reached; cbn. intros -> H Hu.
  apply andb_true_iff in H as [H1 H3]. apply andb_true_iff in H1 as [_ H2].
  rewrite H2, H3. cbn. destruct (u >=? 1) eqn:E; [lia|reflexivity].
Qed.
Lemma active_needs_used0 ct now : maxu ct = Some 1 -> is_active ct now = true -> used ct <= 0.
Proof.
  unfold is_active, max_reached. intros ->. destruct (used ct >=? 1) eqn:E; cbn; [discriminate|lia].
Qed.

(* summary of one redemption attempt *)
Definition summary (s : st) (c : nat) (ct : tok) (s' : st) (o : out) : Prop :=
  exists ct', view s' c = Some ct' /\ maxu ct' = Some 1 /\
    ((exists ids, o = Tokens ids) /\ used ct = 0 /\ 1 <= used ct'
     \/ o = Refused /\ (used ct <= used ct' \/ (used ct = 0 /\ 0 <= used ct'))).

Lemma process_summary s c ir oi so ct :
  view s c = Some ct -> maxu ct = Some 1 -> 0 <= used ct ->
  summary s c ct (fst (process s c ir oi so)) (snd (process s c ir oi so)).
Proof.
  intros Hv Hm Hu. unfold process. fold (view s c). rewrite Hv.
  destruct (mint s c Access) as [s1|] eqn:M1.
  - (* access token minted: code was active, used = 0 *)
    destruct (mint_view _ _ _ _ _ Hv M1) as (V1 & C1 & _ & A0).
    assert (U0 : used ct = 0) by (pose proof (active_needs_used0 _ _ Hm A0); lia).
    set (c1 := set_used ct (used ct + 1)) in *.
    (* helper: a state whose view is ct with used = 0 can mint anything it supports *)
    assert (CAN : forall sx k, view sx c = Some (set_used ct 0) -> clock sx = clock s -> supports ct k = true ->
                  exists sy, mint sx c k = Some sy /\ view sy c = Some (set_used ct 1) /\ clock sy = clock s).
    { intros sx k Vx Cx Sk. rewrite (mint_some _ _ _ _ Vx). cbn [supports set_used mints] in *.
      replace (supports (set_used ct 0) k) with (supports ct k) by reflexivity. rewrite Sk, Cx.
      rewrite (active_used0 ct (clock s) 0 Hm A0) by lia. cbn.
      eexists; split; [reflexivity|]. split; [|reflexivity]. unfold view; cbn.
      erewrite find_app; [reflexivity|]. rewrite find_upd by reflexivity. unfold view in Vx; rewrite Vx. reflexivity. }
    destruct (ir && supports ct Refresh) eqn:ER.
    + apply andb_true_iff in ER as [_ SR].
      destruct (bump_view s1 c (-1) _ V1) as [Vb Cb]. unfold c1 in Vb; cbn in Vb. rewrite U0 in Vb; cbn in Vb.
      destruct (CAN (bump s1 c (-1)) Refresh Vb ltac:(congruence) SR) as (s2 & M2 & V2 & C2). rewrite M2.
      destruct (oi && supports ct IdTok) eqn:EI.
      * apply andb_true_iff in EI as [_ SI].
        destruct (bump_view s2 c (-1) _ V2) as [Vb2 Cb2]. cbn in Vb2.
        destruct so.
        -- destruct (CAN (bump s2 c (-1)) IdTok Vb2 ltac:(congruence) SI) as (s3 & M3 & V3 & C3). rewrite M3. cbn.
           destruct (bump_view s3 c 1 _ V3) as [V4 _]. cbn in V4.
           eexists; split; [exact V4|]. split; [exact Hm|]. left. split; [eauto|]. cbn. lia.
        -- cbn. eexists; split; [exact Vb2|]. split; [exact Hm|]. right. split; [reflexivity|]. right. cbn. lia.
      * cbn. destruct (bump_view s2 c 1 _ V2) as [V4 _]. cbn in V4.
        eexists; split; [exact V4|]. split; [exact Hm|]. left. split; [eauto|]. cbn. lia.
    + destruct (oi && supports ct IdTok) eqn:EI.
      * apply andb_true_iff in EI as [_ SI].
        destruct (bump_view s1 c (-1) _ V1) as [Vb Cb]. unfold c1 in Vb; cbn in Vb. rewrite U0 in Vb; cbn in Vb.
        destruct so.
        -- destruct (CAN (bump s1 c (-1)) IdTok Vb ltac:(congruence) SI) as (s3 & M3 & V3 & C3). rewrite M3. cbn.
           destruct (bump_view s3 c 1 _ V3) as [V4 _]. cbn in V4.
           eexists; split; [exact V4|]. split; [exact Hm|]. left. split; [eauto|]. cbn. lia.
        -- cbn. eexists; split; [exact Vb|]. split; [exact Hm|]. right. split; [reflexivity|]. right. cbn. lia.
      * cbn. destruct (bump_view s1 c 1 _ V1) as [V4 _]. unfold c1 in V4; cbn in V4.
        eexists; split; [exact V4|]. split; [exact Hm|]. left. split; [eauto|]. cbn. lia.
  - (* no access token: `token` stays unbound *)
    destruct (ir && supports ct Refresh) eqn:ER; cbn.
    + eexists; split; [exact Hv|]. split; [exact Hm|]. right. split; [reflexivity|]. left. lia.
    + destruct (oi && supports ct IdTok) eqn:EI; cbn.
      * eexists; split; [exact Hv|]. split; [exact Hm|]. right. split; [reflexivity|]. left. lia.
      * destruct (bump_view s c 1 _ Hv) as [V4 _].
        eexists; split; [exact V4|]. split; [exact Hm|]. right. split; [reflexivity|]. left. cbn. lia.
Qed.
