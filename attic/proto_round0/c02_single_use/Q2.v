From Coq Require Import List ZArith Bool Lia.
Require Import S P.
Import ListNotations.
Open Scope Z_scope.

Definition is_tokens (o : out) : bool := match o with Tokens _ => true | Refused => false end.
Definition redeemed (c : nat) (o : op) (x : out) : bool :=
  match o with Process c' _ _ _ => Nat.eqb c c' && is_tokens x | _ => false end.
Fixpoint count (c : nat) (ops : list op) (xs : list out) : nat :=
  match ops, xs with o :: r, x :: ys => (if redeemed c o x then 1 else 0) + count c r ys | _, _ => 0 end%nat.

(* invariant on the code's view, preserved by every step; `lo` is a lower bound that only grows *)
Definition inv (s : st) (c : nat) (lo : Z) := exists ct, view s c = Some ct /\ maxu ct = Some 1 /\ 0 <= used ct /\ lo <= used ct.

Lemma find_upd_other c i f l : Nat.eqb c i = false -> (forall t, tid (f t) = tid t) -> find c (upd i f l) = find c l.
Proof.
  intros Hne Hf. induction l as [|t r IH]; cbn; [reflexivity|].
  destruct (Nat.eqb (tid t) i) eqn:E; cbn.
  - rewrite Hf. destruct (Nat.eqb (tid t) c) eqn:E2; [|reflexivity].
    apply Nat.eqb_eq in E, E2. rewrite <- E, E2, Nat.eqb_refl in Hne. discriminate.
  - destruct (Nat.eqb (tid t) c); [reflexivity|exact IH].
Qed.

(* a Process on another code d does not touch c's view: needs the frame lemma for process *)
Lemma mint_frame s d k s' c : Nat.eqb c d = false -> mint s d k = Some s' ->
  (forall ct, view s c = Some ct -> view s' c = Some ct).
Proof.
  unfold mint. intros Hne H ct Hv. destruct (find d (toks s)) as [dt|]; [|discriminate].
  destruct (supports dt k && is_active dt (clock s)); [|discriminate]. inversion H; subst; clear H.
  unfold view in *; cbn. erewrite find_app; [reflexivity|]. rewrite find_upd_other by (auto; reflexivity). exact Hv.
Qed.
Lemma bump_frame s d z c : Nat.eqb c d = false -> view (bump s d z) c = view s c.
Proof. intros Hne. unfold view, bump; cbn. apply find_upd_other; [exact Hne|reflexivity]. Qed.

Lemma process_frame s d ir oi so c ct : Nat.eqb c d = false -> view s c = Some ct ->
  view (fst (process s d ir oi so)) c = Some ct.
Proof.
  intros Hne Hv. unfold process. destruct (find d (toks s)) as [dt|]; [|exact Hv].
  assert (F : forall sx k sy, view sx c = Some ct -> mint sx d k = Some sy -> view sy c = Some ct)
    by (intros sx k sy Hx Hm; eapply mint_frame; eauto).
  assert (B : forall sx z, view sx c = Some ct -> view (bump sx d z) c = Some ct)
    by (intros sx z Hx; rewrite bump_frame; auto).
  Ltac fr B F := repeat first [ assumption | apply B | match goal with M : mint ?sx _ _ = Some ?sy |- view ?sy _ = Some _ => apply (F _ _ _) with (2 := M) end ].
  destruct (mint s d Access) as [s1|] eqn:M1;
  destruct (ir && supports dt Refresh);
  try destruct (mint (bump s1 d (-1)) d Refresh) as [s2|] eqn:M2;
  destruct (oi && supports dt IdTok); destruct so; cbn;
  repeat match goal with |- context [mint ?a ?b ?c] => let M := fresh "M" in destruct (mint a b c) eqn:M; cbn end;
  fr B F.
  all: idtac "REMAINING". Show. 
Admitted.

Lemma step_inv s c lo o : inv s c lo ->
  let '(s', x) := step s o in
  (redeemed c o x = true -> lo <= 0 /\ inv s' c 1) /\ inv s' c lo.
Proof.
  intros (ct & Hv & Hm & H0 & Hlo). destruct o as [d ir oi so|d|i]; cbn.
  - destruct (process s d ir oi so) as [s' x] eqn:E.
    destruct (Nat.eqb c d) eqn:Ecd.
    + apply Nat.eqb_eq in Ecd; subst d.
      pose proof (process_summary s c ir oi so ct Hv Hm H0) as (ct' & V' & M' & Hcase). rewrite E in *; cbn in *.
      destruct Hcase as [[[ids ->] [U0 U1]] | [-> Hr]]; cbn.
      * split; [intros _; split; [lia|]|]; exists ct'; repeat split; auto; lia.
      * split; [discriminate|]. exists ct'; repeat split; auto; lia.
    + split; [discriminate|]. exists ct; repeat split; auto.
      pose proof (process_frame s d ir oi so c ct Ecd Hv) as F. rewrite E in F. exact F.
  - split; [discriminate|]. exists ct; repeat split; auto.
  - split; [discriminate|]. unfold view; cbn. destruct (Nat.eqb c i) eqn:Eci.
    + apply Nat.eqb_eq in Eci; subst i. rewrite find_upd by reflexivity. unfold view in Hv; rewrite Hv; cbn.
      eexists; split; [reflexivity|]. cbn. auto.
    + rewrite find_upd_other by (auto; reflexivity). exists ct; auto.
Qed.

Theorem single_use c : forall ops s lo, inv s c lo ->
  (count c ops (snd (run s ops)) <= (if lo >=? 1 then 0 else 1))%nat.
Proof.
  induction ops as [|o r IH]; intros s lo Hinv; cbn; [lia|].
  pose proof (step_inv s c lo o Hinv) as Hs. destruct (step s o) as [s' x].
  destruct Hs as [Hred Hkeep]. destruct (run s' r) as [s'' xs] eqn:Er. cbn.
  destruct (redeemed c o x) eqn:Ered.
  - destruct (Hred eq_refl) as [Hlo H1]. specialize (IH s' 1 H1). rewrite Er in IH; cbn in IH.
    destruct (lo >=? 1) eqn:El; [lia|]. cbn in IH. lia.
  - specialize (IH s' lo Hkeep). rewrite Er in IH; cbn in IH. lia.
Qed.

Corollary C02_single_use_sketch c ops s ct :
  view s c = Some ct -> maxu ct = Some 1 -> 0 <= used ct -> (count c ops (snd (run s ops)) <= 1)%nat.
Proof.
  intros Hv Hm H0. pose proof (single_use c ops s 0 (ex_intro _ ct (conj Hv (conj Hm (conj H0 H0))))) as H.
  cbn in H. exact H.
Qed.
Print Assumptions C02_single_use_sketch.
