From Coq Require Import List ZArith Bool Lia.
Import ListNotations.
Open Scope Z_scope.

(* ---------- reduced model of the OIDC code-redemption accounting ---------- *)
Inductive tclass := Code | Access | Refresh | IdTok.
Definition tclass_eqb (a b : tclass) : bool :=
  match a, b with Code, Code | Access, Access | Refresh, Refresh | IdTok, IdTok => true | _, _ => false end.
Record tok := { tid : nat; cls : tclass; based : option nat; used : Z; maxu : option Z;
                revoked : bool; expires : Z; mints : list tclass }.
Definition set_used (t : tok) (u : Z) : tok :=
  {| tid := tid t; cls := cls t; based := based t; used := u; maxu := maxu t;
     revoked := revoked t; expires := expires t; mints := mints t |}.
Definition set_revoked (t : tok) : tok :=
  {| tid := tid t; cls := cls t; based := based t; used := used t; maxu := maxu t;
     revoked := true; expires := expires t; mints := mints t |}.
Definition max_reached (t : tok) : bool := match maxu t with Some m => used t >=? m | None => false end.
Definition is_active (t : tok) (now : Z) : bool :=
  negb (max_reached t) && negb (revoked t) && ((expires t =? 0) || negb (now >? expires t)).
Definition supports (t : tok) (c : tclass) : bool := existsb (tclass_eqb c) (mints t).

Record st := { toks : list tok; clock : Z; supply : nat }.
Fixpoint find (i : nat) (l : list tok) : option tok :=
  match l with [] => None | t :: r => if Nat.eqb (tid t) i then Some t else find i r end.
Fixpoint upd (i : nat) (f : tok -> tok) (l : list tok) : list tok :=
  match l with [] => [] | t :: r => if Nat.eqb (tid t) i then f t :: r else t :: upd i f r end.

Inductive out := Tokens (ids : list nat) | Refused.

(* one minting attempt from code c (looked up fresh each time, as the code mutates it in place) *)
Definition mint (s : st) (c : nat) (k : tclass) : option st :=
  match find c (toks s) with
  | None => None
  | Some ct =>
    if supports ct k && is_active ct (clock s) then
      let nt := {| tid := supply s; cls := k; based := Some c; used := 0; maxu := None;
                   revoked := false; expires := clock s + 3600; mints := [] |} in
      Some {| toks := upd c (fun t => set_used t (used t + 1)) (toks s) ++ [nt];
              clock := clock s; supply := S (supply s) |}
    else None
  end.
Definition bump (s : st) (c : nat) (d : Z) : st :=
  {| toks := upd c (fun t => set_used t (used t + d)) (toks s); clock := clock s; supply := supply s |}.

(* process_request of the OIDC helper: flags = issue_refresh, openid, signing succeeds *)
Definition process (s : st) (c : nat) (issue_refresh openid sign_ok : bool) : st * out :=
  match find c (toks s) with
  | None => (s, Refused)
  | Some ct0 =>
    (* access token: MintingNotAllowed is swallowed, leaving `token` unbound *)
    let '(s1, at_id) := match mint s c Access with Some s' => (s', Some (supply s)) | None => (s, None) end in
    (* refresh *)
    let r1 := if issue_refresh && supports ct0 Refresh then
                match at_id with
                | None => None                                   (* UnboundLocalError *)
                | Some _ => let s1' := bump s1 c (-1) in
                            Some (match mint s1' c Refresh with Some s' => (s', [supply s1']) | None => (s1', []) end)
                end
              else Some (s1, []) in
    match r1 with
    | None => (s1, Refused)
    | Some (s2, rt) =>
      let r2 := if openid && supports ct0 IdTok then
                  match at_id with
                  | None => None
                  | Some _ => let s2' := bump s2 c (-1) in
                              if sign_ok then
                                match mint s2' c IdTok with Some s' => Some (s', [supply s2']) | None => None end
                              else None
                  end
                else Some (s2, []) in
      match r2 with
      | None => (match at_id with Some _ => bump s2 c (if openid && supports ct0 IdTok then -1 else 0) | None => s2 end, Refused)
      | Some (s3, idt) =>
        let s4 := bump s3 c 1 in                                  (* register_usage *)
        match at_id with
        | Some a => (s4, Tokens (a :: rt ++ idt))
        | None => (s4, Refused)                                   (* KeyError on response_args["access_token"] *)
        end
      end
    end
  end.

Inductive op := Process (c : nat) (ir oi so : bool) | Tick (d : Z) | Revoke (i : nat).
Definition step (s : st) (o : op) : st * out :=
  match o with
  | Process c ir oi so => process s c ir oi so
  | Tick d => ({| toks := toks s; clock := clock s + Z.max d 0; supply := supply s |}, Refused)
  | Revoke i => ({| toks := upd i set_revoked (toks s); clock := clock s; supply := supply s |}, Refused)
  end.
Fixpoint run (s : st) (ops : list op) : st * list out :=
  match ops with [] => (s, []) | o :: r => let '(s', x) := step s o in let '(s'', xs) := run s' r in (s'', x :: xs) end.

(* sanity: evaluate a history *)
Definition code0 : tok := {| tid := 0; cls := Code; based := None; used := 0; maxu := Some 1; revoked := false;
                             expires := 300; mints := [Access; Refresh; IdTok] |}.
Definition s0 : st := {| toks := [code0]; clock := 10; supply := 1 |}.
Eval vm_compute in snd (run s0 [Process 0 true true true; Process 0 true true true; Process 0 false false true]).
Eval vm_compute in map used (toks (fst (run s0 [Process 0 true true true]))).
Eval vm_compute in snd (run s0 [Process 0 true true false; Process 0 true true true; Process 0 true true true]).
