From Coq Require Import List Arith Lia.
Import ListNotations.

Inductive term :=
| Atom (n : nat) | Key (k : nat) | Pair (a b : term)
| AEnc (k r : nat) (m : term)      (* authenticated encryption under key k with nonce r *)
| Mac (k : nat) (m : term).        (* MAC of m under k *)

(* subterm relation that does not look into key positions *)
Inductive sub : term -> term -> Prop :=
| sub_refl t : sub t t
| sub_pl x a b : sub x a -> sub x (Pair a b)
| sub_pr x a b : sub x b -> sub x (Pair a b)
| sub_enc x k r m : sub x m -> sub x (AEnc k r m)
| sub_mac x k m : sub x m -> sub x (Mac k m).

Lemma sub_trans x y z : sub x y -> sub y z -> sub x z.
Proof. intros Hxy Hyz. induction Hyz; auto using sub. Qed.

Section DY.
  Variable K : term -> Prop.            (* everything the honest parties ever published *)
  Inductive derivable : term -> Prop :=
  | d_init t : K t -> derivable t
  | d_atom n : derivable (Atom n)
  | d_pair a b : derivable a -> derivable b -> derivable (Pair a b)
  | d_fst a b : derivable (Pair a b) -> derivable a
  | d_snd a b : derivable (Pair a b) -> derivable b
  | d_enc k r m : derivable (Key k) -> derivable m -> derivable (AEnc k r m)
  | d_dec k r m : derivable (AEnc k r m) -> derivable (Key k) -> derivable m
  | d_mac k m : derivable (Key k) -> derivable m -> derivable (Mac k m)
  | d_macpay k m : derivable (Mac k m) -> derivable m.   (* a MAC does not hide its payload *)

  Variable k0 : nat.
  Hypothesis secret : forall t, K t -> ~ sub (Key k0) t.   (* k0 is never published, not even inside a plaintext *)

  Definition protected (x : term) : Prop := (exists r m, x = AEnc k0 r m) \/ (exists m, x = Mac k0 m).
  Definition ok (t : term) : Prop :=
    ~ sub (Key k0) t /\ forall x, protected x -> sub x t -> exists t0, K t0 /\ sub x t0.

  Lemma ok_sub t x : ok t -> sub x t -> ok x.
  Proof.
    intros [H1 H2] Hs. split.
    - intro H. apply H1. eapply sub_trans; eauto.
    - intros y Py Hy. apply H2; auto. eapply sub_trans; eauto.
  Qed.

  Lemma derivable_ok t : derivable t -> ok t.
  Proof.
    induction 1 as [t Ht|n|a b _ [Ha1 Ha2] _ [Hb1 Hb2]|a b _ IH|a b _ IH|k r m _ [Hk _] _ [Hm1 Hm2]
                   |k r m _ IH _ _|k m _ [Hk _] _ [Hm1 Hm2]|k m _ IH].
    - split; [apply secret; exact Ht|]. intros x _ Hx. exists t; auto.
    - split; [intro H; inversion H|]. intros x [[r [m ->]]|[m ->]] Hx; inversion Hx.
    - split; [intro H; inversion H; subst; auto|].
      intros x Px Hx. inversion Hx; subst; auto. destruct Px as [[r [m E]]|[m E]]; discriminate.
    - eapply ok_sub; [exact IH|]. apply sub_pl, sub_refl.
    - eapply ok_sub; [exact IH|]. apply sub_pr, sub_refl.
    - assert (k <> k0) by (intros ->; apply Hk, sub_refl).
      split; [intro H'; inversion H'; subst; auto|].
      intros x Px Hx. inversion Hx; subst; auto.
      destruct Px as [[r' [m' E]]|[m' E]]; [inversion E; congruence|discriminate].
    - eapply ok_sub; [exact IH|]. apply sub_enc, sub_refl.
    - assert (k <> k0) by (intros ->; apply Hk, sub_refl).
      split; [intro H'; inversion H'; subst; auto|].
      intros x Px Hx. inversion Hx; subst; auto.
      destruct Px as [[r' [m' E]]|[m' E]]; [discriminate|inversion E; congruence].
    - eapply ok_sub; [exact IH|]. apply sub_mac, sub_refl.
  Qed.

  Theorem key_secret : ~ derivable (Key k0).
  Proof. intro H. destruct (derivable_ok _ H) as [H1 _]. apply H1, sub_refl. Qed.

  Theorem aenc_genuine r m : derivable (AEnc k0 r m) -> exists t0, K t0 /\ sub (AEnc k0 r m) t0.
  Proof. intro H. destruct (derivable_ok _ H) as [_ H2]. apply H2; [left; eauto|apply sub_refl]. Qed.

  Theorem mac_genuine m : derivable (Mac k0 m) -> exists t0, K t0 /\ sub (Mac k0 m) t0.
  Proof. intro H. destruct (derivable_ok _ H) as [_ H2]. apply H2; [right; eauto|apply sub_refl]. Qed.
End DY.
Print Assumptions aenc_genuine.
