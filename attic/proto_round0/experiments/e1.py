from srv import *
s = make_server()
ctx = s.context
az = s.get_endpoint("authorization")
tk = s.get_endpoint("token")
ui = s.get_endpoint("userinfo")
intro = s.get_endpoint("introspection")

def authorize(cid, scope=("openid","profile"), **kw):
    req = dict(client_id=cid, redirect_uri="https://%s.example.com/cb" % cid, scope=" ".join(scope), state="ST", response_type="code", nonce="n1")
    req.update(kw)
    r = az.parse_request(req)
    if "error" in r: return r
    return az.process_request(r)

def redeem(cid, code):
    req = dict(grant_type="authorization_code", code=code, redirect_uri="https://%s.example.com/cb" % cid, client_id=cid, client_secret=ctx.cdb[cid]["client_secret"])
    r = tk.parse_request(req)
    if "error" in r: return r
    return tk.process_request(r)

def userinfo(at):
    hi = {"headers": {"authorization": "Bearer " + at}}
    try:
        r = ui.parse_request({}, http_info=hi)
        if "error" in r: return ("parse_err", r.to_dict())
        return ui.process_request(r, http_info=hi)
    except Exception as e:
        return ("exc", repr(e))

def introspect(cid, tok):
    req = dict(token=tok, client_id=cid, client_secret=ctx.cdb[cid]["client_secret"])
    r = intro.parse_request(req)
    if "error" in r: return r
    return intro.process_request(r)["response_args"].to_dict()

a = authorize("client_1")
print("AUTHZ keys", a.keys() if isinstance(a, dict) else a)
code = a["response_args"]["code"]
sid = a["session_id"]
t = redeem("client_1", code)
at = t["response_args"]["access_token"]
print("userinfo before:", userinfo(at))
print("introspect before:", introspect("client_1", at))
# revoke grant
ctx.session_manager.revoke_grant(sid)
print("== after revoke_grant")
print("userinfo:", userinfo(at))
print("introspect:", introspect("client_1", at))
# logout
a2 = authorize("client_2"); code2 = a2["response_args"]["code"]; t2 = redeem("client_2", code2); at2 = t2["response_args"]["access_token"]
ctx.session_manager.revoke_client_session(a2["session_id"])
print("== after revoke_client_session")
print("userinfo:", userinfo(at2))
print("introspect:", introspect("client_2", at2))
