from srv import *
s = make_server()
pi = s.context.provider_info
for k in sorted(pi):
    v = pi[k]
    if isinstance(v, list): print(k, len(v), v if len(v) <= 12 else v[:12] + ["..."])
    else: print(k, v)
from idpyoidc.client.client_auth import get_client_authn_methods
print("client authn methods:", get_client_authn_methods())
from idpyoidc.client.oidc.authorization import Authorization as CA
print("client authz _supports:", {k:(v if not isinstance(v,list) or len(v)<8 else len(v)) for k,v in CA._supports.items()})
