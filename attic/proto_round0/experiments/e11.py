from srv import *
import base64, json, time
from cryptojwt.jwt import JWT
from cryptojwt.key_jar import KeyJar, init_key_jar
from cryptojwt.jws.jws import JWS
s = make_server(); ctx = s.context
tk = s.get_endpoint("token"); intro = s.get_endpoint("introspection")
ISS = "https://example.com/"
TOKEN_EP = tk.full_path
print("token ep", TOKEN_EP, "allowed", tk.allowed_target_uris())
# client_1: secret only; client_2: secret + RSA key
ckj = init_key_jar(key_defs=[{"type": "RSA", "use": ["sig"]}], issuer_id="client_2")
s.keyjar.import_jwks(ckj.export_jwks(issuer_id="client_2"), "client_2")
sec = {c: ctx.cdb[c]["client_secret"] for c in ("client_1", "client_2")}

def attempt(label, req, headers=None, ep=tk):
    base = dict(grant_type="authorization_code", code="bogus", redirect_uri="https://x/cb")
    base.update(req)
    try:
        # only client authentication part: call client_authentication directly through parse path
        r = ep.client_authentication(ep.request_cls(**base), {"headers": headers or {}}, endpoint=ep)
        print("%-55s -> ACCEPT %s via %s" % (label, r.get("client_id"), r.get("method")))
    except Exception as e:
        print("%-55s -> refuse %s" % (label, type(e).__name__))

def basic(u, p): return {"authorization": "Basic " + base64.b64encode(("%s:%s" % (u, p)).encode()).decode()}
def hs_assert(iss, key, aud=TOKEN_EP, alg="HS256", **extra):
    kj = KeyJar(); kj.add_symmetric(iss, key)
    j = JWT(kj, iss=iss, lifetime=extra.pop("lifetime", 300), sign_alg=alg); j.with_jti = extra.pop("with_jti", True)
    return j.pack({"aud": [aud] if isinstance(aud, str) else aud, "sub": iss, **extra}, owner=iss)
def rs_assert(iss, kj, owner, aud=TOKEN_EP, **extra):
    j = JWT(kj, iss=iss, lifetime=extra.pop("lifetime", 300), sign_alg="RS256"); j.with_jti = True
    return j.pack({"aud": [aud], "sub": iss, **extra}, owner=owner)
JB = "urn:ietf:params:oauth:client-assertion-type:jwt-bearer"

attempt("basic good", {}, basic("client_1", sec["client_1"]))
attempt("basic cross-client secret", {}, basic("client_1", sec["client_2"]))
attempt("basic unknown client", {}, basic("nobody", "x"))
attempt("basic secret with colon split", {}, basic("client_1", sec["client_1"] + ":x"))
attempt("post good", dict(client_id="client_1", client_secret=sec["client_1"]))
attempt("post wrong", dict(client_id="client_1", client_secret="nope"))
attempt("post empty secret for client w/o secret", dict(client_id="client_1", client_secret=""))
ctx.cdb["client_1"]["client_secret_expires_at"] = int(time.time()) - 10
attempt("post good but secret expired", dict(client_id="client_1", client_secret=sec["client_1"]))
attempt("secret_jwt with expired secret", dict(client_assertion=hs_assert("client_1", sec["client_1"]), client_assertion_type=JB))
del ctx.cdb["client_1"]["client_secret_expires_at"]
a = hs_assert("client_1", sec["client_1"])
attempt("secret_jwt good", dict(client_assertion=a, client_assertion_type=JB))
attempt("secret_jwt replay", dict(client_assertion=a, client_assertion_type=JB))
attempt("secret_jwt replay at introspection", dict(client_assertion=a, client_assertion_type=JB, token="x"), ep=intro)
attempt("secret_jwt aud=issuer", dict(client_assertion=hs_assert("client_1", sec["client_1"], aud=ISS), client_assertion_type=JB))
attempt("secret_jwt aud=introspection ep at token ep", dict(client_assertion=hs_assert("client_1", sec["client_1"], aud=intro.full_path), client_assertion_type=JB))
attempt("secret_jwt signed w/ other client's secret", dict(client_assertion=hs_assert("client_1", sec["client_2"]), client_assertion_type=JB))
attempt("secret_jwt expired", dict(client_assertion=hs_assert("client_1", sec["client_1"], lifetime=-100), client_assertion_type=JB))
attempt("secret_jwt no jti twice (1)", dict(client_assertion=(b:=hs_assert("client_1", sec["client_1"], with_jti=False)), client_assertion_type=JB))
attempt("secret_jwt no jti twice (2)", dict(client_assertion=b, client_assertion_type=JB))
attempt("private_key_jwt good", dict(client_assertion=rs_assert("client_2", ckj, "client_2"), client_assertion_type=JB))
kj12 = KeyJar(); kj12.import_jwks(ckj.export_jwks(private=True, issuer_id="client_2"), "client_1")
attempt("private_key_jwt iss=client_1 signed by client_2 key", dict(client_assertion=rs_assert("client_1", kj12, "client_1"), client_assertion_type=JB))
attempt("alg none assertion iss=client_1", dict(client_assertion=JWS(json.dumps({"iss":"client_1","sub":"client_1","aud":[TOKEN_EP],"exp":int(time.time())+100,"jti":"n1"}), alg="none").sign_compact([]), client_assertion_type=JB))
# HS256 using client_2's RSA public key PEM as hmac secret
pub = ckj.get_signing_key("rsa", "client_2")[0]
pem = pub.serialize(private=False)
attempt("HS256 w/ public JWK json as secret", dict(client_assertion=hs_assert("client_2", json.dumps(pem)), client_assertion_type=JB))
# body client_id differs from assertion iss
attempt("assertion iss=client_1, body client_id=client_2", dict(client_id="client_2", client_assertion=hs_assert("client_1", sec["client_1"]), client_assertion_type=JB))
# per-client restriction
ctx.cdb["client_1"]["client_authn_method"] = ["client_secret_basic"]
attempt("post good but client restricted to basic", dict(client_id="client_1", client_secret=sec["client_1"]))
attempt("basic good w/ restriction", {}, basic("client_1", sec["client_1"]))
attempt("post(restricted) + basic hdr for same client", dict(client_id="client_1", client_secret=sec["client_1"]), basic("client_1", sec["client_1"]))
ctx.cdb["client_1"]["token_endpoint_client_authn_method"] = ["client_secret_post"]
attempt("endpoint-specific restriction overrides: post", dict(client_id="client_1", client_secret=sec["client_1"]))
attempt("endpoint-specific restriction overrides: basic", {}, basic("client_1", sec["client_1"]))
# no credentials at all
attempt("no credentials, client_id only", dict(client_id="client_1"))
attempt("nothing", {})
