import srv
from srv import *
PIN = {"kwargs": {"password": "0123456789abcdef0123456789abcdef", "salt": "fedcba9876543210", "iterations": 1}}
srv.CRYPT_CONFIG.clear(); srv.CRYPT_CONFIG.update(PIN)
def flow_until_code(s, cid="client_1", scope="openid offline_access"):
    az = s.get_endpoint("authorization")
    r = az.parse_request(dict(client_id=cid, redirect_uri="https://%s.example.com/cb"%cid, scope=scope, state="ST", response_type="code", nonce="n1", prompt="consent"))
    return az.process_request(r)
def redeem(s, cid, code):
    tk = s.get_endpoint("token"); ctx = s.context
    r = tk.parse_request(dict(grant_type="authorization_code", code=code, redirect_uri="https://%s.example.com/cb"%cid, client_id=cid, client_secret=ctx.cdb[cid]["client_secret"]))
    if "error" in r: return r.to_dict()
    o = tk.process_request(r)
    return o["response_args"] if isinstance(o, dict) else o.to_dict()
def userinfo(s, at):
    ui = s.get_endpoint("userinfo"); hi = {"headers": {"authorization": "Bearer " + at}}
    try:
        r = ui.parse_request({}, http_info=hi)
        if "error" in r: return ("parse_err", r.to_dict())
        o = ui.process_request(r, http_info=hi); return sorted(o["response_args"].keys()) if isinstance(o, dict) else o.to_dict()
    except Exception as e: return ("exc", repr(e)[:80])

for jwt_tokens in (False, True):
    a = make_server(jwt_tokens=jwt_tokens)
    x = flow_until_code(a); code = x["response_args"]["code"]
    y = flow_until_code(a, "client_2"); t2 = redeem(a, "client_2", y["response_args"]["code"])
    a.context.session_manager.get_grant(y["session_id"])  # touch
    dump = a.context.dump()
    import json; json.dumps(dump)  # must be JSON serialisable
    b = make_server(jwt_tokens=jwt_tokens)
    b.context.load(dump, init_args={"upstream_get": b.unit_get, "handler": b.context.session_manager.token_handler})
    # keys for JWT tokens are server signing keys: copy keyjar (same configured key material)
    if jwt_tokens: b.keyjar = a.keyjar; b.context.keyjar = a.keyjar
    print("jwt=%s | restored: redeem pending code ->" % jwt_tokens, {k: (v[:12]+"..." if isinstance(v,str) else v) for k,v in redeem(b, "client_1", code).items()})
    print("        | restored: replay on restored ->", redeem(b, "client_1", code).get("error"))
    print("        | original: redeem same code   ->", "tokens" if "access_token" in redeem(a, "client_1", code) else "refused")
    print("        | restored: userinfo w/ AT issued before dump ->", userinfo(b, t2["access_token"]))
    print("        | restored: refresh issued before dump   ->", end=" ")
    tk = b.get_endpoint("token")
    r = tk.parse_request(dict(grant_type="refresh_token", refresh_token=t2["refresh_token"], client_id="client_2", client_secret=b.context.cdb["client_2"]["client_secret"]))
    print(r.to_dict() if "error" in r else sorted(tk.process_request(r)["response_args"].keys()))
