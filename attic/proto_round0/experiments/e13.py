import sys, json, time
sys.path.insert(0, "/repo/src")
from cryptojwt.key_jar import init_key_jar, KeyJar
from cryptojwt.jws.jws import JWS
from cryptojwt.jws.utils import left_hash
from idpyoidc.message.oidc import AccessTokenResponse, AuthorizationResponse
ISS = "https://op.example.com"; CID = "client_1"; SECRET = "0123456789abcdef0123456789abcdef0123456789abcdef0123456789abcdef"
opkj = init_key_jar(key_defs=[{"type": "RSA", "use": ["sig"]}, {"type": "EC", "crv": "P-256", "use": ["sig"]}], issuer_id=ISS)
evil = init_key_jar(key_defs=[{"type": "RSA", "use": ["sig"]}], issuer_id=ISS)
rpkj = KeyJar(); rpkj.import_jwks(opkj.export_jwks(issuer_id=ISS), ISS); rpkj.add_symmetric(CID, SECRET); rpkj.add_symmetric("", SECRET)
now = int(time.time())
def claims(**over):
    c = {"iss": ISS, "sub": "u1", "aud": [CID], "exp": now + 300, "iat": now, "nonce": "N"}
    for k, v in over.items():
        if v is None: c.pop(k, None)
        else: c[k] = v
    return c
def sign(c, alg="RS256", kj=opkj, key=None, kid=True):
    if alg == "none": return JWS(json.dumps(c), alg="none").sign_compact([])
    if key is None:
        kt = {"RS": "rsa", "ES": "ec", "PS": "rsa"}[alg[:2]] if alg[:2] != "HS" else "oct"
        keys = kj.get_signing_key(kt, ISS)
    else: keys = key
    j = JWS(json.dumps(c), alg=alg)
    if not kid:
        for k in keys: k.kid = ""
    return j.sign_compact(keys)
def vkw(**over):
    kw = {"client_id": CID, "iss": ISS, "keyjar": rpkj, "verify": True, "skew": 0, "sigalg": "RS256", "nonce": "N"}
    kw.update(over); return {k: v for k, v in kw.items() if v is not None}
def try_token(label, idt, kw=None, cls=AccessTokenResponse, **msg):
    m = cls(access_token="AT", token_type="Bearer", id_token=idt, **msg) if cls is AccessTokenResponse else cls(id_token=idt, state="S", **msg)
    try:
        ok = m.verify(**(kw or vkw()))
        print("%-52s -> %s" % (label, "ACCEPT" if ok and "__verified_id_token" in m else "reject(False)"))
    except Exception as e:
        print("%-52s -> reject %s" % (label, type(e).__name__))
try_token("genuine RS256", sign(claims()))
try_token("wrong iss", sign(claims(iss="https://evil")))
try_token("aud other client", sign(claims(aud=["other"])))
try_token("aud two, no azp", sign(claims(aud=[CID, "other"])))
try_token("aud two, azp other", sign(claims(aud=[CID, "other"], azp="other")))
try_token("aud one, azp other", sign(claims(azp="other")))
try_token("expired", sign(claims(exp=now - 10, iat=now - 100)))
try_token("iat in future", sign(claims(iat=now + 1000, exp=now + 2000)))
try_token("iat too old (>4h)", sign(claims(iat=now - 5 * 3600)))
try_token("exp < iat", sign(claims(exp=now + 5, iat=now + 0, )) )
try_token("exp missing", sign(claims(exp=None)))
try_token("iat missing", sign(claims(iat=None)))
try_token("sub missing", sign(claims(sub=None)))
try_token("aud missing", sign(claims(aud=None)))
try_token("iss missing", sign(claims(iss=None)))
try_token("wrong nonce (message API, nonce kw)", sign(claims(nonce="X")))
try_token("nonce missing (message API, nonce kw)", sign(claims(nonce=None)))
try_token("exp as string", sign(claims(exp=str(now + 300))))
try_token("aud as string", sign(claims(aud=CID)))
try_token("alg none, expected RS256", sign(claims(), alg="none"))
try_token("alg none, no expectation", sign(claims(), alg="none"), vkw(sigalg=None))
try_token("alg none, allow_sign_alg_none", sign(claims(), alg="none"), vkw(sigalg=None, allow_sign_alg_none=True))
try_token("ES256 genuine, expected RS256", sign(claims(), alg="ES256"))
try_token("ES256 genuine, no expectation", sign(claims(), alg="ES256"), vkw(sigalg=None))
try_token("RS256 foreign key", sign(claims(), kj=evil))
hs = rpkj.get_signing_key("oct", CID)
try_token("HS256 w/ client secret, expected RS256", sign(claims(), alg="HS256", key=hs))
try_token("HS256 w/ client secret, no expectation", sign(claims(), alg="HS256", key=hs), vkw(sigalg=None))
try_token("HS256 w/ client secret, allowed_sign_alg=RS256", sign(claims(), alg="HS256", key=hs), vkw(sigalg=None, allowed_sign_alg="RS256"))
from cryptojwt.jwk.hmac import SYMKey
pub_as_oct = [SYMKey(key=json.dumps(opkj.get_signing_key("rsa", ISS)[0].serialize(private=False)))]
try_token("HS256 w/ OP public JWK as secret, no expectation", sign(claims(), alg="HS256", key=pub_as_oct), vkw(sigalg=None))
try_token("no iss kw supplied, wrong iss in token", sign(claims(iss="https://evil")), vkw(iss=None))
# authorization endpoint: hashes
code = "CODE"; 
try_token("authz: good c_hash", sign(claims(c_hash=left_hash(code, "HS256"))), cls=AuthorizationResponse, code=code)
try_token("authz: missing c_hash", sign(claims()), cls=AuthorizationResponse, code=code)
try_token("authz: wrong c_hash", sign(claims(c_hash=left_hash("OTHER", "HS256"))), cls=AuthorizationResponse, code=code)
try_token("authz: wrong at_hash", sign(claims(at_hash=left_hash("OTHER", "HS256"))), cls=AuthorizationResponse, access_token="AT", token_type="Bearer")
try_token("authz: alg none allowed + code, no c_hash", sign(claims(), alg="none"), vkw(sigalg=None, allow_sign_alg_none=True), cls=AuthorizationResponse, code=code)
# forged verified claim
m = AccessTokenResponse(access_token="AT", token_type="Bearer", **{"__verified_id_token": {"sub": "admin"}})
m.verify(**vkw()); print("forged __verified_id_token survives verify:", "__verified_id_token" in m)
