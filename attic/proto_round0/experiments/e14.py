import sys, json, time, copy
sys.path.insert(0, "/repo/src")
from urllib.parse import parse_qs, urlsplit
from cryptojwt.key_jar import init_key_jar
from cryptojwt.jws.jws import JWS
from idpyoidc.client.oauth2.stand_alone_client import StandAloneClient
ISS = "https://op.example.com"
CONF = {"base_url": "https://example.com/cli/", "client_id": "Number5", "client_type": "oidc", "client_secret": "asdflkjh0987654321asdflkjh0987654321",
        "response_types_supported": ["code", "id_token", "code id_token"],
        "provider_info": {"issuer": ISS, "authorization_endpoint": ISS + "/authn", "token_endpoint": ISS + "/token", "userinfo_endpoint": ISS + "/user"}}
opkj = init_key_jar(key_defs=[{"type": "RSA", "use": ["sig"]}], issuer_id=ISS)
c = StandAloneClient(config=CONF); c.do_provider_info(); c.do_client_registration()
c.keyjar.import_jwks(opkj.export_jwks(issuer_id=ISS), ISS)
def begin(rt="code id_token"):
    url = c.init_authorization(req_args={"response_type": rt})
    q = parse_qs(urlsplit(url).query); return q["state"][0], q["nonce"][0]
def idt(nonce, sub="u1", **over):
    now = int(time.time()); cl = {"iss": ISS, "sub": sub, "aud": ["Number5"], "exp": now + 300, "iat": now, "nonce": nonce}; cl.update(over)
    return cl
def sign(cl, code=None):
    from cryptojwt.jws.utils import left_hash
    if code: cl = dict(cl, c_hash=left_hash(code, "HS256"))
    return JWS(json.dumps(cl), alg="RS256").sign_compact(opkj.get_signing_key("rsa", ISS))
db = lambda: copy.deepcopy(c.get_context().cstate._db)
def fin(label, resp):
    before = db()
    try:
        r = c.finalize_auth(resp); out = "ACCEPT"
    except Exception as e: out = "reject %s(%s)" % (type(e).__name__, str(e)[:40])
    after = db()
    changed = sorted(k for k in set(before) | set(after) if before.get(k) != after.get(k))
    print("%-50s -> %-45s changed states: %s" % (label, out, [("A" if k == A else "B" if k == B else k[:6]) for k in changed]))
A, nA = begin(); B, nB = begin()
fin("state A + id token of A (genuine)", {"state": A, "code": "codeA", "id_token": sign(idt(nA), "codeA")})
A, nA = begin(); B, nB = begin()
fin("state A + id token with nonce of B", {"state": A, "code": "codeA", "id_token": sign(idt(nB), "codeA")})
fin("unknown state", {"state": "ZZZ", "code": "codeA"})
fin("unknown state + valid id token of A", {"state": "ZZZ", "code": "codeA", "id_token": sign(idt(nA), "codeA")})
fin("state A, iss param wrong", {"state": A, "code": "codeA", "iss": "https://evil", "id_token": sign(idt(nA), "codeA")})
fin("state A, client_id param wrong", {"state": A, "code": "codeA", "client_id": "other", "id_token": sign(idt(nA), "codeA")})
fin("state A truncated", {"state": A[:-1], "code": "codeA"})
# state of A but code of B (no id token): nothing binds the code -> accepted under A (expected, code bound at OP)
fin("state A + code of B, no id_token", {"state": A, "code": "codeB"})
print("map after:", {k[:6]: (("A" if v == A else "B" if v == B else v[:6])) for k, v in c.get_context().cstate._map.items()})
