from srv import *
import copy
s = make_server(); ctx = s.context
az = s.get_endpoint("authorization"); tk = s.get_endpoint("token"); intro = s.get_endpoint("introspection")
# enable resource indicators at the authorization endpoint without explicit kwargs (the code fills a default)
from idpyoidc.server.oauth2.authorization import validate_resource_indicators_policy as V
az.resource_indicators_config = {"policy": {"function": V, "kwargs": {}}}
for c in ("client_1", "client_2"): ctx.cdb[c]["allowed_scopes"] = ["openid", "profile", "email"]
def authz(cid, **kw):
    req = dict(client_id=cid, redirect_uri="https://%s.example.com/cb"%cid, scope="openid profile", state="ST", response_type="code", nonce="n1", resource=[cid]); req.update(kw)
    from idpyoidc.message.oidc import AuthorizationRequest
    r = az._post_parse_request(AuthorizationRequest(**req), cid, az.upstream_get("context"))
    return r
r1 = authz("client_1"); print("client_1 first :", "error: "+r1.get("error_description","") if "error" in r1 else "ok")
print("config after first request:", az.resource_indicators_config)
r2 = authz("client_2"); print("C20 client_2 second:", "error: "+r2.get("error_description","") if "error" in r2 else "ok")
s2 = make_server(); az2 = s2.get_endpoint("authorization"); az2.resource_indicators_config = {"policy": {"function": V, "kwargs": {}}}
for c in ("client_1", "client_2"): s2.context.cdb[c]["allowed_scopes"] = ["openid", "profile", "email"]
az = az2
r3 = authz("client_2"); print("client_2 on a fresh server:", "error: "+r3.get("error_description","") if "error" in r3 else "ok")
