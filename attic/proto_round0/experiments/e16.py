from srv import *
s = make_server(); ctx = s.context
az = s.get_endpoint("authorization"); tk = s.get_endpoint("token"); ui = s.get_endpoint("userinfo")
def strip_policy(request, token, response_info, **kw): return {"sub": response_info["sub"], "policy": "client_1-only"}
ctx.cdb["client_1"]["userinfo"] = {"policy": {"function": strip_policy, "kwargs": {}}}
def at_for(cid):
    a = az.process_request(az.parse_request(dict(client_id=cid, redirect_uri="https://%s.example.com/cb"%cid, scope="openid profile", state="ST", response_type="code", nonce="n1")))
    t = tk.process_request(tk.parse_request(dict(grant_type="authorization_code", code=a["response_args"]["code"], redirect_uri="https://%s.example.com/cb"%cid, client_id=cid, client_secret=ctx.cdb[cid]["client_secret"])))
    return t["response_args"]["access_token"]
def userinfo(at):
    hi = {"headers": {"authorization": "Bearer " + at}}
    return sorted(ui.process_request(ui.parse_request({}, http_info=hi), http_info=hi)["response_args"].keys())
a1, a2 = at_for("client_1"), at_for("client_2")
print("client_2 before client_1's request:", userinfo(a2))
print("client_1:", userinfo(a1))
print("C07/C20 client_2 after client_1's request:", userinfo(a2))
