from srv import *
s = make_server(); ctx = s.context; az = s.get_endpoint("authorization"); m = ctx.session_manager
ctx.cdb["client_1"]["subject_type"] = "pairwise"; ctx.cdb["client_1"]["sector_identifier_uri"]="https://sec1.example/s.json"
ctx.cdb["client_2"]["subject_type"] = "pairwise"; ctx.cdb["client_2"]["sector_identifier_uri"]="https://sec2.example/s.json"
subs = {}
for rnd in range(2):
  for cid in ("client_1","client_2"):
    a = az.process_request(az.parse_request(dict(client_id=cid, redirect_uri="https://%s.example.com/cb"%cid, scope="openid", state="ST", response_type="code", nonce="n1")))
    subs.setdefault(cid, []).append(m.get_grant(a["session_id"]).sub[:10])
print("C18 pairwise:", subs)
print("C14 ws roundtrip:", m.decrypt_session_id(m.encrypted_session_id("user ", "client\n")))
from idpyoidc.server.cookie_handler import CookieHandler
ch = CookieHandler(sign_key="ghsNKDDLshZTPn974nOsIGhedULrsqnsGoBFBLwUKuJhE2ch")
c = ch.make_cookie_content("oidc_op", "value", "sso", timestamp="1700000000")
ts, payload, mac = c["value"].split("|")
forged = "|".join([ts[1:], payload + ts[0], mac])
try: print("C17 forged parse:", ch.parse_cookie("oidc_op", [{"name":"oidc_op","value":forged}]))
except Exception as e: print("C17 forged parse: reject", type(e).__name__)
print("C17 genuine:", ch.parse_cookie("oidc_op", [{"name":"oidc_op","value":c["value"]}]))
