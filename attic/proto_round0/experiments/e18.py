from srv import *
import hashlib, base64, json
from cryptojwt.utils import b64e
s = make_server(add_ons={"pkce": {"function": "idpyoidc.server.oauth2.add_on.pkce.add_support", "kwargs": {"essential": False, "code_challenge_methods": {"S256":None, "plain": None} if False else None}}})
ctx = s.context; az = s.get_endpoint("authorization"); tk = s.get_endpoint("token")
print("pkce conf:", {k: (list(v) if isinstance(v, dict) else v) for k, v in ctx.add_on["pkce"].items()})
def authz(cid="client_1", **kw):
    req = dict(client_id=cid, redirect_uri="https://%s.example.com/cb"%cid, scope="openid", state="ST", response_type="code", nonce="n1"); req.update(kw)
    r = az.parse_request(req)
    if "error" in r: return ("authz_err", r.get("error_description"))
    return az.process_request(r)["response_args"]["code"]
def token(code, cid="client_1", **kw):
    req = dict(grant_type="authorization_code", code=code, redirect_uri="https://%s.example.com/cb"%cid, client_id=cid, client_secret=ctx.cdb[cid]["client_secret"]); req.update(kw)
    try:
        r = tk.parse_request(req)
        if "error" in r: return "refuse: " + str(r.get("error_description"))
        o = tk.process_request(r)
        return "TOKENS" if isinstance(o, dict) and "access_token" in o.get("response_args", {}) else "refuse(process)"
    except Exception as e: return "refuse exc " + type(e).__name__
V = "a" * 50
def ch(v, m="S256"): 
    h = {"S256": hashlib.sha256, "S384": hashlib.sha384, "S512": hashlib.sha512}[m]
    return b64e(h(v.encode()).digest()).decode()
print("S256 good            :", token(authz(code_challenge=ch(V), code_challenge_method="S256"), code_verifier=V))
print("S256 wrong verifier  :", token(authz(code_challenge=ch(V), code_challenge_method="S256"), code_verifier=V[:-1] + "b"))
print("S256 missing verifier:", token(authz(code_challenge=ch(V), code_challenge_method="S256")))
print("S256 verifier=challenge (plain downgrade attempt):", token(authz(code_challenge=ch(V), code_challenge_method="S256"), code_verifier=ch(V), code_challenge_method="plain"))
print("no method given -> plain, verifier=challenge:", token(authz(code_challenge="x"*43), code_verifier="x"*43))
print("plain explicit        :", token(authz(code_challenge="x"*43, code_challenge_method="plain"), code_verifier="x"*43))
print("unknown method        :", authz(code_challenge="x"*43, code_challenge_method="S1"))
print("S256 padded challenge :", token(authz(code_challenge=ch(V) + "=", code_challenge_method="S256"), code_verifier=V))
print("non-ascii verifier    :", token(authz(code_challenge=ch(V), code_challenge_method="S256"), code_verifier="å" * 50))
print("no challenge, verifier sent:", token(authz(), code_verifier=V))
ctx.cdb["client_1"]["pkce_essential"] = True
print("essential per client, no challenge:", authz())
print("essential per client, other client w/o:", token(authz("client_2"), "client_2"))
ctx.add_on["pkce"]["essential"] = True; ctx.cdb["client_2"]["pkce_essential"] = False
print("global essential, client override False, no challenge:", token(authz("client_2"), "client_2"))
# replay of code with right verifier after success
c = authz(code_challenge=ch(V), code_challenge_method="S256"); print("first:", token(c, code_verifier=V), " replay:", token(c, code_verifier=V))
# ---- C04 wrong-class presentations
s2 = make_server(); c2 = s2.context; az, tk, ctx = s2.get_endpoint("authorization"), s2.get_endpoint("token"), c2
code = authz(scope="openid offline_access", prompt="consent")
r = tk.process_request(tk.parse_request(dict(grant_type="authorization_code", code=code, redirect_uri="https://client_1.example.com/cb", client_id="client_1", client_secret=ctx.cdb["client_1"]["client_secret"])))["response_args"]
at, rt, idt = r["access_token"], r["refresh_token"], r["id_token"]
ui = s2.get_endpoint("userinfo"); intro = s2.get_endpoint("introspection")
def userinfo(t):
    hi = {"headers": {"authorization": "Bearer " + t}}
    try:
        q = ui.parse_request({}, http_info=hi)
        if "error" in q: return "refuse"
        o = ui.process_request(q, http_info=hi); return "CLAIMS" if isinstance(o, dict) else "refuse"
    except Exception as e: return "refuse exc " + type(e).__name__
for name, t in (("access", at), ("refresh", rt), ("id_token", idt), ("code(used)", code)):
    print("userinfo with %-10s:" % name, userinfo(t), "| as code:", token(t), "| as refresh:", end=" ")
    try:
        q = tk.parse_request(dict(grant_type="refresh_token", refresh_token=t, client_id="client_1", client_secret=ctx.cdb["client_1"]["client_secret"]))
        print("refuse" if "error" in q else ("TOKENS" if "access_token" in tk.process_request(q).get("response_args", {}) else "refuse(process)"))
    except Exception as e: print("refuse exc", type(e).__name__)
