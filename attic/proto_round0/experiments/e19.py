import sys, os, json, itertools, traceback, collections
sys.path.insert(0, "/repo/src")
from urllib.parse import urlsplit, parse_qs
from cryptojwt.key_jar import build_keyjar
from idpyoidc.client.oidc import RP
from idpyoidc.message.oauth2 import is_error_message
from idpyoidc.server import Server
from idpyoidc.server.configure import OPConfiguration
from idpyoidc.server.authz import AuthzHandling
from idpyoidc.server.user_info import UserInfo
from idpyoidc.server.user_authn.authn_context import INTERNETPROTOCOLPASSWORD
from idpyoidc.util import rndstr
CWD = "/tmp/icwd"
KEYDEFS = [{"type": "RSA", "key": "", "use": ["sig"]}, {"type": "EC", "crv": "P-256", "use": ["sig"]}]
OPKJ = build_keyjar(KEYDEFS); RPKJ = build_keyjar(KEYDEFS)
CRYPT = {"kwargs": {"password": "0123456789abcdef0123456789abcdef", "salt": "fedcba9876543210", "iterations": 1}}
SERVICES = {"provider_info": {"class": "idpyoidc.client.oidc.provider_info_discovery.ProviderInfoDiscovery"},
            "registration": {"class": "idpyoidc.client.oidc.registration.Registration"},
            "authorization": {"class": "idpyoidc.client.oidc.authorization.Authorization"},
            "access_token": {"class": "idpyoidc.client.oidc.access_token.AccessToken"},
            "userinfo": {"class": "idpyoidc.client.oidc.userinfo.UserInfo"}}
def make(jwt_at, auth_method, idt_alg, ui_alg, rtypes):
    tok = {"class": "idpyoidc.server.token.jwt_token.JWTToken", "kwargs": {"lifetime": 3600, "aud": ["https://example.org/appl"]}} if jwt_at else {"lifetime": 3600, "kwargs": {"crypt_conf": CRYPT}}
    conf = {"issuer": "https://op.example.com/", "keys": {"uri_path": "jwks.json", "key_defs": KEYDEFS}, "httpc_params": {"verify": False, "timeout": 1},
        "subject_types_supported": ["public", "pairwise", "ephemeral"],
        "endpoint": {
            "provider_info": {"path": ".well-known/openid-configuration", "class": "idpyoidc.server.oidc.provider_config.ProviderConfiguration", "kwargs": {}},
            "register": {"path": "registration", "class": "idpyoidc.server.oidc.registration.Registration", "kwargs": {}},
            "authorization": {"path": "authorization", "class": "idpyoidc.server.oidc.authorization.Authorization", "kwargs": {"response_types_supported": ["code", "id_token", "code id_token"]}},
            "token": {"path": "token", "class": "idpyoidc.server.oidc.token.Token", "kwargs": {}},
            "userinfo": {"path": "user", "class": "idpyoidc.server.oidc.userinfo.UserInfo", "kwargs": {}}},
        "authentication": {"anon": {"acr": INTERNETPROTOCOLPASSWORD, "class": "idpyoidc.server.user_authn.user.NoAuthn", "kwargs": {"user": "diana"}}},
        "userinfo": {"class": UserInfo, "kwargs": {"db_file": os.path.join(CWD, "users.json")}},
        "authz": {"class": AuthzHandling, "kwargs": {"grant_config": {"usage_rules": {
            "authorization_code": {"supports_minting": ["access_token", "refresh_token", "id_token"], "max_usage": 1},
            "access_token": {"expires_in": 600}, "refresh_token": {"supports_minting": ["access_token"], "expires_in": 43200}}, "expires_in": 43200}}},
        "token_handler_args": {"code": {"lifetime": 600, "kwargs": {"crypt_conf": CRYPT}}, "token": tok,
                               "refresh": {"lifetime": 3600, "kwargs": {"crypt_conf": CRYPT}}, "id_token": {"class": "idpyoidc.server.token.id_token.IDToken", "kwargs": {}}},
        "session_params": {"encrypter": CRYPT}}
    server = Server(OPConfiguration(conf=conf, base_path=CWD), cwd=CWD, keyjar=OPKJ.copy())
    ccfg = {"issuer": conf["issuer"], "redirect_uris": ["https://example.com/cb"], "base_url": "https://example.com",
            "token_endpoint_auth_methods_supported": [auth_method], "response_types_supported": rtypes,
            "id_token_signing_alg_values_supported": [idt_alg]}
    if ui_alg: ccfg["userinfo_signing_alg_values_supported"] = [ui_alg]
    rp = RP(config=ccfg, keyjar=RPKJ.copy(), services=SERVICES)
    server.context.set_provider_info()
    return server, rp
def do_query(server, rp, service_type, endpoint_type, request_args, state, authz=False):
    srv = rp.get_service(service_type)
    req_info = srv.get_request_parameters(request_args=request_args, state=state)
    areq, headers = req_info.get("request"), req_info.get("headers")
    ep = server.get_endpoint(endpoint_type)
    argv = {"http_info": {"headers": headers}} if headers else {}
    if areq is not None:
        areq.lax = True
        pr = ep.parse_request(areq.serialize(ep.request_format), **argv)
    else:
        pr = ep.parse_request(areq, **argv)
    if is_error_message(pr): return areq, pr, None
    r = ep.process_request(pr)
    if is_error_message(r): return areq, r, None
    out = ep.do_response(**r)
    payload = out["response"]
    if authz:
        # deliver what the user agent would deliver to the redirect_uri
        if "response_msg" in r or r.get("response_placement") == "body" or (isinstance(payload, str) and payload.lstrip().startswith("<html")):
            import html.parser
            class P(html.parser.HTMLParser):
                def __init__(s): super().__init__(); s.f = {}
                def handle_starttag(s, tag, attrs):
                    a = dict(attrs)
                    if tag == "input": s.f[a["name"]] = a.get("value", "")
            p = P(); p.feed(payload); resp = srv.parse_response(p.f, sformat="dict", state=state)
        else:
            u = urlsplit(payload); part = u.fragment or u.query
            resp = srv.parse_response(part, sformat="urlencoded", state=state)
    else:
        resp = srv.parse_response(payload, state=state)
    srv.update_service_context(resp, key=state)
    if service_type == "provider_info":
        rp.keyjar.import_jwks(server.keyjar.export_jwks(), issuer_id=server.issuer)
    return areq, resp, r
results = collections.Counter(); fails = []
DIM = dict(jwt_at=[False, True], auth=["client_secret_basic", "client_secret_post", "client_secret_jwt", "private_key_jwt"],
           idt=["RS256", "ES256", "HS256", "PS256"], ui=[None, "RS256", "ES256"], rt=["code", "id_token", "code id_token"], rm=[None, "query", "fragment", "form_post"])
import random; rnd = random.Random(1)
cells = list(itertools.product(*DIM.values()))
rnd.shuffle(cells)
for cell in cells[: int(sys.argv[1]) if len(sys.argv) > 1 else 150]:
    jwt_at, auth, idt, ui, rt, rm = cell
    try:
        server, rp = make(jwt_at, auth, idt, ui, [rt])
        do_query(server, rp, "provider_info", "provider_config", {}, "")
        _, reg, _ = do_query(server, rp, "registration", "registration", {}, "")
        if is_error_message(reg): raise RuntimeError("registration: %s" % reg.to_dict())
        ctx = rp.get_service_context()
        nonce = rndstr(24); state = ctx.cstate.create_state(iss=ctx.get("issuer")); ctx.cstate.bind_key(nonce, state)
        args = {"response_type": rt.split(" "), "nonce": nonce, "state": state, "scope": ["openid", "profile"]}
        if rm: args["response_mode"] = rm
        areq, aresp, raw = do_query(server, rp, "authorization", "authorization", args, state, authz=True)
        if is_error_message(aresp): raise RuntimeError("authz: %s" % aresp.to_dict())
        views = {}
        if "id_token" in rt: views["idt_authz_sub"] = aresp["__verified_id_token"]["sub"]
        if "code" in rt:
            targs = {"code": aresp["code"], "state": state, "redirect_uri": areq["redirect_uri"], "grant_type": "authorization_code"}
            _, tresp, _ = do_query(server, rp, "accesstoken", "token", targs, state)
            if is_error_message(tresp): raise RuntimeError("token: %s" % tresp.to_dict())
            views["idt_token_sub"] = tresp["__verified_id_token"]["sub"]
            _, uresp, _ = do_query(server, rp, "userinfo", "userinfo", {}, state)
            if is_error_message(uresp): raise RuntimeError("userinfo: %s" % uresp.to_dict())
            views["ui_sub"] = uresp["sub"]
        if len(set(views.values())) > 1: raise RuntimeError("views differ %s" % views)
        results["ok"] += 1
    except Exception as e:
        results["fail"] += 1
        fails.append((cell, type(e).__name__, str(e)[:140]))
print(dict(results))
byerr = collections.defaultdict(list)
for c, t, m in fails: byerr[(t, m[:90])].append(c)
for k, v in sorted(byerr.items(), key=lambda kv: -len(kv[1])):
    print(len(v), k); print("    e.g.", v[:3])
