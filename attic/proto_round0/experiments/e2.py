from srv import *
import copy, json, base64
s = make_server()
ctx = s.context
az = s.get_endpoint("authorization")
tk = s.get_endpoint("token")

# ---- C06 form_post injection
req = dict(client_id="client_1", redirect_uri="https://client_1.example.com/cb", scope="openid", state='"><script>alert(1)</script>', response_type="code", nonce="n1", response_mode="form_post")
r = az.parse_request(req)
a = az.process_request(r)
resp = az.do_response(**a)
print("C06 form_post contains raw script:", "<script>alert(1)</script>" in (a.get("response_msg") or ""), )
print((a.get("response_msg") or "")[:400])

# ---- C16 unsigned request object although client registered RS256
from cryptojwt.jws.jws import JWS
ctx.cdb["client_1"]["request_object_signing_alg"] = "RS256"
ro = {"client_id": "client_1", "redirect_uri": "https://client_1.example.com/cb", "scope": "openid email", "state": "X", "response_type": "code", "nonce": "n2", "iss":"client_1", "aud": "https://example.com/"}
unsigned = JWS(json.dumps(ro), alg="none").sign_compact([])
req = dict(client_id="client_1", redirect_uri="https://client_1.example.com/cb", scope="openid", state="ST", response_type="code", nonce="n1", request=unsigned)
try:
    r = az.parse_request(req)
    print("C16 unsigned request object parse ->", "ERROR "+str(r.to_dict()) if "error" in r else "ACCEPTED scope=%s state=%s" % (r.get("scope"), r.get("state")))
except Exception as e:
    print("C16 exc", repr(e))

# ---- C16 PAR lifetime
par = s.get_endpoint("pushed_authorization")
par.ttl = 1
preq = dict(client_id="client_1", client_secret=ctx.cdb["client_1"]["client_secret"], redirect_uri="https://client_1.example.com/cb", scope="openid", state="ST", response_type="code", nonce="n1")
pr = par.parse_request(preq)
pp = par.process_request(pr)
print("PAR:", pp["http_response"])
import time; time.sleep(2.2)
r = az.parse_request(dict(client_id="client_1", request_uri=pp["http_response"]["request_uri"], response_type="code", scope="openid", redirect_uri="https://client_1.example.com/cb"))
print("C16 PAR redeemed after expiry ->", "ERROR" if "error" in r else "ACCEPTED")
try:
    r2 = az.parse_request(dict(client_id="client_1", request_uri=pp["http_response"]["request_uri"], response_type="code", scope="openid", redirect_uri="https://client_1.example.com/cb"))
    print("PAR replay ->", "ERROR" if "error" in r2 else "ACCEPTED")
except Exception as e:
    print("PAR replay exc", repr(e))

# ---- C18 subject types
ctx.cdb["client_1"]["subject_type"] = "pairwise"; ctx.cdb["client_1"]["sector_identifier_uri"]="https://sec1.example/s.json"
ctx.cdb["client_2"]["subject_type"] = "pairwise"; ctx.cdb["client_2"]["sector_identifier_uri"]="https://sec2.example/s.json"
subs = {}
for cid in ("client_1","client_2"):
    r = az.parse_request(dict(client_id=cid, redirect_uri="https://%s.example.com/cb"%cid, scope="openid", state="ST", response_type="code", nonce="n1"))
    a = az.process_request(r)
    g = ctx.session_manager.get_grant(a["session_id"])
    subs[cid] = g.sub
print("C18 pairwise subs equal across sectors:", subs["client_1"] == subs["client_2"], subs)

# ---- C20 DEFAULT_USAGE mutation
from idpyoidc.server.session import grant as G
print("DEFAULT_USAGE", G.DEFAULT_USAGE)
