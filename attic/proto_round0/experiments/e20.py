import sys
sys.path.insert(0, "/repo/src")
from idpyoidc.client.oauth2.stand_alone_client import StandAloneClient
ISSUER = "https://op.example.com"
CONF = {"base_url": "https://example.com/cli/", "client_id": "Number5", "client_type": "oidc", "client_secret": "asdflkjh0987654321",
        "response_modes_supported": ["query", "fragment", "form_post"], "response_types_supported": ["code", "id_token", "code id_token"],
        "provider_info": {"issuer": ISSUER, "authorization_endpoint": ISSUER + "/authn", "token_endpoint": ISSUER + "/token", "userinfo_endpoint": ISSUER + "/user"}}
for rt in ("code", "id_token", "code id_token"):
    for rm in (None, "query", "fragment", "form_post"):
        c = StandAloneClient(config=dict(CONF)); c.do_provider_info(); c.do_client_registration()
        args = {"response_type": rt}
        if rm: args["response_mode"] = rm
        try:
            url = c.init_authorization(req_args=args); out = "ok"
        except Exception as e: out = "FAIL %s: %s" % (type(e).__name__, str(e)[:70])
        print("rt=%-14s rm=%-10s -> %s" % (rt, rm, out))
print("callback_uris:", c.get_context().get_preference("callback_uris"))
