import sys, os, json, itertools, collections, html.parser, random
sys.path.insert(0, "/repo/src")
from urllib.parse import urlsplit, parse_qs
from cryptojwt.key_jar import build_keyjar, init_key_jar
from idpyoidc.client.oauth2.stand_alone_client import StandAloneClient
from idpyoidc.message.oauth2 import is_error_message
from idpyoidc.server import Server
from idpyoidc.server.configure import OPConfiguration
from idpyoidc.server.authz import AuthzHandling
from idpyoidc.server.user_info import UserInfo
from idpyoidc.server.user_authn.authn_context import INTERNETPROTOCOLPASSWORD
CWD = "/tmp/icwd"; ISS = "https://op.example.com"
KEYDEFS = [{"type": "RSA", "key": "", "use": ["sig"]}, {"type": "EC", "crv": "P-256", "use": ["sig"]}]
OPKJ = build_keyjar(KEYDEFS); RPKJ = init_key_jar(key_defs=KEYDEFS, issuer_id="Number5")
CRYPT = {"kwargs": {"password": "0123456789abcdef0123456789abcdef", "salt": "fedcba9876543210", "iterations": 1}}
SECRET = "0123456789abcdef0123456789abcdef0123456789abcdef0123456789abcdef"
class Resp:
    def __init__(s, status, text, ctype, url): s.status_code, s.text, s.headers, s.url = status, text, {"content-type": ctype}, url
def make(jwt_at, auth_method, idt_alg, ui_alg):
    tok = {"class": "idpyoidc.server.token.jwt_token.JWTToken", "kwargs": {"lifetime": 3600, "aud": ["https://example.org/appl"]}} if jwt_at else {"lifetime": 3600, "kwargs": {"crypt_conf": CRYPT}}
    conf = {"issuer": ISS, "keys": {"uri_path": "jwks.json", "key_defs": KEYDEFS}, "httpc_params": {"verify": False, "timeout": 1},
        "endpoint": {
            "authorization": {"path": "authorization", "class": "idpyoidc.server.oidc.authorization.Authorization", "kwargs": {}},
            "token": {"path": "token", "class": "idpyoidc.server.oidc.token.Token", "kwargs": {}},
            "userinfo": {"path": "user", "class": "idpyoidc.server.oidc.userinfo.UserInfo", "kwargs": {}}},
        "authentication": {"anon": {"acr": INTERNETPROTOCOLPASSWORD, "class": "idpyoidc.server.user_authn.user.NoAuthn", "kwargs": {"user": "diana"}}},
        "userinfo": {"class": UserInfo, "kwargs": {"db_file": os.path.join(CWD, "users.json")}},
        "authz": {"class": AuthzHandling, "kwargs": {"grant_config": {"usage_rules": {
            "authorization_code": {"supports_minting": ["access_token", "refresh_token", "id_token"], "max_usage": 1},
            "access_token": {"expires_in": 600}, "refresh_token": {"supports_minting": ["access_token"], "expires_in": 43200}}, "expires_in": 43200}}},
        "token_handler_args": {"code": {"lifetime": 600, "kwargs": {"crypt_conf": CRYPT}}, "token": tok,
                               "refresh": {"lifetime": 3600, "kwargs": {"crypt_conf": CRYPT}}, "id_token": {"class": "idpyoidc.server.token.id_token.IDToken", "kwargs": {}}},
        "session_params": {"encrypter": CRYPT}}
    server = Server(OPConfiguration(conf=conf, base_path=CWD), cwd=CWD, keyjar=OPKJ.copy())
    server.keyjar.import_jwks(server.keyjar.export_jwks(private=True, issuer_id=""), ISS)
    server.keyjar.add_symmetric("", SECRET); server.keyjar.add_symmetric(ISS, SECRET)
    def httpc(method, url, data=None, headers=None, **kw):
        path = urlsplit(url).path.strip("/")
        ep = {"token": "token", "user": "userinfo"}[path]
        e = server.get_endpoint(ep)
        hi = {"headers": dict(headers or {})}
        try:
            if ep == "userinfo": pr = e.parse_request({}, http_info=hi)
            else: pr = e.parse_request(data, http_info=hi)
            if is_error_message(pr): return Resp(400, pr.to_json(), "application/json", url)
            r = e.process_request(pr, http_info=hi)
            if is_error_message(r): return Resp(400, r.to_json(), "application/json", url)
            out = e.do_response(request=pr, **r)
            ct = dict(out["http_headers"]).get("Content-type", "application/json")
            return Resp(200, out["response"], ct, url)
        except Exception as ex:
            return Resp(500, "%s: %s" % (type(ex).__name__, ex), "text/plain", url)
    ccfg = {"base_url": "https://example.com/cli", "client_id": "Number5", "client_type": "oidc", "client_secret": SECRET,
            "token_endpoint_auth_methods_supported": [auth_method], "client_authn_methods": ["client_secret_basic", "client_secret_post", "client_secret_jwt", "private_key_jwt", "bearer_header"], "id_token_signing_alg_values_supported": [idt_alg],
            "response_types_supported": ["code", "id_token", "code id_token"], "response_modes_supported": ["query", "fragment", "form_post"],
            "provider_info": {"issuer": ISS, "authorization_endpoint": ISS + "/authorization", "token_endpoint": ISS + "/token", "userinfo_endpoint": ISS + "/user", "jwks_uri": ISS + "/jwks.json"}}
    if ui_alg: ccfg["userinfo_signing_alg_values_supported"] = [ui_alg]
    rp = StandAloneClient(config=ccfg, keyjar=RPKJ.copy(), httpc=httpc)
    rp.keyjar.add_symmetric("Number5", SECRET); rp.keyjar.add_symmetric("", SECRET)
    rp.do_provider_info(); rp.do_client_registration()
    rp.keyjar.import_jwks(server.keyjar.export_jwks(), ISS)
    cb = rp.get_context().get_preference("callback_uris")["redirect_uris"]
    cinfo = {"client_id": "Number5", "client_secret": SECRET, "client_salt": "salted", "token_endpoint_auth_method": auth_method,
             "redirect_uris": [(u, None) for us in cb.values() for u in us], "id_token_signed_response_alg": idt_alg,
             "response_types_supported": ["code", "id_token", "code id_token"], "allowed_scopes": ["openid", "profile", "email"]}
    if ui_alg: cinfo["userinfo_signed_response_alg"] = ui_alg
    server.context.cdb["Number5"] = cinfo
    server.keyjar.add_symmetric("Number5", SECRET)
    server.keyjar.import_jwks(RPKJ.export_jwks(issuer_id="Number5"), "Number5")
    return server, rp
class FormP(html.parser.HTMLParser):
    def __init__(s): super().__init__(); s.f = {}
    def handle_starttag(s, tag, attrs):
        a = dict(attrs)
        if tag == "input": s.f[a["name"]] = a.get("value", "")
DIM = dict(jwt_at=[False, True], auth=["client_secret_basic", "client_secret_post", "client_secret_jwt", "private_key_jwt"],
           idt=["RS256", "ES256", "HS256", "PS256"], ui=[None, "RS256", "ES256"], rt=["code", "id_token", "code id_token"], rm=[None, "form_post"])
cells = list(itertools.product(*DIM.values())); random.Random(2).shuffle(cells)
results = collections.Counter(); fails = []
for cell in cells[: int(sys.argv[1]) if len(sys.argv) > 1 else 100]:
    jwt_at, auth, idt, ui, rt, rm = cell
    try:
        server, rp = make(jwt_at, auth, idt, ui)
        args = {"response_type": rt, "scope": ["openid", "profile"]}
        if rm: args["response_mode"] = rm
        url = rp.init_authorization(req_args=args)
        az = server.get_endpoint("authorization")
        pr = az.parse_request(urlsplit(url).query)
        if is_error_message(pr): raise RuntimeError("authz parse: %s" % pr.to_dict())
        r = az.process_request(pr)
        if is_error_message(r): raise RuntimeError("authz process: %s" % r.to_dict())
        out = az.do_response(request=pr, **r)
        payload = out["response"]
        if isinstance(payload, str) and payload.lstrip().startswith("<html"):
            p = FormP(); p.feed(payload); delivered = p.f
        else:
            u = urlsplit(payload); delivered = {k: v[0] for k, v in parse_qs(u.fragment or u.query).items()}
        fin = rp.finalize(delivered)
        if "error" in fin: raise RuntimeError("finalize: %s" % str(fin)[:120])
        g = server.context.session_manager.get_grant(r["session_id"])
        views = {"op_sub": g.sub, "rp_userinfo_sub": fin["userinfo"].get("sub")}
        if fin.get("id_token"): views["rp_idt_sub"] = fin["id_token"]["sub"]
        if len(set(views.values())) > 1: raise RuntimeError("views differ %s" % views)
        results["ok"] += 1
    except Exception as e:
        results["fail"] += 1; fails.append((cell, type(e).__name__, str(e)[:150]))
print(dict(results))
byerr = collections.defaultdict(list)
for c, t, m in fails: byerr[(t, m[:100])].append(c)
for k, v in sorted(byerr.items(), key=lambda kv: -len(kv[1])):
    print(len(v), k); print("    e.g.", v[:4])
