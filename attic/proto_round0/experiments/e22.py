import sys; sys.argv = ["x", "0"]
exec(open("e21.py").read().split("DIM = dict")[0])
server, rp = make(False, "client_secret_post", "ES256", None)
ctx = rp.get_context()
print("registration_response idt alg:", ctx.registration_response.get("id_token_signed_response_alg") if ctx.registration_response else None)
print("usage idt alg:", ctx.claims.get_usage("id_token_signed_response_alg"), "| pref:", ctx.claims.get_preference("id_token_signed_response_alg"), ctx.claims.get_preference("id_token_signing_alg_values_supported"))
print("get_sign_alg(id_token):", ctx.get_sign_alg("id_token"))
for srv in ("authorization", "accesstoken"):
    print(srv, "verify args sigalg:", rp.get_service(srv).gather_verify_arguments().get("sigalg"))
import inspect
from idpyoidc.client.service_context import ServiceContext
print(inspect.getsource(ServiceContext.get_sign_alg))
