import sys; sys.argv = ["x", "0"]
exec(open("e21.py").read().split("DIM = dict")[0])
import traceback
server, rp = make(False, "client_secret_post", "ES256", None)
url = rp.init_authorization(req_args={"response_type": "code", "scope": ["openid"]})
az = server.get_endpoint("authorization")
pr = az.parse_request(urlsplit(url).query); r = az.process_request(pr); out = az.do_response(request=pr, **r)
u = urlsplit(out["response"]); delivered = {k: v[0] for k, v in parse_qs(u.fragment or u.query).items()}
try:
    rp.finalize(delivered)
except Exception as e:
    tb = traceback.format_exc().splitlines()
    print("\n".join(l for l in tb if "idpyoidc" in l or "cryptojwt" in l or "Error" in l)[-1800:])
print("registration_response:", rp.get_context().registration_response)
