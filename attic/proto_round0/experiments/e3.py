from srv import *
import copy, json, base64, tempfile, shutil
s = make_server()
ctx = s.context
m = ctx.session_manager
from idpyoidc.message.oidc import AuthorizationRequest
AR = lambda cid: AuthorizationRequest(client_id=cid, redirect_uri="https://x/cb", scope=["openid"], state="S", response_type="code")
# ---- C14 separator collision
ae = create_authn_event("a;;b")
sid1 = m.create_session(ae, AR("c"), "a;;b", client_id="c")
sid2 = m.create_session(create_authn_event("a"), AR("b;;c"), "a", client_id="b;;c")
print("db keys:", sorted(m.db.db.keys()))
try: print("decrypt sid1", m.decrypt_session_id(sid1))
except Exception as e: print("decrypt exc", e)
csi = m.db["a;;b;;c"]
print("C14 shared client node subordinates:", csi.subordinate)
# whitespace
sidw = m.encrypted_session_id("user ", "client\n")
print("C14 whitespace roundtrip:", m.decrypt_session_id(sidw))
sidw = m.encrypted_session_id(" user", "client", "g ")
print("C14 whitespace roundtrip3:", m.decrypt_session_id(sidw))
# digits / colon mimic
sidw = m.encrypted_session_id("3:abc", "7:x", "g")
print("C14 lv mimic roundtrip:", m.decrypt_session_id(sidw))
# delete len-1
m2 = make_server().context.session_manager
s1 = m2.create_session(create_authn_event("u1"), AR("c1"), "u1", client_id="c1")
m2.delete(["u1"])
print("C14 delete(['u1']) leaves:", sorted(m2.db.db.keys()))

# ---- C17 cookie boundary shift (signed only)
from idpyoidc.server.cookie_handler import CookieHandler
ch = CookieHandler(sign_key="ghsNKDDLshZTPn974nOsIGhedULrsqnsGoBFBLwUKuJhE2ch")
c = ch.make_cookie_content("oidc_op", "value", "sso", timestamp="1700000000")
print("cookie", c["value"])
ts, payload, mac = c["value"].split("|")
forged = "|".join([ts[1:], payload + ts[0], mac])
print("C17 forged parse:", ch.parse_cookie("oidc_op", [{"name":"oidc_op","value":forged}]))
print("genuine parse:", ch.parse_cookie("oidc_op", [{"name":"oidc_op","value":c["value"]}]))
for v in ["a|b", "a::b"]:
    cc = ch.make_cookie_content("oidc_op", v, "sso", timestamp="1700000000")
    try: print("C17 roundtrip", repr(v), ch.parse_cookie("oidc_op", [{"name":"oidc_op","value":cc["value"]}]))
    except Exception as e: print("C17 roundtrip", repr(v), "EXC", repr(e))

# ---- C13 abfile
from idpyoidc.storage.abfile import AbstractFileSystem
d = tempfile.mkdtemp()
fs = AbstractFileSystem(fdir=d, key_conv="idpyoidc.util.QPKey", value_conv="idpyoidc.util.JSON")
fs["https://client.example.org/"] = {"a": 1}
fs["plain"] = {"b": 2}
del fs["https://client.example.org/"]
del fs["plain"]
fs2 = AbstractFileSystem(fdir=d, key_conv="idpyoidc.util.QPKey", value_conv="idpyoidc.util.JSON")
print("C13 abfile after delete, new instance sees:", list(fs2.keys()), "old sees:", list(fs.keys()))
shutil.rmtree(d)
