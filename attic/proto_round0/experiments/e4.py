from srv import *
import copy, json
s = make_server()
ctx = s.context
reg = s.get_endpoint("registration")
from idpyoidc.message.oidc import RegistrationRequest
n0 = len(ctx.cdb)
# web + implicit + http => must be rejected
r = reg.parse_request(json.dumps({"redirect_uris": ["http://rp.example/cb"], "response_types": ["id_token"], "application_type":"web"}))
out = reg.process_request(r)
print("C19 rejected:", out.to_dict() if hasattr(out,"to_dict") else out, "cdb grew by", len(ctx.cdb)-n0)
print("  stub entries:", [ (k, sorted(v.keys())) for k,v in ctx.cdb.items() if k not in ("client_1","client_2")])
# native with fragment
r = reg.parse_request(json.dumps({"redirect_uris": ["http://localhost:8080/cb#frag", "myapp://cb#frag2"], "response_types": ["code"], "application_type":"native"}))
out = reg.process_request(r)
print("C19 native+fragment:", "ACCEPTED" if isinstance(out, dict) and "response_args" in out else out.to_dict())
if isinstance(out, dict): print("   stored:", ctx.cdb[out["response_args"]["client_id"]]["redirect_uris"], "echo:", out["response_args"]["redirect_uris"])

# ---- C20 find_token mutates Message.c_param
from idpyoidc.message import Message
from idpyoidc.client.client_auth import BearerHeader, find_token
print("Message.c_param before:", dict(Message.c_param))
m = Message(access_token="abc")
find_token(m, "access_token", None)
print("C20 Message.c_param after:", list(Message.c_param.keys()))

# ---- C11 verify chain
from idpyoidc.message.oauth2 import JWTSecuredAuthorizationRequest, PushedAuthorizationRequest, CCAccessTokenRequest
try:
    print("C11 JAR verify w/o required:", JWTSecuredAuthorizationRequest(request_uri="https://x/r").verify())
except Exception as e: print("C11 JAR exc", repr(e))
try:
    print("C11 PAR verify w/o required:", PushedAuthorizationRequest().verify())
except Exception as e: print("C11 PAR exc", repr(e))
# ---- C10 list with space, urlencoded
from idpyoidc.message.oidc import RegistrationRequest
rr = RegistrationRequest(redirect_uris=["https://a/cb"], contacts=["John Doe", "x@y"])
rt = RegistrationRequest().from_urlencoded(rr.to_urlencoded())
print("C10 urlencoded roundtrip contacts:", rr["contacts"], "->", rt["contacts"])
rt = RegistrationRequest().from_json(rr.to_json())
print("C10 json roundtrip equal:", rt == rr)
