from srv import *
import json
s = make_server()
ctx = s.context
reg = s.get_endpoint("registration")
print(ctx.provider_info.get("response_types_supported"))
n0 = len(ctx.cdb)
r = reg.parse_request(json.dumps({"redirect_uris": ["ftp://rp.example/cb"], "response_types": ["code"], "application_type":"web"}))
out = reg.process_request(r)
print("C19 rejected:", out.to_dict() if hasattr(out,"to_dict") else out, "cdb grew by", len(ctx.cdb)-n0)
print("  stub entries:", [ (k, sorted(v.keys())) for k,v in ctx.cdb.items() if k not in ("client_1","client_2")])
print("  rat map:", ctx.registration_access_token)
