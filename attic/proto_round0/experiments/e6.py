from srv import *
s = make_server()
ctx = s.context
print("authz class:", type(ctx.authz).__name__)
az = s.get_endpoint("authorization"); tk = s.get_endpoint("token"); intro = s.get_endpoint("introspection")
ctx.cdb["client_1"]["allowed_scopes"] = ["openid"]
r = az.parse_request(dict(client_id="client_1", redirect_uri="https://client_1.example.com/cb", scope="openid email phone", state="ST", response_type="code", nonce="n1"))
a = az.process_request(r)
print("authz resp scope:", a["response_args"].get("scope"))
g = ctx.session_manager.get_grant(a["session_id"])
print("grant.scope:", g.scope)
req = dict(grant_type="authorization_code", code=a["response_args"]["code"], redirect_uri="https://client_1.example.com/cb", client_id="client_1", client_secret=ctx.cdb["client_1"]["client_secret"])
t = tk.process_request(tk.parse_request(req))
print("token resp scope:", t["response_args"]["scope"])
ir = intro.process_request(intro.parse_request(dict(token=t["response_args"]["access_token"], client_id="client_1", client_secret=ctx.cdb["client_1"]["client_secret"])))
print("introspection scope:", ir["response_args"].get("scope"))
