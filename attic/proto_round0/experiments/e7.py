import sys, inspect, importlib, pkgutil, ast, textwrap
sys.path.insert(0,"/repo/src")
import idpyoidc
from idpyoidc.message import Message
mods=[]
for m in pkgutil.walk_packages(idpyoidc.__path__, "idpyoidc."):
    try: mods.append(importlib.import_module(m.name))
    except Exception as e: print("skip", m.name, type(e).__name__)
classes=set()
for mod in mods:
    for n,o in vars(mod).items():
        if inspect.isclass(o) and issubclass(o, Message): classes.add(o)
print("Message subclasses:", len(classes))
nparams=sum(len(c.c_param) for c in classes); print("params:", nparams)
ov=[c for c in classes if "verify" in c.__dict__]
print("override verify:", len(ov))
for c in sorted(ov, key=lambda c: c.__module__+c.__name__):
    src=textwrap.dedent(inspect.getsource(c.__dict__["verify"]))
    chain = "super(" in src or "super()" in src or ".verify(self" in src
    print("  ", c.__module__.replace("idpyoidc.",""), c.__name__, "chains" if chain else "NO-CHAIN")
kinds={}
for c in classes:
    for k,v in c.c_param.items():
        t=v[0]; key=(repr(t), v[2].__name__ if v[2] else None, v[3].__name__ if v[3] else None, v[4])
        kinds[key]=kinds.get(key,0)+1
for k,v in sorted(kinds.items(), key=lambda x:-x[1]): print(v,k)
