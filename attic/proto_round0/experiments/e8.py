from srv import *
import copy
s = make_server()
ctx = s.context
ci = ctx.claims_interface
ctx.cdb["client_1"]["add_claims"] = {"always": {"id_token": ["email"], "userinfo": ["phone_number", "address"]}, "by_scope": {}}
class M: kwargs = {}
before = copy.deepcopy(ctx.cdb["client_1"]["add_claims"])
for i in range(3):
    ci._client_claims("client_1", M, "id_token", secondary_identifier="userinfo")
print("C07/C20 always_add drift:", before["always"]["id_token"], "->", ctx.cdb["client_1"]["add_claims"]["always"]["id_token"])

# usage_rules aliasing: client token_usage_rules returned by reference and mutated by code minting
s2 = make_server(); c2 = s2.context
c2.authz.grant_config = {}   # no global usage rules -> per-client returned by reference
c2.cdb["client_1"]["token_usage_rules"] = {"authorization_code": {"expires_in": 100, "supports_minting": ["access_token"]}}
snap = copy.deepcopy(c2.cdb["client_1"])
az = s2.get_endpoint("authorization")
r = az.parse_request(dict(client_id="client_1", redirect_uri="https://client_1.example.com/cb", scope="openid", state="ST", response_type="code", nonce="n1"))
a = az.process_request(r)
print("C20 cdb token_usage_rules mutated:", snap["token_usage_rules"], "->", c2.cdb["client_1"]["token_usage_rules"])

# token revocation endpoint statefulness
rv = s.get_endpoint("token_revocation")
print("revocation token_types_supported attr before:", rv.token_types_supported)
