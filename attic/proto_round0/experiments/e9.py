from srv import *
import copy, tempfile, shutil
# DEFAULT_USAGE in-place
from idpyoidc.server.session import grant as G
s = make_server(); ctx = s.context
before = copy.deepcopy(G.DEFAULT_USAGE)
class FakeGrant: usage_rules = {"access_token": {"expires_in": 7, "zzz": 1}}
ctx.authz.grant_config = {}
r = G.get_usage_rules("access_token", ctx, FakeGrant, "client_1")
print("C20 DEFAULT_USAGE mutated:", before["access_token"], "->", G.DEFAULT_USAGE["access_token"])
import importlib; 
# who calls get_usage_rules?
import subprocess
print(subprocess.run("grep -rn 'get_usage_rules' /repo/src --include=*.py", shell=True, capture_output=True, text=True).stdout)

# abfile strip
from idpyoidc.storage.abfile import AbstractFileSystem
d = tempfile.mkdtemp()
fs = AbstractFileSystem(fdir=d)
fs["k"] = "  v \n"
fs2 = AbstractFileSystem(fdir=d)
print("C13 abfile PassThru value:", repr(fs["k"]), "new instance:", repr(fs2["k"]))
shutil.rmtree(d)

# token revocation stickiness
s = make_server(); ctx = s.context
rv = s.get_endpoint("token_revocation")
ctx.cdb["client_1"]["token_revocation"] = {"token_types_supported": ["access_token"]}
az = s.get_endpoint("authorization"); tk = s.get_endpoint("token")
def flow(cid, scope="openid offline_access"):
    r = az.parse_request(dict(client_id=cid, redirect_uri="https://%s.example.com/cb"%cid, scope=scope, state="ST", response_type="code", nonce="n1", prompt="consent"))
    a = az.process_request(r)
    t = tk.process_request(tk.parse_request(dict(grant_type="authorization_code", code=a["response_args"]["code"], redirect_uri="https://%s.example.com/cb"%cid, client_id=cid, client_secret=ctx.cdb[cid]["client_secret"])))
    return t["response_args"]
def revoke(cid, tok):
    r = rv.parse_request(dict(token=tok, client_id=cid, client_secret=ctx.cdb[cid]["client_secret"]))
    o = rv.process_request(r)
    return o.to_dict() if hasattr(o, "to_dict") else o
t2 = flow("client_2"); t2b = flow("client_2")
print("client_2 refresh revoke on fresh server:", revoke("client_2", t2["refresh_token"]))
t1 = flow("client_1")
print("client_1 access revoke (per-client types):", revoke("client_1", t1["access_token"]))
print("C20 client_2 refresh revoke AFTER client_1 request:", revoke("client_2", t2b["refresh_token"]))
