import os, json, sys
sys.path.insert(0, "/repo/src")
from idpyoidc.server import Server
from idpyoidc.server.configure import OPConfiguration
from idpyoidc.server.cookie_handler import CookieHandler
from idpyoidc.server.oidc import userinfo
from idpyoidc.server.oidc.authorization import Authorization
from idpyoidc.server.oidc.provider_config import ProviderConfiguration
from idpyoidc.server.oidc.registration import Registration
from idpyoidc.server.oidc.token import Token
from idpyoidc.server.oidc.session import Session
from idpyoidc.server.oauth2.introspection import Introspection
from idpyoidc.server.oauth2.token_revocation import TokenRevocation
from idpyoidc.server.oauth2.pushed_authorization import PushedAuthorization
from idpyoidc.server import user_info
from idpyoidc.server.user_authn.authn_context import INTERNETPROTOCOLPASSWORD
from idpyoidc.server.authn_event import create_authn_event
from idpyoidc.message.oidc import AuthorizationRequest, AccessTokenRequest

BASEDIR = "/repo/tests"
KEYDEFS = [{"type": "RSA", "key": "", "use": ["sig"]}, {"type": "EC", "crv": "P-256", "use": ["sig"]}]
CRYPT_CONFIG = {"kwargs": {"keys": {"key_defs": [
    {"type": "OCT", "use": ["enc"], "kid": "password"},
    {"type": "OCT", "use": ["enc"], "kid": "salt"}]}, "iterations": 1}}

def make_server(jwt_tokens=False, extra_endpoints=None, add_ons=None):
    tok = {"lifetime": 3600, "kwargs": {"crypt_conf": CRYPT_CONFIG}}
    if jwt_tokens:
        tok = {"class": "idpyoidc.server.token.jwt_token.JWTToken",
               "kwargs": {"lifetime": 3600, "add_claims_by_scope": True, "aud": ["https://example.org/appl"]}}
    conf = {
        "issuer": "https://example.com/",
        "httpc_params": {"verify": False, "timeout": 1},
        "subject_types_supported": ["public", "pairwise", "ephemeral"],
        "grant_types_supported": ["authorization_code", "implicit", "refresh_token"],
        "cookie_handler": {"class": CookieHandler, "kwargs": {"encrypter": CRYPT_CONFIG,
            "name": {"session": "oidc_op", "register": "oidc_op_reg", "session_management": "oidc_op_sman"}}},
        "keys": {"uri_path": "jwks.json", "key_defs": KEYDEFS},
        "endpoint": {
            "provider_config": {"path": ".well-known/openid-configuration", "class": ProviderConfiguration, "kwargs": {}},
            "registration": {"path": "registration", "class": Registration, "kwargs": {}},
            "authorization": {"path": "authorization", "class": Authorization, "kwargs": {}},
            "token": {"path": "token", "class": Token, "kwargs": {"client_authn_method": [
                "client_secret_post", "client_secret_basic", "client_secret_jwt", "private_key_jwt"]}},
            "userinfo": {"path": "userinfo", "class": userinfo.UserInfo, "kwargs": {"client_authn_method": ["bearer_header", "bearer_body"]}},
            "introspection": {"path": "introspection", "class": Introspection, "kwargs": {"client_authn_method": ["client_secret_post"], "enforce_audience_restriction": False}},
            "token_revocation": {"path": "revocation", "class": TokenRevocation, "kwargs": {"client_authn_method": ["client_secret_post"]}},
            "session": {"path": "end_session", "class": Session, "kwargs": {"post_logout_uri_path": "post_logout", "signing_alg": "ES256", "logout_verify_url": "https://example.com/verify_logout", "client_authn_method": None}},
            "pushed_authorization": {"path": "par", "class": PushedAuthorization, "kwargs": {"client_authn_method": ["client_secret_post"]}},
        },
        "userinfo": {"class": user_info.UserInfo, "kwargs": {"db_file": os.path.join(BASEDIR, "users.json")}},
        "authentication": {"anon": {"acr": INTERNETPROTOCOLPASSWORD, "class": "idpyoidc.server.user_authn.user.NoAuthn", "kwargs": {"user": "diana"}}},
        "template_dir": "template",
        "session_params": {"encrypter": CRYPT_CONFIG},
        "token_handler_args": {
            "code": {"lifetime": 600, "kwargs": {"crypt_conf": CRYPT_CONFIG}},
            "token": tok,
            "refresh": {"lifetime": 600, "kwargs": {"crypt_conf": CRYPT_CONFIG}},
            "id_token": {"class": "idpyoidc.server.token.id_token.IDToken", "kwargs": {}},
        },
    }
    if add_ons: conf["add_on"] = add_ons
    server = Server(OPConfiguration(conf=conf, base_path=BASEDIR), cwd=BASEDIR)
    ctx = server.context
    for cid in ("client_1", "client_2"):
        ctx.cdb[cid] = {
            "client_id": cid,
            "client_secret": "hemligt_" + cid + "_0123456789abcdef",
            "redirect_uris": [("https://%s.example.com/cb" % cid, None)],
            "client_salt": "salted",
            "token_endpoint_auth_method": "client_secret_post",
            "response_types_supported": ["code", "code id_token", "id_token", "token", "code token", "id_token token", "code id_token token"],
            "allowed_scopes": ["openid", "profile", "email", "address", "phone", "offline_access"],
        }
        server.keyjar.add_symmetric(cid, ctx.cdb[cid]["client_secret"])
    return server
