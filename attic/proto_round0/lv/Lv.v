From Coq Require Import List NArith Arith Lia Bool Decimal DecimalNat DecimalFacts.
Import ListNotations.
Open Scope N_scope.

Definition pystr := list N.
Definition colon : N := 58.

(* ---- decimal rendering / parsing through the standard library's Decimal ---- *)
Fixpoint uint_codes (d : uint) : pystr :=
  match d with
  | Nil => [] | D0 d => 48 :: uint_codes d | D1 d => 49 :: uint_codes d | D2 d => 50 :: uint_codes d
  | D3 d => 51 :: uint_codes d | D4 d => 52 :: uint_codes d | D5 d => 53 :: uint_codes d
  | D6 d => 54 :: uint_codes d | D7 d => 55 :: uint_codes d | D8 d => 56 :: uint_codes d
  | D9 d => 57 :: uint_codes d end.
Definition digit (c : N) (d : uint) : option uint :=
  match c with
  | 48 => Some (D0 d) | 49 => Some (D1 d) | 50 => Some (D2 d) | 51 => Some (D3 d) | 52 => Some (D4 d)
  | 53 => Some (D5 d) | 54 => Some (D6 d) | 55 => Some (D7 d) | 56 => Some (D8 d) | 57 => Some (D9 d)
  | _ => None end.
Fixpoint codes_uint (s : pystr) : option uint :=
  match s with [] => Some Nil | c :: r => match codes_uint r with None => None | Some d => digit c d end end.
Definition str_of_nat (n : nat) : pystr := uint_codes (Nat.to_uint n).
Definition py_int (s : pystr) : option nat :=          (* int() on a non-empty ASCII digit string *)
  match s with [] => None | _ => option_map Nat.of_uint (codes_uint s) end.

Definition is_digit (c : N) : bool := (48 <=? c) && (c <=? 57).
Lemma uint_codes_digits d : forallb is_digit (uint_codes d) = true.
Proof. induction d; cbn; auto. Qed.
Lemma codes_uint_rt d : codes_uint (uint_codes d) = Some d.
Proof. induction d; cbn [uint_codes codes_uint]; try rewrite IHd; reflexivity. Qed.
Lemma to_uint_nonnil n : Nat.to_uint n <> Nil.
Proof.
  intro H. pose proof (DecimalNat.Unsigned.to_of (Nat.to_uint n)) as E.
  rewrite DecimalNat.Unsigned.of_to in E. rewrite H in E at 2. cbn in E. rewrite H in E. discriminate.
Qed.
Lemma str_of_nat_nonempty n : str_of_nat n <> [].
Proof. unfold str_of_nat. pose proof (to_uint_nonnil n). destruct (Nat.to_uint n); cbn; congruence. Qed.
Lemma py_int_rt n : py_int (str_of_nat n) = Some n.
Proof.
  unfold py_int. pose proof (str_of_nat_nonempty n) as Hne. destruct (str_of_nat n) eqn:E; [congruence|].
  rewrite <- E. unfold str_of_nat. rewrite codes_uint_rt. cbn. now rewrite DecimalNat.Unsigned.of_to.
Qed.

(* ---- the codec (clean model of idpyoidc.server.util.lv_pack / lv_unpack) ---- *)
Definition pack1 (a : pystr) : pystr := str_of_nat (length a) ++ colon :: a.
Definition lv_pack (l : list pystr) : pystr := flat_map pack1 l.

Fixpoint split1 (s : pystr) : option (pystr * pystr) :=     (* s.split(":", 1); None = no colon *)
  match s with
  | [] => None
  | c :: r => if c =? colon then Some ([], r)
              else match split1 r with Some (a, b) => Some (c :: a, b) | None => None end
  end.

Definition is_space (c : N) : bool :=
  ((9 <=? c) && (c <=? 13)) || ((28 <=? c) && (c <=? 32)) || (c =? 133) || (c =? 160) || (c =? 5760)
  || ((8192 <=? c) && (c <=? 8202)) || (c =? 8232) || (c =? 8233) || (c =? 8239) || (c =? 8287) || (c =? 12288).
Fixpoint lstrip (s : pystr) : pystr := match s with c :: r => if is_space c then lstrip r else s | [] => [] end.
Definition strip (s : pystr) : pystr := List.rev (lstrip (List.rev (lstrip s))).

Inductive err := NoColon | BadInt | OutOfFuel.
Fixpoint unpack_loop (fuel : nat) (txt : pystr) : (list pystr + err) :=
  match txt with
  | [] => inl []
  | _ => match fuel with
         | O => inr OutOfFuel
         | S f => match split1 txt with
                  | None => inr NoColon
                  | Some (l, v) => match py_int l with
                                   | None => inr BadInt
                                   | Some n => match unpack_loop f (skipn n v) with
                                               | inl r => inl (firstn n v :: r)
                                               | inr e => inr e end
                                   end
                  end
         end
  end.
Definition lv_unpack (txt : pystr) : (list pystr + err) := let t := strip txt in unpack_loop (S (length t)) t.

(* ---- proofs ---- *)
Lemma split1_digits d rest : forallb is_digit d = true -> split1 (d ++ colon :: rest) = Some (d, rest).
Proof.
  induction d as [|c r IH]; cbn; [reflexivity|]. intros H. apply andb_true_iff in H as [Hc Hr].
  destruct (c =? colon) eqn:E; [apply N.eqb_eq in E; subst c; discriminate|]. now rewrite IH.
Qed.

Lemma unpack_step f txt : txt <> [] ->
  unpack_loop (S f) txt =
  match split1 txt with
  | None => inr NoColon
  | Some (l, v) => match py_int l with
                   | None => inr BadInt
                   | Some n => match unpack_loop f (skipn n v) with inl r => inl (firstn n v :: r) | inr e => inr e end
                   end
  end.
Proof. destruct txt; [congruence|reflexivity]. Qed.

Lemma unpack_pack l : forall fuel, (length l < fuel)%nat -> unpack_loop fuel (lv_pack l) = inl l.
Proof.
  induction l as [|a l IH]; intros fuel Hf; [destruct fuel; reflexivity|].
  destruct fuel as [|f]; [cbn in Hf; lia|].
  assert (E : lv_pack (a :: l) = str_of_nat (length a) ++ colon :: (a ++ lv_pack l)).
  { cbn [lv_pack flat_map]. unfold pack1. now rewrite <- List.app_assoc. }
  rewrite E. rewrite unpack_step.
  2:{ pose proof (str_of_nat_nonempty (length a)). destruct (str_of_nat (length a)); cbn; congruence. }
  rewrite split1_digits by apply uint_codes_digits. rewrite py_int_rt.
  rewrite skipn_app, skipn_all, Nat.sub_diag. cbn [skipn app].
  rewrite firstn_app, firstn_all, Nat.sub_diag. cbn [firstn]. rewrite List.app_nil_r.
  rewrite IH by (cbn in Hf; lia). reflexivity.
Qed.

Lemma pack_length l : (length l <= length (lv_pack l))%nat.
Proof.
  induction l as [|a l IH]; cbn [lv_pack flat_map length]; [lia|]. fold (lv_pack l).
  rewrite List.app_length. unfold pack1. rewrite List.app_length. cbn [length].
  pose proof (str_of_nat_nonempty (length a)). destruct (str_of_nat (length a)); [congruence|cbn; lia].
Qed.

(* strip is the identity on a string that neither starts nor ends with white space *)
Definition no_edge_space (s : pystr) : bool :=
  match s with [] => true | c :: _ => negb (is_space c) && negb (is_space (last s 0)) end.
Lemma lstrip_id s : match s with [] => True | c :: _ => is_space c = false end -> lstrip s = s.
Proof. destruct s as [|c r]; cbn; [reflexivity|intros ->; reflexivity]. Qed.
Lemma strip_id s : no_edge_space s = true -> strip s = s.
Proof.
  destruct s as [|c r]; [reflexivity|]. unfold no_edge_space. intros H. apply andb_true_iff in H as [H1 H2].
  apply negb_true_iff in H1, H2. unfold strip. rewrite (lstrip_id (c :: r)) by exact H1.
  rewrite lstrip_id; [apply List.rev_involutive|].
  destruct (List.rev (c :: r)) as [|x xs] eqn:E; [exact I|].
  assert (x = last (c :: r) 0) as ->; [|exact H2].
  rewrite <- (List.rev_involutive (c :: r)), E. cbn [List.rev]. now rewrite last_last.
Qed.

Lemma last_app_ne (x y : pystr) d : y <> [] -> last (x ++ y) d = last y d.
Proof.
  intros Hy. induction x as [|a x IH]; [reflexivity|].
  change ((a :: x) ++ y) with (a :: (x ++ y)).
  assert (x ++ y <> []) as Hne by (destruct x; cbn; congruence).
  destruct (x ++ y) as [|b t] eqn:E; [congruence|]. exact IH.
Qed.
Lemma pack1_ne a : pack1 a <> [].
Proof. unfold pack1. pose proof (str_of_nat_nonempty (length a)). destruct (str_of_nat (length a)); cbn; congruence. Qed.
Lemma pack_ne a l : lv_pack (a :: l) <> [].
Proof. cbn [lv_pack flat_map]. pose proof (pack1_ne a). destruct (pack1 a); cbn; congruence. Qed.
Lemma last_pack l : l <> [] -> last (lv_pack l) 0 = last (pack1 (last l [])) 0.
Proof.
  induction l as [|a l IH]; [congruence|]. intros _. destruct l as [|b l'].
  - cbn [lv_pack flat_map last]. now rewrite List.app_nil_r.
  - change (lv_pack (a :: b :: l')) with (pack1 a ++ lv_pack (b :: l')). rewrite last_app_ne by apply pack_ne.
    rewrite IH by congruence. reflexivity.
Qed.
Definition ends_with_space (a : pystr) : bool := match a with [] => false | _ => is_space (last a 0) end.
Lemma last_pack1 a : last (pack1 a) 0 = match a with [] => colon | _ => last a 0 end.
Proof.
  unfold pack1. destruct a as [|c r].
  - rewrite last_app_ne by congruence. reflexivity.
  - rewrite last_app_ne by congruence. cbn [last]. reflexivity.
Qed.
Lemma digit_not_space d : is_digit d = true -> is_space d = false.
Proof.
  unfold is_digit. intros H. apply andb_true_iff in H as [A B]. apply N.leb_le in A, B. unfold is_space.
  repeat match goal with
  | |- _ || _ = false => apply orb_false_iff; split
  | |- _ && _ = false => apply andb_false_iff; first [left; apply N.leb_gt; lia | right; apply N.leb_gt; lia]
  | |- (_ =? _) = false => apply N.eqb_neq; lia
  end.
Qed.
Lemma pack_edges l : ends_with_space (last l []) = false -> no_edge_space (lv_pack l) = true.
Proof.
  intros Hl. destruct l as [|a l]; [reflexivity|].
  pose proof (pack_ne a l) as Hne. destruct (lv_pack (a :: l)) as [|c r] eqn:E; [exfalso; apply Hne; exact E|].
  unfold no_edge_space. rewrite <- E.
  assert (Hc : is_space c = false).
  { cbn [lv_pack flat_map] in E. unfold pack1 at 1 in E. pose proof (uint_codes_digits (Nat.to_uint (length a))) as Hd.
    fold (str_of_nat (length a)) in Hd. pose proof (str_of_nat_nonempty (length a)).
    destruct (str_of_nat (length a)) as [|d ds]; [congruence|]. cbn in E. inversion E; subst.
    cbn in Hd. apply andb_true_iff in Hd as [Hd _]. now apply digit_not_space. }
  rewrite Hc. cbn [negb andb]. apply negb_true_iff.
  rewrite last_pack by congruence. rewrite last_pack1.
  unfold ends_with_space, pystr in *. destruct (last (a :: l) []) as [|x xs]; [reflexivity|exact Hl].
Qed.

Theorem lv_roundtrip l : ends_with_space (last l []) = false -> lv_unpack (lv_pack l) = inl l.
Proof.
  intros H. unfold lv_unpack. rewrite strip_id by now apply pack_edges.
  apply unpack_pack. pose proof (pack_length l). lia.
Qed.
Print Assumptions lv_roundtrip.

(* the guard is necessary: the refuted form, with the witness found on the real code *)
Theorem lv_roundtrip_unguarded_refuted : exists l, lv_unpack (lv_pack l) <> inl l.
Proof. exists [[120; 32]]. vm_compute. discriminate. Qed.

(* arbitrary content, including length-prefix mimicry *)
Example mimic : lv_unpack (lv_pack [[51;58;97;98;99]; []; [55;58;120]; [58;58]]) = inl [[51;58;97;98;99]; []; [55;58;120]; [58;58]].
Proof. vm_compute. reflexivity. Qed.
