From Coq Require Import List ZArith NArith Bool Lia.
Import ListNotations.
Open Scope Z_scope.

Definition pystr := list N.
Inductive exc := TypeError | KeyError | AttributeError | ValueError | OutOfFuel.
Inductive res (A : Type) := Ok (a : A) | Err (e : exc) | Unmodelled.
Arguments Ok {A} a. Arguments Err {A} e. Arguments Unmodelled {A}.
Definition bind {A B} (r : res A) (f : A -> res B) : res B :=
  match r with Ok a => f a | Err e => Err e | Unmodelled => Unmodelled end.
Notation "x <- r ;; k" := (bind r (fun x => k)) (at level 61, r at next level, right associativity).

Inductive pyval :=
| VNone | VBool (b : bool) | VInt (z : Z) | VStr (s : pystr)
| VList (l : list pyval) | VDict (d : list (pystr * pyval)) | VObj (f : list (pystr * pyval)).

Fixpoint str_eqb (a b : pystr) : bool :=
  match a, b with [], [] => true | x :: a', y :: b' => N.eqb x y && str_eqb a' b' | _, _ => false end.
Fixpoint assoc (k : pystr) (d : list (pystr * pyval)) : option pyval :=
  match d with [] => None | (k', v) :: r => if str_eqb k k' then Some v else assoc k r end.

Definition py_truthy (v : pyval) : bool :=
  match v with VNone => false | VBool b => b | VInt z => negb (Z.eqb z 0) | VStr s => negb (match s with [] => true | _ => false end)
  | VList l => negb (match l with [] => true | _ => false end) | VDict d => negb (match d with [] => true | _ => false end) | VObj _ => true end.
Definition py_getattr (o : pyval) (k : pystr) : res pyval :=
  match o with VObj f => match assoc k f with Some v => Ok v | None => Err AttributeError end | _ => Err AttributeError end.
Definition py_in_dict (k : pyval) (d : pyval) : res pyval :=
  match k, d with VStr s, VDict m => Ok (VBool (match assoc s m with Some _ => true | None => false end)) | _, _ => Unmodelled end.
Definition py_getitem (d k : pyval) : res pyval :=
  match d, k with VDict m, VStr s => match assoc s m with Some v => Ok v | None => Err KeyError end | _, _ => Unmodelled end.
Definition as_int (v : pyval) : res Z := match v with VInt z => Ok z | VBool b => Ok (if b then 1 else 0) | _ => Err TypeError end.
Definition py_cmp (op : Z -> Z -> bool) (a b : pyval) : res pyval := x <- as_int a ;; y <- as_int b ;; Ok (VBool (op x y)).
Definition py_eq (a b : pyval) : res pyval :=
  match a, b with VInt x, VInt y => Ok (VBool (Z.eqb x y)) | VNone, VNone => Ok (VBool true) | VNone, VInt _ | VInt _, VNone => Ok (VBool false) | _, _ => Unmodelled end.
Definition py_dict_get (d k dflt : pyval) : res pyval :=
  match d, k with VDict m, VStr s => Ok (match assoc s m with Some v => v | None => dflt end) | _, _ => Unmodelled end.
