From Coq Require Import List ZArith NArith Bool Lia.
Require Import PyVal Src_token.
Import ListNotations.
Open Scope Z_scope.

(* clean typed model *)
Record item := { used : Z; max_usage : option Z; revoked : bool; not_before : Z; expires_at : Z }.
Definition max_usage_reached (it : item) : bool :=
  match max_usage it with Some m => Z.geb (used it) m | None => false end.
Definition is_active (it : item) (now clock : Z) : bool :=
  if max_usage_reached it then false else
  if revoked it then false else
  let now := if Z.eqb now 0 then clock else now in
  if negb (Z.eqb (not_before it) 0) && Z.ltb now (not_before it) then false else
  if negb (Z.eqb (expires_at it) 0) && Z.gtb now (expires_at it) then false else true.

Definition s_usage_rules : pystr := [117; 115; 97; 103; 101; 95; 114; 117; 108; 101; 115]%N.
Definition s_max_usage : pystr := [109; 97; 120; 95; 117; 115; 97; 103; 101]%N.
Definition s_used : pystr := [117; 115; 101; 100]%N.
Definition s_revoked : pystr := [114; 101; 118; 111; 107; 101; 100]%N.
Definition s_not_before : pystr := [110; 111; 116; 95; 98; 101; 102; 111; 114; 101]%N.
Definition s_expires_at : pystr := [101; 120; 112; 105; 114; 101; 115; 95; 97; 116]%N.
Definition inject (it : item) : pyval :=
  VObj [ (s_used, VInt (used it));
         (s_usage_rules, VDict (match max_usage it with Some m => [(s_max_usage, VInt m)] | None => [] end));
         (s_revoked, VBool (revoked it)); (s_not_before, VInt (not_before it)); (s_expires_at, VInt (expires_at it)) ].

Lemma max_usage_reached_refines it clock :
  Item_max_usage_reached_src (inject it) clock = Ok (VBool (max_usage_reached it)).
Proof. destruct it as [u [m|] r nb ex]; reflexivity. Qed.

Lemma is_active_refines it now clock :
  Item_is_active_src (inject it) (VInt now) (VInt clock) = Ok (VBool (is_active it now clock)).
Proof.
  unfold Item_is_active_src. rewrite max_usage_reached_refines. unfold is_active.
  destruct (max_usage_reached it); [reflexivity|].
  destruct it as [u m r nb ex]; cbn -[Z.eqb Z.ltb Z.gtb].
  destruct r; [reflexivity|]. cbn -[Z.eqb Z.ltb Z.gtb].
  destruct (Z.eqb now 0); cbn -[Z.eqb Z.ltb Z.gtb];
  destruct (Z.eqb nb 0); cbn -[Z.eqb Z.ltb Z.gtb];
  repeat match goal with |- context [Z.ltb ?a ?b] => destruct (Z.ltb a b); cbn -[Z.eqb Z.ltb Z.gtb] end;
  destruct (Z.eqb ex 0); cbn -[Z.eqb Z.ltb Z.gtb];
  repeat match goal with |- context [Z.gtb ?a ?b] => destruct (Z.gtb a b); cbn -[Z.eqb Z.ltb Z.gtb] end; reflexivity.
Qed.
Print Assumptions is_active_refines.

(* a property theorem on the clean model *)
Theorem dead_stays_dead it now now' clock clock' :
  now <> 0 -> now' <> 0 -> now <= now' ->
  is_active it now clock = false -> not_before it = 0 -> is_active it now' clock' = false.
Proof.
  unfold is_active. intros H0 H0' Hle. destruct (max_usage_reached it); [reflexivity|].
  destruct (revoked it); [reflexivity|]. intros H Hnb. rewrite Hnb in *. cbn in *.
  destruct (Z.eqb_spec now 0); [contradiction|]. destruct (Z.eqb_spec now' 0); [contradiction|].
  destruct (Z.eqb_spec (expires_at it) 0); cbn in *; [discriminate|].
  destruct (Z.gtb_spec now (expires_at it)); [|discriminate].
  destruct (Z.gtb_spec now' (expires_at it)); [reflexivity|lia].
Qed.
