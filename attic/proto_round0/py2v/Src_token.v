From Coq Require Import List ZArith NArith Bool.
Require Import PyVal.
Import ListNotations.
Open Scope Z_scope.

Definition Item_max_usage_reached_src (self : pyval) (clock : pyval) : res pyval :=
 (let k4 := (fun _ : unit => Ok VNone) in
 t1 <- (t2 <- Ok (VStr [109; 97; 120; 95; 117; 115; 97; 103; 101]%N) ;; t3 <- (t4 <- Ok self ;; py_getattr t4 [117; 115; 97; 103; 101; 95; 114; 117; 108; 101; 115]%N) ;; py_in_dict t2 t3) ;;
 if py_truthy t1 then (t5 <- (t7 <- Ok self ;; py_getattr t7 [117; 115; 101; 100]%N) ;; t6 <- (t8 <- (t10 <- Ok self ;; py_getattr t10 [117; 115; 97; 103; 101; 95; 114; 117; 108; 101; 115]%N) ;; t9 <- Ok (VStr [109; 97; 120; 95; 117; 115; 97; 103; 101]%N) ;; py_getitem t8 t9) ;; py_cmp Z.geb t5 t6) else Ok (VBool false)).

Definition Item_is_active_src (self : pyval) (now : pyval) (clock : pyval) : res pyval :=
 (let k1 := (fun _ : unit => (let k3 := (fun _ : unit => (let k6 := (fun now => (let k8 := (fun _ : unit => (let k14 := (fun _ : unit => Ok (VBool true)) in
 t13 <- (t14 <- Ok self ;; py_getattr t14 [101; 120; 112; 105; 114; 101; 115; 95; 97; 116]%N) ;;
 if py_truthy t13 then (let k18 := (fun _ : unit => k14 tt) in
 t15 <- (t16 <- Ok now ;; t17 <- (t18 <- Ok self ;; py_getattr t18 [101; 120; 112; 105; 114; 101; 115; 95; 97; 116]%N) ;; py_cmp Z.gtb t16 t17) ;;
 if py_truthy t15 then Ok (VBool false) else k18 tt) else k14 tt)) in
 t7 <- (t8 <- Ok self ;; py_getattr t8 [110; 111; 116; 95; 98; 101; 102; 111; 114; 101]%N) ;;
 if py_truthy t7 then (let k12 := (fun _ : unit => k8 tt) in
 t9 <- (t10 <- Ok now ;; t11 <- (t12 <- Ok self ;; py_getattr t12 [110; 111; 116; 95; 98; 101; 102; 111; 114; 101]%N) ;; py_cmp Z.ltb t10 t11) ;;
 if py_truthy t9 then Ok (VBool false) else k12 tt) else k8 tt)) in
 t4 <- (t5 <- Ok now ;; t6 <- Ok (VInt (0)) ;; py_eq t5 t6) ;;
 if py_truthy t4 then (now <- Ok clock ;;
 k6 now) else k6 now)) in
 t2 <- (t3 <- Ok self ;; py_getattr t3 [114; 101; 118; 111; 107; 101; 100]%N) ;;
 if py_truthy t2 then Ok (VBool false) else k3 tt)) in
 t1 <- Item_max_usage_reached_src self clock ;;
 if py_truthy t1 then Ok (VBool false) else k1 tt).

Definition valid_client_secret_src (cinfo : pyval) (clock : pyval) : res pyval :=
 (let k3 := (fun _ : unit => Ok (VBool true)) in
 t1 <- (t2 <- Ok (VStr [99; 108; 105; 101; 110; 116; 95; 115; 101; 99; 114; 101; 116]%N) ;; t3 <- Ok cinfo ;; py_in_dict t2 t3) ;;
 if py_truthy t1 then (eta <- (t4 <- Ok cinfo ;; t5 <- Ok (VStr [99; 108; 105; 101; 110; 116; 95; 115; 101; 99; 114; 101; 116; 95; 101; 120; 112; 105; 114; 101; 115; 95; 97; 116]%N) ;; t6 <- Ok (VInt (0)) ;; py_dict_get t4 t5 t6) ;;
 (let k13 := (fun _ : unit => k3 tt) in
 t7 <- (t8 <- (t9 <- Ok eta ;; t10 <- Ok (VInt (0)) ;; t11 <- py_eq t9 t10 ;; Ok (VBool (negb (py_truthy t11)))) ;; if py_truthy t8 then (t12 <- Ok eta ;; t13 <- Ok clock ;; py_cmp Z.ltb t12 t13) else Ok t8) ;;
 if py_truthy t7 then Ok (VBool false) else k13 tt)) else k3 tt).
