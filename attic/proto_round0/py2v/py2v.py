"""Throw-away prototype of the fail-closed Python-ast -> Gallina translator (decision subset)."""
import ast, inspect, sys, textwrap
sys.path.insert(0, "/repo/src")

class Unsupported(Exception): pass

def coqstr(s):  # python str literal -> pystr literal (list N)
    return "[" + "; ".join(str(ord(c)) for c in s) + "]%N"

class T:
    def __init__(self, fname, params, methods, clock_calls=("utc_time_sans_frac",)):
        self.fname, self.params, self.methods, self.clock_calls = fname, params, methods, clock_calls
        self.n = 0
        self.bound = set(params)
    def fresh(self):
        self.n += 1; return "t%d" % self.n
    # expression -> (coq term of type res pyval)
    def expr(self, e):
        if isinstance(e, ast.Constant):
            v = e.value
            if v is True or v is False: return "Ok (VBool %s)" % str(v).lower()
            if v is None: return "Ok VNone"
            if isinstance(v, int): return "Ok (VInt (%d))" % v
            if isinstance(v, str): return "Ok (VStr %s)" % coqstr(v)
            raise Unsupported(ast.dump(e))
        if isinstance(e, ast.Name): return "Ok %s" % e.id
        if isinstance(e, ast.Attribute):
            a = self.fresh()
            return "(%s <- %s ;; py_getattr %s %s)" % (a, self.expr(e.value), a, coqstr(e.attr))
        if isinstance(e, ast.Subscript) and not isinstance(e.slice, ast.Slice):
            a, b = self.fresh(), self.fresh()
            return "(%s <- %s ;; %s <- %s ;; py_getitem %s %s)" % (a, self.expr(e.value), b, self.expr(e.slice), a, b)
        if isinstance(e, ast.Compare) and len(e.ops) == 1:
            a, b = self.fresh(), self.fresh()
            l, r, op = self.expr(e.left), self.expr(e.comparators[0]), e.ops[0]
            tbl = {ast.Lt: "py_cmp Z.ltb %s %s", ast.Gt: "py_cmp Z.gtb %s %s", ast.GtE: "py_cmp Z.geb %s %s",
                   ast.LtE: "py_cmp Z.leb %s %s", ast.Eq: "py_eq %s %s", ast.In: "py_in_dict %s %s"}
            if type(op) == ast.NotEq:
                c = self.fresh()
                return "(%s <- %s ;; %s <- %s ;; %s <- py_eq %s %s ;; Ok (VBool (negb (py_truthy %s))))" % (a, l, b, r, c, a, b, c)
            if type(op) not in tbl: raise Unsupported(ast.dump(op))
            return "(%s <- %s ;; %s <- %s ;; %s)" % (a, l, b, r, tbl[type(op)] % (a, b))
        if isinstance(e, ast.BoolOp) and isinstance(e.op, ast.And) and len(e.values) == 2:
            a = self.fresh()
            return "(%s <- %s ;; if py_truthy %s then %s else Ok %s)" % (a, self.expr(e.values[0]), a, self.expr(e.values[1]), a)
        if isinstance(e, ast.Call):
            f = e.func
            if isinstance(f, ast.Name) and f.id in self.clock_calls and not e.args: return "Ok clock"
            if isinstance(f, ast.Attribute) and isinstance(f.value, ast.Name) and f.value.id == "self" and f.attr in self.methods and not e.args:
                return "%s self clock" % self.methods[f.attr]
            if isinstance(f, ast.Attribute) and f.attr == "get" and len(e.args) in (1, 2):
                a, b, c = self.fresh(), self.fresh(), self.fresh()
                d = self.expr(e.args[1]) if len(e.args) == 2 else "Ok VNone"
                return "(%s <- %s ;; %s <- %s ;; %s <- %s ;; py_dict_get %s %s %s)" % (a, self.expr(f.value), b, self.expr(e.args[0]), c, d, a, b, c)
            raise Unsupported("call " + ast.dump(e)[:80])
        raise Unsupported(ast.dump(e)[:80])
    # statement list -> coq term (res pyval); falling off the end returns None
    def block(self, stmts, k="Ok VNone"):
        if not stmts: return k
        s, rest = stmts[0], stmts[1:]
        if isinstance(s, ast.Expr) and isinstance(s.value, ast.Constant): return self.block(rest, k)  # docstring
        if isinstance(s, ast.Return):
            return self.expr(s.value) if s.value is not None else "Ok VNone"
        if isinstance(s, ast.Assign) and len(s.targets) == 1 and isinstance(s.targets[0], ast.Name):
            rhs = self.expr(s.value); self.bound.add(s.targets[0].id)
            return "(%s <- %s ;;\n %s)" % (s.targets[0].id, rhs, self.block(rest, k))
        if isinstance(s, ast.If):
            c = self.fresh(); test = self.expr(s.test)
            assigned = {t.id for n in ast.walk(s) if isinstance(n, ast.Assign) for t in n.targets if isinstance(t, ast.Name)}
            join = sorted(assigned & self.bound)   # only re-assignments flow through the join point
            if len(join) > 1: raise Unsupported("multi-assign if")
            saved = set(self.bound)
            kn = "k%d" % self.n
            if join:
                v = join[0]
                body = self.block(s.body, "%s %s" % (kn, v)); self.bound = set(saved)
                orelse = self.block(s.orelse, "%s %s" % (kn, v)); self.bound = set(saved)
                cont = self.block(rest, k)
                return "(let %s := (fun %s => %s) in\n %s <- %s ;;\n if py_truthy %s then %s else %s)" % (kn, v, cont, c, test, c, body, orelse)
            body = self.block(s.body, "%s tt" % kn); self.bound = set(saved)
            orelse = self.block(s.orelse, "%s tt" % kn); self.bound = set(saved)
            cont = self.block(rest, k)
            return "(let %s := (fun _ : unit => %s) in\n %s <- %s ;;\n if py_truthy %s then %s else %s)" % (kn, cont, c, test, c, body, orelse)
        raise Unsupported(ast.dump(s)[:80])

def translate(func, coqname, params, methods):
    src = textwrap.dedent(inspect.getsource(func))
    fd = ast.parse(src).body[0]
    t = T(coqname, params, methods)
    body = t.block(fd.body)
    args = " ".join("(%s : pyval)" % p for p in params)
    return "Definition %s %s (clock : pyval) : res pyval :=\n %s.\n" % (coqname, args, body)

if __name__ == "__main__":
    from idpyoidc.server.session.token import Item
    from idpyoidc.server.client_authn import valid_client_secret
    M = {"max_usage_reached": "Item_max_usage_reached_src"}
    out = ["From Coq Require Import List ZArith NArith Bool.\nRequire Import PyVal.\nImport ListNotations.\nOpen Scope Z_scope.\n"]
    out.append(translate(Item.max_usage_reached, "Item_max_usage_reached_src", ["self"], M))
    out.append(translate(Item.is_active, "Item_is_active_src", ["self", "now"], M))
    out.append(translate(valid_client_secret, "valid_client_secret_src", ["cinfo"], M))
    open("Src_token.v", "w").write("\n".join(out))
    print("\n".join(out))
