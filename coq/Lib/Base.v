(* Lib/Base.v — shared conventions: Python strings as code-point lists, the result monad,
   the JSON-like value universe, association lists, case-checking helpers.
   No proofs about the modelled system live here; only general facts. *)
From Coq Require Export List ZArith NArith Bool Lia.
From Coq Require Import String Ascii.
Export ListNotations.

(* A Python str is a list of Unicode code points (len, slicing, split count code points). *)
Notation pystr := (list N).

(* String literal helper for generated case files: PS "abc" = [97;98;99]. ASCII only. *)
Definition PS (s : string) : pystr := List.map N_of_ascii (list_ascii_of_string s).

(* ---- results: a Python call either returns, raises, or is outside the modelled fragment ---- *)
Inductive exc :=
| TypeError | KeyError | ValueError | AttributeError | IndexError | UnicodeError
| OutOfFuel
| Refused (tag : N).   (* a domain-specific refusal; the tag enumerates the reason *)

Inductive res (A : Type) := Ok (a : A) | Err (e : exc) | Unmodelled.
Arguments Ok {A} a. Arguments Err {A} e. Arguments Unmodelled {A}.

Definition bind {A B} (r : res A) (f : A -> res B) : res B :=
  match r with Ok a => f a | Err e => Err e | Unmodelled => Unmodelled end.
Notation "x <- r ;; k" := (bind r (fun x => k)) (at level 61, r at next level, right associativity).

Definition is_ok {A} (r : res A) : bool := match r with Ok _ => true | _ => false end.

(* ---- string equality and association lists ---- *)
Fixpoint str_eqb (a b : pystr) : bool :=
  match a, b with
  | [], [] => true
  | x :: a', y :: b' => N.eqb x y && str_eqb a' b'
  | _, _ => false
  end.

Lemma str_eqb_eq a b : str_eqb a b = true <-> a = b.
Proof.
  revert b; induction a as [|x a IH]; intros [|y b]; cbn; split; intro H; try congruence; try discriminate.
  - apply andb_true_iff in H as [H1 H2]. apply N.eqb_eq in H1. apply IH in H2. congruence.
  - inversion H; subst. rewrite N.eqb_refl. cbn. now apply IH.
Qed.
Lemma str_eqb_refl a : str_eqb a a = true.
Proof. now apply str_eqb_eq. Qed.
Lemma str_eqb_neq a b : str_eqb a b = false <-> a <> b.
Proof.
  split; intro H.
  - intro E. apply str_eqb_eq in E. congruence.
  - destruct (str_eqb a b) eqn:E; [apply str_eqb_eq in E; contradiction|reflexivity].
Qed.
Lemma str_eqb_sym a b : str_eqb a b = str_eqb b a.
Proof.
  destruct (str_eqb a b) eqn:E.
  - apply str_eqb_eq in E. subst. now rewrite str_eqb_refl.
  - symmetry. apply str_eqb_neq. apply str_eqb_neq in E. congruence.
Qed.

Fixpoint str_in (a : pystr) (l : list pystr) : bool :=
  match l with [] => false | b :: r => str_eqb a b || str_in a r end.
Lemma str_in_In a l : str_in a l = true <-> In a l.
Proof.
  induction l as [|b r IH]; cbn; [split; [discriminate|tauto]|].
  rewrite orb_true_iff, IH, str_eqb_eq. split; intros [H|H]; auto.
Qed.

Section Assoc.
  Context {V : Type}.
  Fixpoint assoc (k : pystr) (d : list (pystr * V)) : option V :=
    match d with [] => None | (k', v) :: r => if str_eqb k k' then Some v else assoc k r end.
  Definition has_key (k : pystr) (d : list (pystr * V)) : bool :=
    match assoc k d with Some _ => true | None => false end.
  (* Python dict assignment: replace in place if present (insertion order kept), else append. *)
  Fixpoint aset (k : pystr) (v : V) (d : list (pystr * V)) : list (pystr * V) :=
    match d with
    | [] => [(k, v)]
    | (k', v') :: r => if str_eqb k k' then (k', v) :: r else (k', v') :: aset k v r
    end.
  Fixpoint adel (k : pystr) (d : list (pystr * V)) : list (pystr * V) :=
    match d with
    | [] => []
    | (k', v') :: r => if str_eqb k k' then r else (k', v') :: adel k r
    end.
  Lemma assoc_aset_same k v d : assoc k (aset k v d) = Some v.
  Proof.
    induction d as [|[k' v'] r IH]; cbn; [now rewrite str_eqb_refl|].
    destruct (str_eqb k k') eqn:E; cbn; rewrite E; auto.
  Qed.
  Lemma assoc_aset_other k k' v d : k <> k' -> assoc k' (aset k v d) = assoc k' d.
  Proof.
    intros Hne. induction d as [|[k2 v2] r IH]; cbn.
    - assert (str_eqb k' k = false) as -> by (apply str_eqb_neq; congruence). reflexivity.
    - destruct (str_eqb k k2) eqn:E; cbn.
      + apply str_eqb_eq in E; subst k2.
        assert (str_eqb k' k = false) as -> by (apply str_eqb_neq; congruence). reflexivity.
      + destruct (str_eqb k' k2); auto.
  Qed.
End Assoc.

(* ---- the JSON-like value universe ---- *)
Inductive pyval :=
| VNone | VBool (b : bool) | VInt (z : Z) | VStr (s : pystr)
| VList (l : list pyval) | VDict (d : list (pystr * pyval)) | VObj (f : list (pystr * pyval)).

Fixpoint pyval_eqb (a b : pyval) {struct a} : bool :=
  match a, b with
  | VNone, VNone => true
  | VBool x, VBool y => Bool.eqb x y
  | VInt x, VInt y => Z.eqb x y
  | VStr x, VStr y => str_eqb x y
  | VList x, VList y =>
      (fix go (x y : list pyval) : bool :=
         match x, y with
         | [], [] => true
         | u :: x', v :: y' => pyval_eqb u v && go x' y'
         | _, _ => false end) x y
  | VDict x, VDict y | VObj x, VObj y =>
      (fix go (x y : list (pystr * pyval)) : bool :=
         match x, y with
         | [], [] => true
         | (k, u) :: x', (k', v) :: y' => str_eqb k k' && pyval_eqb u v && go x' y'
         | _, _ => false end) x y
  | _, _ => false
  end.

Definition py_truthy (v : pyval) : bool :=
  match v with
  | VNone => false | VBool b => b | VInt z => negb (Z.eqb z 0)
  | VStr s => match s with [] => false | _ => true end
  | VList l => match l with [] => false | _ => true end
  | VDict d => match d with [] => false | _ => true end
  | VObj _ => true
  end.

(* ---- generic helpers for correspondence case files ---- *)
Fixpoint bad_indices_from {C : Type} (chk : C -> bool) (i : nat) (cases : list C) : list nat :=
  match cases with
  | [] => []
  | c :: r => if chk c then bad_indices_from chk (S i) r else i :: bad_indices_from chk (S i) r
  end.
Definition bad_indices {C : Type} (chk : C -> bool) (cases : list C) : list nat :=
  bad_indices_from chk O cases.

Definition list_eqb {A} (eqb : A -> A -> bool) : list A -> list A -> bool :=
  fix go (x y : list A) : bool :=
    match x, y with
    | [], [] => true
    | a :: x', b :: y' => eqb a b && go x' y'
    | _, _ => false
    end.
Definition option_eqb {A} (eqb : A -> A -> bool) (x y : option A) : bool :=
  match x, y with Some a, Some b => eqb a b | None, None => true | _, _ => false end.

Lemma list_eqb_eq {A} (eqb : A -> A -> bool) :
  (forall a b, eqb a b = true <-> a = b) -> forall x y, list_eqb eqb x y = true <-> x = y.
Proof.
  intros H. induction x as [|a x IH]; intros [|b y]; cbn; split; intro E; try congruence; try discriminate.
  - apply andb_true_iff in E as [E1 E2]. apply H in E1. apply IH in E2. congruence.
  - inversion E; subst. apply andb_true_iff. split; [now apply H|now apply IH].
Qed.

(* A canonical small enum for "how did the implementation answer" used by many drivers:
   exception class names are mapped to these tags by the harness. *)
Definition exc_eqb (a b : exc) : bool :=
  match a, b with
  | TypeError, TypeError | KeyError, KeyError | ValueError, ValueError
  | AttributeError, AttributeError | IndexError, IndexError | UnicodeError, UnicodeError
  | OutOfFuel, OutOfFuel => true
  | Refused x, Refused y => N.eqb x y
  | _, _ => false
  end.
Definition res_eqb {A} (eqb : A -> A -> bool) (x y : res A) : bool :=
  match x, y with
  | Ok a, Ok b => eqb a b
  | Err e, Err f => exc_eqb e f
  | Unmodelled, Unmodelled => true
  | _, _ => false
  end.
