(* Lib/Crypto.v — symbolic (Dolev-Yao) cryptography shared by C01, C04, C08, C16, C17.
   Byte-level cryptography is NOT modelled: authenticated encryption (Fernet, AES-GCM), MACs (HMAC)
   and signatures (JWS) are ideal term constructors.  The one lemma family used everywhere:
   if key k0 is never published, every derivable AEnc/Mac/Sig term under k0 occurs inside something the
   honest parties published. *)
From Verif Require Import Lib.Base.

Inductive term :=
| Atom (s : pystr)                  (* public data: any string *)
| Key (k : nat)                     (* symmetric key / private signing key number k *)
| Pub (k : nat)                     (* the public half of signing key k *)
| Pair (a b : term)
| AEnc (k : nat) (r : pystr) (m : term)   (* authenticated encryption under key k with nonce r *)
| Mac (k : nat) (m : term)          (* MAC of m under k; does not hide m *)
| Sig (k : nat) (m : term).         (* signature over m with private key k; does not hide m *)

(* subterm relation that does not look into key positions *)
Inductive sub : term -> term -> Prop :=
| sub_refl t : sub t t
| sub_pl x a b : sub x a -> sub x (Pair a b)
| sub_pr x a b : sub x b -> sub x (Pair a b)
| sub_enc x k r m : sub x m -> sub x (AEnc k r m)
| sub_mac x k m : sub x m -> sub x (Mac k m)
| sub_sig x k m : sub x m -> sub x (Sig k m).

Lemma sub_trans x y z : sub x y -> sub y z -> sub x z.
Proof. intros Hxy Hyz. induction Hyz; auto using sub. Qed.

Section DY.
  Variable K : term -> Prop.            (* everything the honest parties ever published *)
  Inductive derivable : term -> Prop :=
  | d_init t : K t -> derivable t
  | d_atom s : derivable (Atom s)
  | d_pub k : derivable (Pub k)
  | d_pair a b : derivable a -> derivable b -> derivable (Pair a b)
  | d_fst a b : derivable (Pair a b) -> derivable a
  | d_snd a b : derivable (Pair a b) -> derivable b
  | d_enc k r m : derivable (Key k) -> derivable m -> derivable (AEnc k r m)
  | d_dec k r m : derivable (AEnc k r m) -> derivable (Key k) -> derivable m
  | d_mac k m : derivable (Key k) -> derivable m -> derivable (Mac k m)
  | d_macpay k m : derivable (Mac k m) -> derivable m
  | d_sig k m : derivable (Key k) -> derivable m -> derivable (Sig k m)
  | d_sigpay k m : derivable (Sig k m) -> derivable m.

  Variable k0 : nat.
  Hypothesis secret : forall t, K t -> ~ sub (Key k0) t.   (* k0 is never published, not even inside a plaintext *)

  Definition protected (x : term) : Prop :=
    (exists r m, x = AEnc k0 r m) \/ (exists m, x = Mac k0 m) \/ (exists m, x = Sig k0 m).
  Definition ok (t : term) : Prop :=
    ~ sub (Key k0) t /\ forall x, protected x -> sub x t -> exists t0, K t0 /\ sub x t0.

  Lemma ok_sub t x : ok t -> sub x t -> ok x.
  Proof.
    intros [H1 H2] Hs. split.
    - intro H. apply H1. eapply sub_trans; eauto.
    - intros y Py Hy. apply H2; auto. eapply sub_trans; eauto.
  Qed.

  Ltac notprot Px := destruct Px as [[? [? E]]|[[? E]|[? E]]]; try discriminate E.

  Lemma derivable_ok t : derivable t -> ok t.
  Proof.
    induction 1 as [t Ht|s|k|a b _ [Ha1 Ha2] _ [Hb1 Hb2]|a b _ IH|a b _ IH|k r m _ [Hk _] _ [Hm1 Hm2]
                   |k r m _ IH _ _|k m _ [Hk _] _ [Hm1 Hm2]|k m _ IH|k m _ [Hk _] _ [Hm1 Hm2]|k m _ IH].
    - split; [apply secret; exact Ht|]. intros x _ Hx. exists t; auto.
    - split; [intro H; inversion H|]. intros x Px Hx; inversion Hx; subst; notprot Px.
    - split; [intro H; inversion H|]. intros x Px Hx; inversion Hx; subst; notprot Px.
    - split; [intro H; inversion H; subst; auto|].
      intros x Px Hx. inversion Hx; subst; auto. notprot Px.
    - eapply ok_sub; [exact IH|]. apply sub_pl, sub_refl.
    - eapply ok_sub; [exact IH|]. apply sub_pr, sub_refl.
    - assert (k <> k0) by (intros ->; apply Hk, sub_refl).
      split; [intro H'; inversion H'; subst; auto|].
      intros x Px Hx. inversion Hx; subst; auto. notprot Px. inversion E; congruence.
    - eapply ok_sub; [exact IH|]. apply sub_enc, sub_refl.
    - assert (k <> k0) by (intros ->; apply Hk, sub_refl).
      split; [intro H'; inversion H'; subst; auto|].
      intros x Px Hx. inversion Hx; subst; auto. notprot Px. inversion E; congruence.
    - eapply ok_sub; [exact IH|]. apply sub_mac, sub_refl.
    - assert (k <> k0) by (intros ->; apply Hk, sub_refl).
      split; [intro H'; inversion H'; subst; auto|].
      intros x Px Hx. inversion Hx; subst; auto. notprot Px. inversion E; congruence.
    - eapply ok_sub; [exact IH|]. apply sub_sig, sub_refl.
  Qed.

  Theorem key_secret : ~ derivable (Key k0).
  Proof. intro H. destruct (derivable_ok _ H) as [H1 _]. apply H1, sub_refl. Qed.

  Theorem aenc_genuine r m : derivable (AEnc k0 r m) -> exists t0, K t0 /\ sub (AEnc k0 r m) t0.
  Proof. intro H. destruct (derivable_ok _ H) as [_ H2]. apply H2; [left; eauto|apply sub_refl]. Qed.

  Theorem mac_genuine m : derivable (Mac k0 m) -> exists t0, K t0 /\ sub (Mac k0 m) t0.
  Proof. intro H. destruct (derivable_ok _ H) as [_ H2]. apply H2; [right; left; eauto|apply sub_refl]. Qed.

  Theorem sig_genuine m : derivable (Sig k0 m) -> exists t0, K t0 /\ sub (Sig k0 m) t0.
  Proof. intro H. destruct (derivable_ok _ H) as [_ H2]. apply H2; [right; right; eauto|apply sub_refl]. Qed.
End DY.

(* ideal operations (definitions, not axioms) *)
Definition adec (k : nat) (t : term) : option term :=
  match t with AEnc k' _ m => if Nat.eqb k k' then Some m else None | _ => None end.
Definition mac_verify (k : nat) (m t : term) : bool :=
  match t with Mac k' m' => Nat.eqb k k' && (fix teq (a b : term) : bool :=
      match a, b with
      | Atom x, Atom y => str_eqb x y
      | Key x, Key y | Pub x, Pub y => Nat.eqb x y
      | Pair a1 a2, Pair b1 b2 => teq a1 b1 && teq a2 b2
      | AEnc k1 r1 m1, AEnc k2 r2 m2 => Nat.eqb k1 k2 && str_eqb r1 r2 && teq m1 m2
      | Mac k1 m1, Mac k2 m2 | Sig k1 m1, Sig k2 m2 => Nat.eqb k1 k2 && teq m1 m2
      | _, _ => false end) m m'
  | _ => false end.
Definition sig_verify (pubk : nat) (t : term) : option term :=
  match t with Sig k m => if Nat.eqb pubk k then Some m else None | _ => None end.
