(* Lib/Heap.v — a small heap of Python dict / list / attribute-carrying objects (C20).
   Objects are finite maps key -> value (a list is a dict keyed by position, an instance is the dict of
   its attributes); a value is an atom (str, int, None, tuple, function: immutable) or a reference. *)
From Coq Require Import List Arith Bool Lia.
Import ListNotations.

Definition loc := nat.
Definition key := nat.
Definition var := nat.
Inductive val := Atom (a : nat) | Ref (l : loc).
Definition obj := list (key * val).
Definition heap := loc -> option obj.
Definition env := var -> option val.

Definition upd_heap (h : heap) (l : loc) (o : obj) : heap := fun l' => if Nat.eqb l' l then Some o else h l'.
Definition upd_env (e : env) (x : var) (v : val) : env := fun x' => if Nat.eqb x' x then Some v else e x'.
Fixpoint lookup (k : key) (o : obj) : option val :=
  match o with [] => None | (k', v) :: r => if Nat.eqb k k' then Some v else lookup k r end.
Definition delk (k : key) (o : obj) : obj := filter (fun p => negb (Nat.eqb (fst p) k)) o.
Definition setk (k : key) (v : val) (o : obj) : obj := (k, v) :: delk k o.
(* x.update(y) / x.extend(y): every entry of oy is set in o *)
Definition merge (o oy : obj) : obj := fold_right (fun p acc => setk (fst p) (snd p) acc) o oy.

Definition all_refs_in (o : obj) (P : loc -> Prop) : Prop := forall k l, lookup k o = Some (Ref l) -> P l.
