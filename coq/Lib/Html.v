(* Lib/Html.v — html.escape(s, quote=True) of the Python standard library, the decoder for exactly the
   five character references it emits, and a reader for a double-quoted attribute value.
   html.escape replaces the ampersand first and then less-than, greater-than, double quote and
   apostrophe, which is the per-character map below.  General facts only; the form_post page is in Model/Delivery.v. *)
From Coq Require Import String.
From Verif Require Import Lib.Base Lib.PyStr.
Open Scope N_scope.

Definition e_amp : pystr := PS "&amp;"%string.
Definition e_lt : pystr := PS "&lt;"%string.
Definition e_gt : pystr := PS "&gt;"%string.
Definition e_quot : pystr := PS "&quot;"%string.
Definition e_apos : pystr := PS "&#x27;"%string.

Definition esc1 (c : N) : pystr :=
  if c =? 38 then e_amp else if c =? 60 then e_lt else if c =? 62 then e_gt
  else if c =? 34 then e_quot else if c =? 39 then e_apos else [c].
Definition html_escape (s : pystr) : pystr := flat_map esc1 s.

(* characters that can open or close markup or an attribute value *)
Definition markup_char (c : N) : bool := (c =? 60) || (c =? 62) || (c =? 34) || (c =? 39).
Definition markup_free (s : pystr) : bool := forallb (fun c => negb (markup_char c)) s.

(* if s starts with p, the rest *)
Fixpoint strip_prefix (p s : pystr) : option pystr :=
  match p, s with
  | [], _ => Some s
  | x :: p', y :: s' => if x =? y then strip_prefix p' s' else None
  | _ :: _, [] => None
  end.

(* decoder for the five references html.escape emits; any other ampersand is kept *)
Definition entity_at (t : pystr) : option (N * pystr) :=   (* t = text after the ampersand *)
  match strip_prefix (PS "amp;"%string) t with Some r => Some (38, r) | None =>
  match strip_prefix (PS "lt;"%string) t with Some r => Some (60, r) | None =>
  match strip_prefix (PS "gt;"%string) t with Some r => Some (62, r) | None =>
  match strip_prefix (PS "quot;"%string) t with Some r => Some (34, r) | None =>
  match strip_prefix (PS "#x27;"%string) t with Some r => Some (39, r) | None => None
  end end end end end.
Fixpoint unescape_fuel (fuel : nat) (s : pystr) : pystr :=
  match fuel with
  | O => s
  | S f =>
    match s with
    | [] => []
    | c :: t =>
        if c =? 38 then
          match entity_at t with
          | Some (d, r) => d :: unescape_fuel f r
          | None => c :: unescape_fuel f t
          end
        else c :: unescape_fuel f t
    end
  end.
Definition html_unescape5 (s : pystr) : pystr := unescape_fuel (length s) s.

(* every ampersand of the text starts one of the five references: no bare ampersand *)
Fixpoint amp_ok_fuel (fuel : nat) (s : pystr) : bool :=
  match fuel with
  | O => match s with [] => true | _ => false end
  | S f =>
    match s with
    | [] => true
    | c :: t => if c =? 38 then match entity_at t with Some (_, r) => amp_ok_fuel f r | None => false end
                else amp_ok_fuel f t
    end
  end.
Definition amp_ok (s : pystr) : bool := amp_ok_fuel (length s) s.

(* read a double-quoted attribute value: the text up to the first double quote (decoded) and what follows it *)
Definition read_attr (s : pystr) : option (pystr * pystr) :=
  match split1_c 34 s with
  | Some (a, rest) => Some (html_unescape5 a, rest)
  | None => None
  end.
