(* Lib/ImpExpTy.v — the vocabulary of idpyoidc.impexp `parameter` tables (C13).
   Imported by the regenerated Gen/ImpExpTables.v and by Model/ImpExp.v.
   A `parameter` dict maps attribute names to a *type marker*:
     None -> PNone, 0 -> PInt, "" -> PStr, bool -> PBool, b"" -> PBytes, {} -> PDict, [] -> PList,
     "DICT_TYPE" -> PDictType, object -> PObject, [T] -> PListOf T,
     a Message subclass -> PMsg qualified_name, any other class -> PCls qualified_name. *)
From Verif Require Import Lib.Base.

Inductive ptype :=
| PNone | PInt | PStr | PBool | PBytes | PDict | PList | PDictType | PObject
| PListOf (t : ptype) | PMsg (cls : pystr) | PCls (cls : pystr).

Record impexp_class := mk_impexp_class {
  ic_parameter : list (pystr * ptype);             (* declaration order *)
  ic_special   : list (pystr * (bool * bool));     (* special_load_dump: attr -> (has "dump", has "load") *)
  ic_init_args : list pystr;
  ic_bases     : list pystr                        (* idpyoidc base classes, nearest first *)
}.

Fixpoint ptype_eqb (a b : ptype) : bool :=
  match a, b with
  | PNone, PNone | PInt, PInt | PStr, PStr | PBool, PBool | PBytes, PBytes | PDict, PDict
  | PList, PList | PDictType, PDictType | PObject, PObject => true
  | PListOf x, PListOf y => ptype_eqb x y
  | PMsg x, PMsg y | PCls x, PCls y => str_eqb x y
  | _, _ => false
  end.

Definition class_table (tabs : list (pystr * impexp_class)) (c : pystr) : list (pystr * ptype) :=
  match assoc c tabs with Some k => ic_parameter k | None => [] end.
Definition class_special (tabs : list (pystr * impexp_class)) (c : pystr) : list (pystr * (bool * bool)) :=
  match assoc c tabs with Some k => ic_special k | None => [] end.
