(* Lib/InteropTy.v — vocabulary of the regenerated Gen/Supports.v (C12).
   keyfam : key family of a JOSE algorithm as cryptojwt's alg2keytype classifies it
            (RSA -> KRsa, EC -> KEc, OKP -> KOkp, oct -> KOct);
   src    : where StandAloneClient.get_access_and_id_token takes an artefact from
            (not at all / the authorization response / the token response). *)
From Verif Require Import Lib.Base.

Inductive keyfam := KRsa | KEc | KOkp | KOct.
Inductive src := SrcNone | SrcAuthz | SrcToken.

Definition keyfam_eqb (a b : keyfam) : bool :=
  match a, b with
  | KRsa, KRsa | KEc, KEc | KOkp, KOkp | KOct, KOct => true
  | _, _ => false
  end.

Definition src_eqb (a b : src) : bool :=
  match a, b with
  | SrcNone, SrcNone | SrcAuthz, SrcAuthz | SrcToken, SrcToken => true
  | _, _ => false
  end.
