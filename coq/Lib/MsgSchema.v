(* Lib/MsgSchema.v — the vocabulary of the regenerated message-schema table (Gen/Schema.v, written by
   harness/gen_tables.py:gen_schema from the CURRENT /repo/src).  Shared by C10 and C11.
   One `mclass` per subclass of idpyoidc.message.Message found by introspection; one `param` per
   entry of its c_param:  name -> (value type, required, serializer, deserializer, null allowed). *)
From Verif Require Import Lib.Base.

(* element / scalar value types that occur in c_param *)
Inductive vtype :=
| TStr | TInt | TBool | TDict
| TAny                         (* typing.Any *)
| TMsg (cls : pystr)           (* idpyoidc.message.Message or a subclass, qualified name *)
| TOpaqueTy (what : pystr).    (* anything else: kept, never dropped *)

Inductive ptype :=
| PScalar (t : vtype)          (* c_param type  T   *)
| PList (t : vtype).           (* c_param type [T]  *)

(* serializer / deserializer identities (by qualified function name; unknown ones stay opaque) *)
Inductive ser_id :=
| SNone
| SList         (* idpyoidc.message.list_serializer *)
| SSpSep        (* idpyoidc.message.sp_sep_list_serializer *)
| SJson         (* idpyoidc.message.json_serializer *)
| SMsg          (* idpyoidc.message.msg_ser *)
| SMsgList      (* idpyoidc.message.msg_list_ser *)
| SMsgJson      (* idpyoidc.message.oidc.msg_ser_json *)
| SOpaque (fn : pystr).

Inductive deser_id :=
| DNone
| DList         (* idpyoidc.message.list_deserializer *)
| DSpSep        (* idpyoidc.message.sp_sep_list_deserializer *)
| DJson         (* idpyoidc.message.json_deserializer *)
| DMsg          (* idpyoidc.message.msg_deser *)
| DMsgList      (* idpyoidc.message.msg_list_deser *)
| DDictText     (* idpyoidc.message.oidc.dict_deser *)
| DOpaque (fn : pystr).

Record param := mkP {
  p_name : pystr; p_ty : ptype; p_req : bool; p_ser : ser_id; p_deser : deser_id; p_null : bool }.

(* where the verify() override calls the parent's verify, by ast inspection *)
Inductive chain_pos := ChainFirst | ChainMiddle | ChainLast | ChainNowhere.

Record mclass := mkC {
  c_name : pystr;                               (* module.QualName *)
  c_bases : list pystr;                         (* MRO after the class itself, up to Message *)
  c_params : list param;                        (* c_param, declaration order *)
  c_allowed : list (pystr * list pyval);        (* c_allowed_values *)
  c_default : list (pystr * pyval);             (* c_default *)
  c_overrides_verify : bool;                    (* 'verify' in cls.__dict__ *)
  c_chains : bool;                              (* every normal return path of that override has
                                                   called an ancestor's verify (or no override) *)
  c_chain_pos : chain_pos }.

(* ---- decidable equalities used by the models and by the table theorems ---- *)
Definition vtype_eqb (a b : vtype) : bool :=
  match a, b with
  | TStr, TStr | TInt, TInt | TBool, TBool | TDict, TDict | TAny, TAny => true
  | TMsg x, TMsg y => str_eqb x y
  | TOpaqueTy x, TOpaqueTy y => str_eqb x y
  | _, _ => false
  end.
Definition ptype_eqb (a b : ptype) : bool :=
  match a, b with
  | PScalar x, PScalar y | PList x, PList y => vtype_eqb x y
  | _, _ => false
  end.
Definition ser_eqb (a b : ser_id) : bool :=
  match a, b with
  | SNone, SNone | SList, SList | SSpSep, SSpSep | SJson, SJson | SMsg, SMsg
  | SMsgList, SMsgList | SMsgJson, SMsgJson => true
  | SOpaque x, SOpaque y => str_eqb x y
  | _, _ => false
  end.
Definition deser_eqb (a b : deser_id) : bool :=
  match a, b with
  | DNone, DNone | DList, DList | DSpSep, DSpSep | DJson, DJson | DMsg, DMsg
  | DMsgList, DMsgList | DDictText, DDictText => true
  | DOpaque x, DOpaque y => str_eqb x y
  | _, _ => false
  end.

(* a parameter kind = everything of a c_param entry except the name and the required flag *)
Definition kind := (ptype * ser_id * deser_id * bool)%type.
Definition kind_of (p : param) : kind := (p_ty p, p_ser p, p_deser p, p_null p).
Definition kind_eqb (a b : kind) : bool :=
  let '(t, s, d, n) := a in let '(t', s', d', n') := b in
  ptype_eqb t t' && ser_eqb s s' && deser_eqb d d' && Bool.eqb n n'.

Fixpoint find_param (k : pystr) (ps : list param) : option param :=
  match ps with
  | [] => None
  | p :: r => if str_eqb k (p_name p) then Some p else find_param k r
  end.
Fixpoint find_class (n : pystr) (cs : list mclass) : option mclass :=
  match cs with
  | [] => None
  | c :: r => if str_eqb n (c_name c) then Some c else find_class n r
  end.

Fixpoint nodup_str (l : list pystr) : bool :=
  match l with [] => true | x :: r => negb (str_in x r) && nodup_str r end.
