(* Lib/PkceTy.v — vocabulary of the PKCE transform tables (C15).
   Imported by the regenerated Gen/PkceTables.v and by Model/Pkce.v.
   idpyoidc.server.oauth2.add_on.pkce.CC_METHOD maps a method name to a callable; the generator
   classifies every entry behaviourally (on probe strings, against hashlib/base64 called directly):
     lambda x: x                                   -> TrPlain
     x -> b64url_nopad(sha<bits>(x.encode("ascii"))) -> TrSha bits
   anything else is a broken translation.
   idpyoidc.client.defaults.CC_METHOD maps a method name to a hashlib constructor: -> bits. *)
From Verif Require Import Lib.Base.

Inductive tr_kind := TrPlain | TrSha (bits : N).

Definition tr_kind_eqb (a b : tr_kind) : bool :=
  match a, b with
  | TrPlain, TrPlain => true
  | TrSha x, TrSha y => N.eqb x y
  | _, _ => false
  end.
