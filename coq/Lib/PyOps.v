(* Lib/PyOps.v — the dynamic Python operations that translated source functions (coq/Gen/Src_*.v, emitted by
   harness/py2v.py from /repo/src on every run) are expressed in.  Each operation is total: a type it does not
   model gives Unmodelled, an operation Python would refuse gives Err <exception>. *)
From Verif Require Import Lib.Base Lib.PyStr.
Open Scope Z_scope.

Definition py_getattr (o : pyval) (k : pystr) : res pyval :=
  match o with VObj f => match assoc k f with Some v => Ok v | None => Err AttributeError end | _ => Err AttributeError end.
Definition as_int (v : pyval) : res Z :=
  match v with VInt z => Ok z | VBool b => Ok (if b then 1 else 0) | _ => Err TypeError end.
Definition py_cmp (op : Z -> Z -> bool) (a b : pyval) : res pyval :=
  x <- as_int a ;; y <- as_int b ;; Ok (VBool (op x y)).
Definition py_eq (a b : pyval) : res pyval := Ok (VBool (pyval_eqb a b)).      (* no int/bool cross equality needed here *)
Definition py_ne (a b : pyval) : res pyval := Ok (VBool (negb (pyval_eqb a b))).
Definition py_is_none (a : pyval) : res pyval := Ok (VBool (match a with VNone => true | _ => false end)).
(* x in container: dict keys, list elements, substring *)
Definition py_in (k c : pyval) : res pyval :=
  match c with
  | VDict m => match k with VStr s => Ok (VBool (has_key s m)) | _ => Ok (VBool false) end
  | VList l => Ok (VBool (existsb (pyval_eqb k) l))
  | VStr s => match k with VStr p => Ok (VBool (contains p s)) | _ => Err TypeError end
  | _ => Err TypeError
  end.
Definition py_not (a : pyval) : res pyval := Ok (VBool (negb (py_truthy a))).
Definition py_getitem (d k : pyval) : res pyval :=
  match d, k with
  | VDict m, VStr s => match assoc s m with Some v => Ok v | None => Err KeyError end
  | VList l, VInt i => if i <? 0 then Unmodelled else match nth_error l (Z.to_nat i) with Some v => Ok v | None => Err IndexError end
  | VStr s, VInt i => if i <? 0 then Unmodelled else match nth_error s (Z.to_nat i) with Some c => Ok (VStr [c]) | None => Err IndexError end
  | _, _ => Unmodelled
  end.
Definition py_dict_get (d k dflt : pyval) : res pyval :=
  match d, k with VDict m, VStr s => Ok (match assoc s m with Some v => v | None => dflt end) | _, _ => Unmodelled end.
(* x[:n] on lists and strings *)
Definition py_slice_to (x n : pyval) : res pyval :=
  match x, n with
  | VList l, VInt z => Ok (VList (if 0 <=? z then firstn (Z.to_nat z) l else firstn (length l - Z.to_nat (- z)) l))
  | VStr s, VInt z => Ok (VStr (slice_to z s))
  | _, _ => Unmodelled
  end.
Definition py_endswith (x suffix : pyval) : res pyval :=
  match x, suffix with VStr s, VStr p => Ok (VBool (ends_with p s)) | _, _ => Err AttributeError end.
Fixpoint all_strs (l : list pyval) : option (list pystr) :=
  match l with
  | [] => Some []
  | VStr s :: r => option_map (cons s) (all_strs r)
  | _ => None
  end.
Definition py_join (sep xs : pyval) : res pyval :=
  match sep, xs with
  | VStr s, VList l => match all_strs l with Some ss => Ok (VStr (join s ss)) | None => Err TypeError end
  | _, _ => Unmodelled
  end.
(* "{}{}...".format(a, b, ...) with only bare placeholders: str() of each argument, concatenated *)
Definition py_str (v : pyval) : res pystr :=
  match v with VStr s => Ok s | VInt z => Ok (str_of_Z z) | _ => Unmodelled end.
Fixpoint py_format_concat (args : list pyval) : res pystr :=
  match args with
  | [] => Ok []
  | a :: r => s <- py_str a ;; t <- py_format_concat r ;; Ok (s ++ t)%list
  end.

(* for x in xs: if test(x): raise e   — the loop either raises at the first offending element or falls through *)
Fixpoint py_for_raise (xs : list pyval) (test : pyval -> res pyval) (e : exc) : res unit :=
  match xs with
  | [] => Ok tt
  | x :: r => b <- test x ;; if py_truthy b then Err e else py_for_raise r test e
  end.
Definition py_iter (v : pyval) : res (list pyval) :=
  match v with VList l => Ok l | _ => Unmodelled end.

(* [elt(x) for x in xs if test(x)] — evaluated left to right; the first error ends it *)
Fixpoint py_listcomp (xs : list pyval) (test elt : pyval -> res pyval) : res (list pyval) :=
  match xs with
  | [] => Ok []
  | x :: r => b <- test x ;;
              if py_truthy b then (v <- elt x ;; t <- py_listcomp r test elt ;; Ok (v :: t)) else py_listcomp r test elt
  end.

(* o.f("c1", .., "cn") for an ENVIRONMENT function f of the object (upstream_get: the link to the enclosing server
   object).  What it returns is not defined by the translated function; the injected object carries the graph of f on
   the constant arguments the code passes, as nested dicts: field f = {"c1": {.. {"cn": value}}}.  Arguments the
   injection does not provide are outside the modelled fragment. *)
Fixpoint py_env_lookup (g : pyval) (args : list pystr) : res pyval :=
  match args with
  | [] => Ok g
  | a :: r => match g with
              | VDict m => match assoc a m with Some v => py_env_lookup v r | None => Unmodelled end
              | _ => Unmodelled
              end
  end.
Definition py_call_env (o : pyval) (f : pystr) (args : list pystr) : res pyval :=
  g <- py_getattr o f ;; py_env_lookup g args.

(* for x in xs: <body>  with continue / break / return and ONE variable carried between iterations: the body maps
   (element, carried value) to what happens next; the loop ends with inl (carried value) or inr (returned value) *)
Inductive loop_ctl := LNext (s : pyval) | LBreak (s : pyval) | LReturn (v : pyval).
Fixpoint py_for (xs : list pyval) (body : pyval -> pyval -> res loop_ctl) (s : pyval) : res (pyval + pyval) :=
  match xs with
  | [] => Ok (inl s)
  | x :: r => c <- body x s ;;
              match c with LNext s' => py_for r body s' | LBreak s' => Ok (inl s') | LReturn v => Ok (inr v) end
  end.
(* a, b = x  (x a list / tuple of exactly n elements) *)
Definition py_unpack (x : pyval) (n : nat) : res (list pyval) :=
  match x with VList l => if Nat.eqb (length l) n then Ok l else Err ValueError | _ => Unmodelled end.
(* d.items(), d.keys() as lists in insertion order; list(x) *)
Definition py_items (d : pyval) : res pyval :=
  match d with
  | VDict m => Ok (VList (List.map (fun kv => VList [VStr (fst kv); snd kv]) m))
  | VNone | VBool _ | VInt _ | VStr _ | VList _ => Err AttributeError
  | _ => Unmodelled
  end.
Definition py_keys (d : pyval) : res pyval :=
  match d with
  | VDict m => Ok (VList (List.map (fun kv => VStr (fst kv)) m))
  | VNone | VBool _ | VInt _ | VStr _ | VList _ => Err AttributeError
  | _ => Unmodelled
  end.
Definition py_list (x : pyval) : res pyval :=
  match x with VList l => Ok (VList l) | VStr s => Ok (VList (List.map (fun c => VStr [c]) s)) | _ => Unmodelled end.
(* x is True / x is False *)
Definition py_is_bool (a : pyval) (b : bool) : res pyval :=
  Ok (VBool (match a with VBool x => Bool.eqb x b | _ => false end)).

(* len(x); s.split(sep) for a separator of one or two characters; l.append(x) on an un-aliased list (l = l + [x]) *)
Definition py_len (x : pyval) : res pyval :=
  match x with
  | VStr s => Ok (VInt (Z.of_nat (length s)))
  | VList l => Ok (VInt (Z.of_nat (length l)))
  | VDict d => Ok (VInt (Z.of_nat (length d)))
  | VNone | VBool _ | VInt _ => Err TypeError
  | VObj _ => Unmodelled
  end.
Definition py_split (x sep : pyval) : res pyval :=
  match x, sep with
  | VStr s, VStr [] => Err ValueError
  | VStr s, VStr [a] => Ok (VList (List.map VStr (split_c a s)))
  | VStr s, VStr [a; b] => Ok (VList (List.map VStr (split_cc a b s)))
  | _, _ => Unmodelled
  end.
Definition py_append (l x : pyval) : res pyval :=
  match l with VList xs => Ok (VList (xs ++ [x])) | _ => Unmodelled end.

(* random draws (rndstr): successive results are an explicit finite supply; a draw from the empty supply is OutOfFuel.
   x = draw()                       -> py_draw
   while test(x): x = draw()        -> py_redraw: the source loop has no bound, the translation recurses on the supply *)
Definition py_draw (draws : list pyval) : res (pyval * list pyval) :=
  match draws with [] => Err OutOfFuel | d :: r => Ok (d, r) end.
Fixpoint py_redraw (test : pyval -> res pyval) (x : pyval) (draws : list pyval) : res (pyval * list pyval) :=
  match draws with
  | [] => b <- test x ;; if py_truthy b then Err OutOfFuel else Ok (x, [])
  | d :: r => b <- test x ;; if py_truthy b then py_redraw test d r else Ok (x, draws)
  end.

(* ---- added for util.lv_unpack: int(), x[n:], s.split(sep, n), `a, b = e`, and `while test: body` on explicit fuel ---- *)
(* int(x).  For a str: Lib/PyStr.py_int (blanks of int(), one sign, ASCII digits with single underscores; a non-ASCII
   character that is not white space is Unmodelled).  CPython additionally refuses a literal with more than
   sys.get_int_max_str_digits() digit characters (ValueError; default 4300, changeable at run time by
   sys.set_int_max_str_digits / PYTHONINTMAXSTRDIGITS / -X int_max_str_digits, 0 = no limit): py_int is int() without
   that limit; a string that is long enough to possibly exceed the default limit is outside the modelled fragment
   here (Unmodelled), never silently converted. *)
Definition int_max_str_digits : nat := 4300.
Definition py_int_of (x : pyval) : res pyval :=
  match x with
  | VStr s => if Nat.ltb int_max_str_digits (length s) then Unmodelled else (z <- py_int s ;; Ok (VInt z))
  | VInt z => Ok (VInt z)
  | VBool b => Ok (VInt (if b then 1 else 0))
  | _ => Unmodelled
  end.
(* x[n:] on lists and strings (a negative n counts from the end) *)
Definition py_slice_from (x n : pyval) : res pyval :=
  match x, n with
  | VList l, VInt z => Ok (VList (if 0 <=? z then skipn (Z.to_nat z) l else skipn (length l - Z.to_nat (- z)) l))
  | VStr s, VInt z => Ok (VStr (slice_from z s))
  | _, _ => Unmodelled
  end.
(* s.split(sep, 1) for a one-character separator: [s] when the separator does not occur, else [before; after] of the
   FIRST occurrence.  Other limits / separators are outside the modelled fragment. *)
Definition py_split_max (x sep n : pyval) : res pyval :=
  match x, sep, n with
  | VStr s, VStr [a], VInt 1 =>
      Ok (VList (match split1_c a s with Some (l, v) => [VStr l; VStr v] | None => [VStr s] end))
  | VStr s, VStr [], VInt _ => Err ValueError
  | _, _, _ => Unmodelled
  end.
(* while test(state): body(state)   The source loop has no bound; the translation recurses on the explicit parameter
   `fuel` (as many iterations as fuel allows): a loop that would need more gives the distinct error OutOfFuel, which the
   refinement lemma of each translated function must show unreachable for the fuel it names.  The state is the list of
   the variables carried from one iteration to the next, in the (sorted) order the translator lists them. *)
Inductive wloop_ctl := WNext (s : list pyval) | WBreak (s : list pyval) | WReturn (v : pyval).
Fixpoint py_while (fuel : nat) (test : list pyval -> res pyval) (body : list pyval -> res wloop_ctl) (s : list pyval)
  : res (list pyval + pyval) :=
  b <- test s ;;
  if py_truthy b then
    match fuel with
    | O => Err OutOfFuel
    | S f => c <- body s ;;
             match c with WNext s' => py_while f test body s' | WBreak s' => Ok (inl s') | WReturn v => Ok (inr v) end
    end
  else Ok (inl s).

(* t._replace(field=v) on a named tuple (injected as the object of its fields, in field order): a copy with that field
   changed; an unknown field is Python's ValueError *)
Definition py_nt_replace (o : pyval) (k : pystr) (v : pyval) : res pyval :=
  match o with
  | VObj f => if has_key k f then Ok (VObj (aset k v f)) else Err ValueError
  | _ => Unmodelled
  end.
