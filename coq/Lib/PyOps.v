(* Lib/PyOps.v — the dynamic Python operations that translated source functions (coq/Gen/Src_*.v, emitted by
   harness/py2v.py from /repo/src on every run) are expressed in.  Each operation is total: a type it does not
   model gives Unmodelled, an operation Python would refuse gives Err <exception>. *)
From Verif Require Import Lib.Base Lib.PyStr.
Open Scope Z_scope.

Definition py_getattr (o : pyval) (k : pystr) : res pyval :=
  match o with VObj f => match assoc k f with Some v => Ok v | None => Err AttributeError end | _ => Err AttributeError end.
Definition as_int (v : pyval) : res Z :=
  match v with VInt z => Ok z | VBool b => Ok (if b then 1 else 0) | _ => Err TypeError end.
Definition py_cmp (op : Z -> Z -> bool) (a b : pyval) : res pyval :=
  x <- as_int a ;; y <- as_int b ;; Ok (VBool (op x y)).
Definition py_eq (a b : pyval) : res pyval := Ok (VBool (pyval_eqb a b)).      (* no int/bool cross equality needed here *)
Definition py_ne (a b : pyval) : res pyval := Ok (VBool (negb (pyval_eqb a b))).
Definition py_is_none (a : pyval) : res pyval := Ok (VBool (match a with VNone => true | _ => false end)).
(* x in container: dict keys, list elements, substring *)
Definition py_in (k c : pyval) : res pyval :=
  match c with
  | VDict m => match k with VStr s => Ok (VBool (has_key s m)) | _ => Ok (VBool false) end
  | VList l => Ok (VBool (existsb (pyval_eqb k) l))
  | VStr s => match k with VStr p => Ok (VBool (contains p s)) | _ => Err TypeError end
  | _ => Err TypeError
  end.
Definition py_not (a : pyval) : res pyval := Ok (VBool (negb (py_truthy a))).
Definition py_getitem (d k : pyval) : res pyval :=
  match d, k with
  | VDict m, VStr s => match assoc s m with Some v => Ok v | None => Err KeyError end
  | VList l, VInt i => if i <? 0 then Unmodelled else match nth_error l (Z.to_nat i) with Some v => Ok v | None => Err IndexError end
  | VStr s, VInt i => if i <? 0 then Unmodelled else match nth_error s (Z.to_nat i) with Some c => Ok (VStr [c]) | None => Err IndexError end
  | _, _ => Unmodelled
  end.
Definition py_dict_get (d k dflt : pyval) : res pyval :=
  match d, k with VDict m, VStr s => Ok (match assoc s m with Some v => v | None => dflt end) | _, _ => Unmodelled end.
(* x[:n] on lists and strings *)
Definition py_slice_to (x n : pyval) : res pyval :=
  match x, n with
  | VList l, VInt z => Ok (VList (if 0 <=? z then firstn (Z.to_nat z) l else firstn (length l - Z.to_nat (- z)) l))
  | VStr s, VInt z => Ok (VStr (slice_to z s))
  | _, _ => Unmodelled
  end.
Definition py_endswith (x suffix : pyval) : res pyval :=
  match x, suffix with VStr s, VStr p => Ok (VBool (ends_with p s)) | _, _ => Err AttributeError end.
Fixpoint all_strs (l : list pyval) : option (list pystr) :=
  match l with
  | [] => Some []
  | VStr s :: r => option_map (cons s) (all_strs r)
  | _ => None
  end.
Definition py_join (sep xs : pyval) : res pyval :=
  match sep, xs with
  | VStr s, VList l => match all_strs l with Some ss => Ok (VStr (join s ss)) | None => Err TypeError end
  | _, _ => Unmodelled
  end.
(* "{}{}...".format(a, b, ...) with only bare placeholders: str() of each argument, concatenated *)
Definition py_str (v : pyval) : res pystr :=
  match v with VStr s => Ok s | VInt z => Ok (str_of_Z z) | _ => Unmodelled end.
Fixpoint py_format_concat (args : list pyval) : res pystr :=
  match args with
  | [] => Ok []
  | a :: r => s <- py_str a ;; t <- py_format_concat r ;; Ok (s ++ t)%list
  end.

(* for x in xs: if test(x): raise e   — the loop either raises at the first offending element or falls through *)
Fixpoint py_for_raise (xs : list pyval) (test : pyval -> res pyval) (e : exc) : res unit :=
  match xs with
  | [] => Ok tt
  | x :: r => b <- test x ;; if py_truthy b then Err e else py_for_raise r test e
  end.
Definition py_iter (v : pyval) : res (list pyval) :=
  match v with VList l => Ok l | _ => Unmodelled end.
