(* Lib/PyStr.v — the Python str operations the modelled code uses, over code-point lists.
   Every function here is validated against CPython by the correspondence run of harness/drv_C14.py
   (and again by every property driver that uses it). *)
From Coq Require Import Decimal DecimalNat.
From Verif Require Import Lib.Base.
Open Scope N_scope.

(* ---- str.isspace / strip ---- *)
Definition is_space (c : N) : bool :=
  ((9 <=? c) && (c <=? 13)) || ((28 <=? c) && (c <=? 32)) || (c =? 133) || (c =? 160) || (c =? 5760)
  || ((8192 <=? c) && (c <=? 8202)) || (c =? 8232) || (c =? 8233) || (c =? 8239) || (c =? 8287)
  || (c =? 12288).
Fixpoint lstrip (s : pystr) : pystr :=
  match s with c :: r => if is_space c then lstrip r else s | [] => [] end.
Definition strip (s : pystr) : pystr := List.rev (lstrip (List.rev (lstrip s))).

(* ---- decimal rendering ("{}".format(n), str(n)) and int() ---- *)
Fixpoint uint_codes (d : uint) : pystr :=
  match d with
  | Nil => []
  | D0 d => 48 :: uint_codes d | D1 d => 49 :: uint_codes d | D2 d => 50 :: uint_codes d
  | D3 d => 51 :: uint_codes d | D4 d => 52 :: uint_codes d | D5 d => 53 :: uint_codes d
  | D6 d => 54 :: uint_codes d | D7 d => 55 :: uint_codes d | D8 d => 56 :: uint_codes d
  | D9 d => 57 :: uint_codes d
  end.
Definition digit (c : N) (d : uint) : option uint :=
  match c with
  | 48 => Some (D0 d) | 49 => Some (D1 d) | 50 => Some (D2 d) | 51 => Some (D3 d)
  | 52 => Some (D4 d) | 53 => Some (D5 d) | 54 => Some (D6 d) | 55 => Some (D7 d)
  | 56 => Some (D8 d) | 57 => Some (D9 d)
  | _ => None
  end.
Fixpoint codes_uint (s : pystr) : option uint :=
  match s with
  | [] => Some Nil
  | c :: r => match codes_uint r with None => None | Some d => digit c d end
  end.
Definition str_of_nat (n : nat) : pystr := uint_codes (Nat.to_uint n).
Definition str_of_Z (z : Z) : pystr :=
  match z with
  | Z0 => [48]
  | Zpos p => str_of_nat (Pos.to_nat p)
  | Zneg p => 45 :: str_of_nat (Pos.to_nat p)
  end.
Definition is_digit (c : N) : bool := (48 <=? c) && (c <=? 57).

(* strict: a non-empty string of ASCII digits *)
Definition nat_of_digits (s : pystr) : option nat :=
  match s with [] => None | _ => option_map Nat.of_uint (codes_uint s) end.

(* Python's int(str): surrounding whitespace, an optional sign, ASCII digits with single
   underscores between digits.  Any other code point that Python might still accept as a digit
   (non-ASCII decimal digits) makes the result Unmodelled. *)
Fixpoint drop_underscores (prev_digit : bool) (s : pystr) : option pystr :=
  match s with
  | [] => if prev_digit then Some [] else None
  | c :: r =>
      if c =? 95 then (if prev_digit then drop_underscores false r else None)
      else if is_digit c then option_map (cons c) (drop_underscores true r)
      else None
  end.
(* int() does NOT strip what str.strip() strips: CPython (unicodeobject.c _PyUnicode_TransformDecimalAndSpaceToASCII,
   then longobject.c PyLong_FromString) maps every NON-ASCII str.isspace() character to a blank and then skips only the
   C-locale blanks \t \n \v \f \r and ' ' at both ends; the ASCII separators U+001C..U+001F are str.isspace() but
   are not skipped: int("\x1c3") raises ValueError while "\x1c3".strip() == "3". *)
Definition is_int_space (c : N) : bool := is_space c && negb ((28 <=? c) && (c <=? 31)).
Fixpoint lstrip_int (s : pystr) : pystr :=
  match s with c :: r => if is_int_space c then lstrip_int r else s | [] => [] end.
Definition strip_int (s : pystr) : pystr := List.rev (lstrip_int (List.rev (lstrip_int s))).
Definition py_int (s : pystr) : res Z :=
  if existsb (fun c => 127 <? c) s then
    (if forallb (fun c => is_space c || (c <? 128)) s then
       (* only non-ASCII white space: handled by strip_int below *)
       let t := strip_int s in
       let '(neg, body) := match t with 45 :: r => (true, r) | 43 :: r => (false, r) | _ => (false, t) end in
       match drop_underscores false body with
       | Some ds => match nat_of_digits ds with
                    | Some n => Ok (if neg then - Z.of_nat n else Z.of_nat n)%Z
                    | None => Err ValueError end
       | None => Err ValueError
       end
     else Unmodelled)
  else
    let t := strip_int s in
    let '(neg, body) := match t with 45 :: r => (true, r) | 43 :: r => (false, r) | _ => (false, t) end in
    match drop_underscores false body with
    | Some ds => match nat_of_digits ds with
                 | Some n => Ok (if neg then - Z.of_nat n else Z.of_nat n)%Z
                 | None => Err ValueError end
    | None => Err ValueError
    end.

(* ---- slicing with Python semantics for v[:n] and v[n:] (n may be negative) ---- *)
Definition slice_to (n : Z) (s : pystr) : pystr :=
  if (0 <=? n)%Z then firstn (Z.to_nat n) s
  else firstn (length s - Z.to_nat (- n)) s.
Definition slice_from (n : Z) (s : pystr) : pystr :=
  if (0 <=? n)%Z then skipn (Z.to_nat n) s
  else skipn (length s - Z.to_nat (- n)) s.

(* ---- split on a one-character separator: s.split(c) (always non-empty result) ---- *)
Definition cons_hd (c : N) (l : list pystr) : list pystr :=
  match l with [] => [[c]] | x :: xs => (c :: x) :: xs end.
Fixpoint split_c (sep : N) (s : pystr) : list pystr :=
  match s with
  | [] => [[]]
  | c :: r => if c =? sep then [] :: split_c sep r else cons_hd c (split_c sep r)
  end.
(* s.split(c, 1): None when the separator does not occur *)
Fixpoint split1_c (sep : N) (s : pystr) : option (pystr * pystr) :=
  match s with
  | [] => None
  | c :: r => if c =? sep then Some ([], r)
              else match split1_c sep r with Some (a, b) => Some (c :: a, b) | None => None end
  end.

(* ---- split on a two-character separator [a;b]: s.split("ab") ---- *)
Fixpoint split_cc (a b : N) (s : pystr) : list pystr :=
  match s with
  | [] => [[]]
  | c :: r =>
      match r with
      | d :: r' => if (c =? a) && (d =? b) then [] :: split_cc a b r'
                   else cons_hd c (split_cc a b r)
      | [] => [[c]]
      end
  end.

(* ---- join ---- *)
Fixpoint join (sep : pystr) (l : list pystr) : pystr :=
  match l with
  | [] => []
  | [x] => x
  | x :: r => x ++ sep ++ join sep r
  end.

Fixpoint starts_with (p s : pystr) : bool :=
  match p, s with
  | [], _ => true
  | x :: p', y :: s' => (x =? y) && starts_with p' s'
  | _ :: _, [] => false
  end.
Fixpoint contains (p s : pystr) : bool :=     (* p in s *)
  match s with
  | [] => match p with [] => true | _ => false end
  | _ :: r => starts_with p s || contains p r
  end.
Definition ends_with (p s : pystr) : bool := starts_with (List.rev p) (List.rev s).
Definition replace_c (a b : N) (s : pystr) : pystr := List.map (fun c => if c =? a then b else c) s.

(* =================================== general facts =================================== *)

Lemma uint_codes_digits d : forallb is_digit (uint_codes d) = true.
Proof. induction d; cbn; auto. Qed.
Lemma codes_uint_rt d : codes_uint (uint_codes d) = Some d.
Proof. induction d; cbn [uint_codes codes_uint]; try rewrite IHd; reflexivity. Qed.
Lemma to_uint_nonnil n : Nat.to_uint n <> Nil.
Proof.
  intro H. pose proof (DecimalNat.Unsigned.to_of (Nat.to_uint n)) as E.
  rewrite DecimalNat.Unsigned.of_to in E. rewrite H in E at 2. cbn in E. rewrite H in E. discriminate.
Qed.
Lemma str_of_nat_nonempty n : str_of_nat n <> [].
Proof. unfold str_of_nat. pose proof (to_uint_nonnil n). destruct (Nat.to_uint n); cbn; congruence. Qed.
Lemma str_of_nat_digits n : forallb is_digit (str_of_nat n) = true.
Proof. apply uint_codes_digits. Qed.
Lemma nat_of_digits_rt n : nat_of_digits (str_of_nat n) = Some n.
Proof.
  unfold nat_of_digits. pose proof (str_of_nat_nonempty n) as Hne.
  destruct (str_of_nat n) eqn:E; [congruence|].
  rewrite <- E. unfold str_of_nat. rewrite codes_uint_rt. cbn. now rewrite DecimalNat.Unsigned.of_to.
Qed.

Lemma digit_not_space d : is_digit d = true -> is_space d = false.
Proof.
  unfold is_digit. intros H. apply andb_true_iff in H as [A B]. apply N.leb_le in A, B. unfold is_space.
  repeat match goal with
  | |- _ || _ = false => apply orb_false_iff; split
  | |- _ && _ = false => apply andb_false_iff; first [left; apply N.leb_gt; lia | right; apply N.leb_gt; lia]
  | |- (_ =? _) = false => apply N.eqb_neq; lia
  end.
Qed.

Lemma digit_not_int_space d : is_digit d = true -> is_int_space d = false.
Proof. intros H. unfold is_int_space. now rewrite (digit_not_space d H). Qed.

Lemma drop_underscores_digits s : s <> [] -> forallb is_digit s = true -> drop_underscores false s = Some s.
Proof.
  assert (G : forall s b, forallb is_digit s = true -> (s <> [] \/ b = true) -> drop_underscores b s = Some s).
  { induction s0 as [|c r IH]; intros b Hd Hb; cbn.
    - destruct Hb as [Hb| ->]; [congruence|reflexivity].
    - cbn in Hd. apply andb_true_iff in Hd as [Hc Hr].
      assert (c =? 95 = false) as ->.
      { apply N.eqb_neq. unfold is_digit in Hc. apply andb_true_iff in Hc as [A B]. apply N.leb_le in A, B. lia. }
      rewrite Hc. rewrite IH; auto. }
  intros Hne Hd. apply G; auto.
Qed.

Lemma py_int_str_of_nat n : py_int (str_of_nat n) = Ok (Z.of_nat n).
Proof.
  pose proof (str_of_nat_digits n) as Hd. pose proof (str_of_nat_nonempty n) as Hne.
  unfold py_int.
  assert (Hascii : existsb (fun c => 127 <? c) (str_of_nat n) = false).
  { apply not_true_is_false. intro E. apply existsb_exists in E as [c [Hin Hc]].
    rewrite forallb_forall in Hd. apply Hd in Hin. unfold is_digit in Hin.
    apply andb_true_iff in Hin as [_ B]. apply N.leb_le in B. apply N.ltb_lt in Hc. lia. }
  rewrite Hascii.
  assert (Hstrip : strip_int (str_of_nat n) = str_of_nat n).
  { unfold strip_int. destruct (str_of_nat n) as [|c r] eqn:E; [congruence|].
    cbn in Hd. apply andb_true_iff in Hd as [Hc Hr].
    cbn [lstrip_int]. rewrite (digit_not_int_space c Hc).
    destruct (List.rev (c :: r)) as [|x xs] eqn:Er.
    { apply (f_equal (@length N)) in Er. rewrite rev_length in Er. cbn in Er. lia. }
    assert (Hx : is_digit x = true).
    { assert (In x (c :: r)) as Hin by (apply in_rev; rewrite Er; now left).
      destruct Hin as [<-|Hin]; [exact Hc|]. rewrite forallb_forall in Hr. now apply Hr. }
    cbn [lstrip_int]. rewrite (digit_not_int_space x Hx). rewrite <- Er. apply rev_involutive. }
  rewrite Hstrip.
  destruct (str_of_nat n) as [|c r] eqn:E; [congruence|].
  assert (c <> 45 /\ c <> 43) as [H45 H43].
  { cbn in Hd. apply andb_true_iff in Hd as [Hc _]. unfold is_digit in Hc.
    apply andb_true_iff in Hc as [A B]. apply N.leb_le in A, B. lia. }
  assert ((match c :: r with 45 :: r0 => (true, r0) | 43 :: r0 => (false, r0) | _ => (false, c :: r) end)
          = (false, c :: r)) as ->.
  { destruct c as [|p]; [reflexivity|].
    do 6 (destruct p as [p|p|]; try reflexivity); exfalso; (apply H45 + apply H43); reflexivity. }
  rewrite drop_underscores_digits by (auto; congruence). rewrite <- E, nat_of_digits_rt. reflexivity.
Qed.

(* ---- split / join ---- *)
Lemma split1_c_digits sep d rest :
  forallb (fun c => negb (c =? sep)) d = true -> split1_c sep (d ++ sep :: rest) = Some (d, rest).
Proof.
  induction d as [|c r IH]; cbn; [now rewrite N.eqb_refl|]. intros H.
  apply andb_true_iff in H as [Hc Hr]. apply negb_true_iff in Hc. rewrite Hc. now rewrite IH.
Qed.

Definition no_c (sep : N) (s : pystr) : bool := forallb (fun c => negb (c =? sep)) s.

Lemma split_c_nosep sep s : no_c sep s = true -> split_c sep s = [s].
Proof.
  induction s as [|c r IH]; cbn; [reflexivity|]. intros H. apply andb_true_iff in H as [Hc Hr].
  apply negb_true_iff in Hc. rewrite Hc. rewrite IH by exact Hr. reflexivity.
Qed.
Lemma split_c_app sep a rest :
  no_c sep a = true -> split_c sep (a ++ sep :: rest) = a :: split_c sep rest.
Proof.
  induction a as [|c r IH]; cbn; [now rewrite N.eqb_refl|]. intros H.
  apply andb_true_iff in H as [Hc Hr]. apply negb_true_iff in Hc. rewrite Hc. rewrite IH by exact Hr.
  reflexivity.
Qed.
Theorem split_c_join sep l :
  l <> [] -> forallb (no_c sep) l = true -> split_c sep (join [sep] l) = l.
Proof.
  induction l as [|x r IH]; [congruence|]. intros _ H. cbn in H. apply andb_true_iff in H as [Hx Hr].
  destruct r as [|y r'].
  - cbn. now apply split_c_nosep.
  - change (join [sep] (x :: y :: r')) with (x ++ sep :: join [sep] (y :: r')).
    rewrite split_c_app by exact Hx. rewrite IH; [reflexivity|congruence|exact Hr].
Qed.

(* two-character separator: the exact round-trip condition *)
Fixpoint no_cc (a b : N) (s : pystr) : bool :=     (* "ab" does not occur in s *)
  match s with
  | [] => true
  | c :: r => match r with
              | d :: _ => negb ((c =? a) && (d =? b)) && no_cc a b r
              | [] => true
              end
  end.
Definition last_is (a : N) (s : pystr) : bool :=
  match List.rev s with c :: _ => c =? a | [] => false end.

Lemma split_cc_nosep a b s : no_cc a b s = true -> split_cc a b s = [s].
Proof.
  induction s as [|c r IH]; [reflexivity|]. intros H. cbn [no_cc] in H. cbn [split_cc].
  destruct r as [|d r']; [reflexivity|].
  apply andb_true_iff in H as [Hcd Hr]. apply negb_true_iff in Hcd. rewrite Hcd.
  rewrite IH by exact Hr. reflexivity.
Qed.

(* x does not contain "ab" and does not end in a (so it cannot form "ab" with the separator's
   first character); the separator is the same character twice in the code (";;"), which is
   the case proved here: a = b. *)
Lemma last_is_cons a c d r : last_is a (c :: d :: r) = last_is a (d :: r).
Proof.
  unfold last_is. cbn [List.rev]. destruct (List.rev r ++ [d]) eqn:E.
  - destruct (List.rev r); discriminate.
  - reflexivity.
Qed.

Lemma split_cc_app a x rest :
  no_cc a a x = true -> last_is a x = false ->
  split_cc a a (x ++ a :: a :: rest) = x :: split_cc a a rest.
Proof.
  induction x as [|c r IH]; intros Hn Hl.
  - cbn. rewrite N.eqb_refl. reflexivity.
  - destruct r as [|d r'].
    + (* x = [c], c <> a *)
      unfold last_is in Hl. cbn in Hl.
      change ([c] ++ a :: a :: rest) with (c :: a :: a :: rest).
      assert (E : split_cc a a (c :: a :: a :: rest) = cons_hd c (split_cc a a (a :: a :: rest))).
      { cbn [split_cc]. rewrite Hl. reflexivity. }
      rewrite E. specialize (IH eq_refl eq_refl). cbn [app] in IH. rewrite IH. reflexivity.
    + cbn [no_cc] in Hn. apply andb_true_iff in Hn as [Hcd Hr]. apply negb_true_iff in Hcd.
      rewrite last_is_cons in Hl.
      change ((c :: d :: r') ++ a :: a :: rest) with (c :: d :: (r' ++ a :: a :: rest)).
      assert (E : split_cc a a (c :: d :: r' ++ a :: a :: rest)
                  = cons_hd c (split_cc a a ((d :: r') ++ a :: a :: rest))).
      { cbn [split_cc app]. rewrite Hcd. reflexivity. }
      rewrite E. rewrite IH by assumption. reflexivity.
Qed.

Theorem split_cc_join a l :
  l <> [] ->
  forallb (no_cc a a) l = true ->
  forallb (fun x => negb (last_is a x)) (removelast l) = true ->
  split_cc a a (join [a; a] l) = l.
Proof.
  induction l as [|x r IH]; [congruence|]. intros _ Hn Hl.
  cbn [forallb] in Hn. apply andb_true_iff in Hn as [Hx Hr].
  destruct r as [|y r'].
  - cbn. now apply split_cc_nosep.
  - change (join [a; a] (x :: y :: r')) with (x ++ a :: a :: join [a; a] (y :: r')).
    cbn [removelast forallb] in Hl. apply andb_true_iff in Hl as [Hlx Hlr]. apply negb_true_iff in Hlx.
    rewrite split_cc_app by assumption. rewrite IH; [reflexivity|congruence|exact Hr|exact Hlr].
Qed.
