(* Lib/Qs.v — urllib.parse.urlencode / parse_qsl / parse_qs on str (code points), built from
   Lib/Urlenc.v (quote_plus / unquote_plus on bytes) and Lib/Utf8.v.
   Fragment: the query text handed to parse_qsl must be ASCII (what urlencode emits); percent-decoded
   bytes that are not valid UTF-8 make the result Unmodelled (Python substitutes U+FFFD).
   Validated against CPython by harness/drv_C10.py. *)
From Verif Require Import Lib.Base Lib.PyStr Lib.Urlenc Lib.Utf8.
Open Scope N_scope.

Definition amp : N := 38.
Definition eqs : N := 61.

(* quote_plus(str) : None = UnicodeEncodeError (lone surrogate) *)
Definition quote_str (s : pystr) : option pystr := option_map quote_plus (utf8_encode s).

Fixpoint encode_pairs (l : list (pystr * pystr)) : option (list pystr) :=
  match l with
  | [] => Some []
  | (k, v) :: r =>
      match quote_str k, quote_str v, encode_pairs r with
      | Some k', Some v', Some r' => Some ((k' ++ eqs :: v') :: r')
      | _, _, _ => None
      end
  end.
(* urlencode(list of pairs, doseq=False) for str keys and str/bytes values *)
Definition urlencode (l : list (pystr * pystr)) : option pystr := option_map (join [amp]) (encode_pairs l).

Definition is_ascii (s : pystr) : bool := forallb (fun c => c <? 128) s.
Definition nonempty (s : pystr) : bool := match s with [] => false | _ => true end.

(* unquote(x.replace('+', ' ')) for an ASCII x *)
Definition unquote_str (s : pystr) : option pystr := utf8_decode (unquote_plus s).

Fixpoint parse_fields (fs : list pystr) : res (list (pystr * pystr)) :=
  match fs with
  | [] => Ok []
  | f :: r =>
      rest <- parse_fields r ;;
      match f with
      | [] => Ok rest
      | _ =>
        match split1_c eqs f with
        | None => Ok rest
        | Some (n, v) =>
            match v with
            | [] => Ok rest                                  (* blank values are dropped *)
            | _ => match unquote_str n, unquote_str v with
                   | Some n', Some v' => Ok ((n', v') :: rest)
                   | _, _ => Unmodelled
                   end
            end
        end
      end
  end.
Definition parse_qsl (qs : pystr) : res (list (pystr * pystr)) :=
  if negb (is_ascii qs) then Unmodelled
  else match qs with [] => Ok [] | _ => parse_fields (split_c amp qs) end.

(* parse_qs: values grouped by name, names in order of first appearance *)
Fixpoint group_add (k v : pystr) (d : list (pystr * list pystr)) : list (pystr * list pystr) :=
  match d with
  | [] => [(k, [v])]
  | (k', l) :: r => if str_eqb k k' then (k', l ++ [v]) :: r else (k', l) :: group_add k v r
  end.
Definition group_pairs (l : list (pystr * pystr)) : list (pystr * list pystr) :=
  fold_left (fun d kv => group_add (fst kv) (snd kv) d) l [].
Definition parse_qs (qs : pystr) : res (list (pystr * list pystr)) :=
  l <- parse_qsl qs ;; Ok (group_pairs l).
