(* Lib/RpTy.v — parameter-type codes for the message-schema tables regenerated into Gen/RpTables.v
   (used by Model/IdToken.v and Model/RpState.v, properties C08 and C09). *)
From Verif Require Import Lib.Base.

(* how Message._add_value treats a declared parameter (vtyp, deserialiser), null_allowed = False *)
Inductive ctype :=
| CStr        (* (str, _, None, None, False) *)
| CInt        (* (int, _, None, None, False) *)
| CBool       (* (bool, _, None, None, False) *)
| CStrList    (* ([str], _, list_serializer, list_deserializer, False) *)
| CSpList     (* ([str], _, sp_sep_list_serializer, sp_sep_list_deserializer, False) *)
| CJwt        (* (Message, _, msg_ser, None, False): the id_token parameter of an authorization response *)
| COther.     (* anything else: outside the modelled fragment *)

Record pspec := mkPS { ps_name : pystr; ps_type : ctype; ps_required : bool }.

Fixpoint find_spec (k : pystr) (spec : list pspec) : option pspec :=
  match spec with
  | [] => None
  | p :: r => if str_eqb k (ps_name p) then Some p else find_spec k r
  end.
