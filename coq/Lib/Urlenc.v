(* Lib/Urlenc.v — urllib.parse.quote_plus / unquote_plus on bytes (the str layer is UTF-8 around it).
   Shared by C06, C10, C13, C19.  Per-byte facts are finite sweeps over all 256 byte values (the true
   domain), lifted by forallb_forall. *)
From Verif Require Import Lib.Base.
Open Scope N_scope.
Notation bytes := (list N).

(* ---- hex ---- *)
Definition hexdigit (n : N) : N := if n <? 10 then 48 + n else 55 + n.          (* upper case, as quote() emits *)
Definition hexval (c : N) : option N :=
  if (48 <=? c) && (c <=? 57) then Some (c - 48)
  else if (65 <=? c) && (c <=? 70) then Some (c - 55)
  else if (97 <=? c) && (c <=? 102) then Some (c - 87) else None.

(* ---- quote_plus / unquote_plus on bytes (the str layer is UTF-8 encode/decode around this) ---- *)
Definition unreserved (c : N) : bool :=
  ((65 <=? c) && (c <=? 90)) || ((97 <=? c) && (c <=? 122)) || ((48 <=? c) && (c <=? 57))
  || (c =? 95) || (c =? 46) || (c =? 45) || (c =? 126).                          (* _ . - ~ *)
Definition quote1 (c : N) : bytes :=
  if unreserved c then [c] else if c =? 32 then [43] else [37; hexdigit (c / 16); hexdigit (c mod 16)].
Definition quote_plus (s : bytes) : bytes := flat_map quote1 s.

Fixpoint unquote_plus (s : bytes) : bytes :=
  match s with
  | [] => []
  | c :: t =>
    if c =? 37 then
      match t with
      | h :: l :: r => match hexval h, hexval l with
                       | Some a, Some b => (16 * a + b) :: unquote_plus r
                       | _, _ => 37 :: unquote_plus t
                       end
      | _ => 37 :: unquote_plus t
      end
    else (if c =? 43 then 32 else c) :: unquote_plus t
  end.

(* finite sweep over all byte values, lifted to a universally quantified lemma *)
Definition byte_ok (c : N) : bool :=
  match quote1 c with
  | [x] => negb (x =? 37) && (if x =? 43 then c =? 32 else (x =? c) && negb (c =? 43))
  | [p; h; l] => (p =? 37) && match hexval h, hexval l with Some a, Some b => 16 * a + b =? c | _, _ => false end
  | _ => false
  end.
Definition all_bytes : list N := map N.of_nat (seq 0 256).
Lemma sweep : forallb byte_ok all_bytes = true.
Proof. vm_compute. reflexivity. Qed.
Lemma byte_ok_all c : c < 256 -> byte_ok c = true.
Proof.
  intros H. pose proof sweep as S. rewrite forallb_forall in S. apply S.
  unfold all_bytes. apply in_map_iff. exists (N.to_nat c). split; [apply N2Nat.id|]. apply in_seq. lia.
Qed.

Lemma unquote_quote1 c rest : c < 256 -> unquote_plus (quote1 c ++ rest) = c :: unquote_plus rest.
Proof.
  intros H. pose proof (byte_ok_all c H) as B. unfold byte_ok in B.
  destruct (quote1 c) as [|x [|h [|l [|? ?]]]] eqn:Q; try discriminate.
  - apply andb_true_iff in B as [B1 B2]. apply negb_true_iff in B1. cbn [app unquote_plus]. rewrite B1.
    destruct (x =? 43) eqn:E.
    + apply N.eqb_eq in B2. now subst.
    + apply andb_true_iff in B2 as [B2 _]. apply N.eqb_eq in B2. now subst.
  - apply andb_true_iff in B as [B1 B2]. apply N.eqb_eq in B1. subst x. cbn [app unquote_plus].
    change (37 =? 37) with true. cbn match.
    destruct (hexval h) as [a|]; [|discriminate]. destruct (hexval l) as [b|]; [|discriminate].
    apply N.eqb_eq in B2. now subst.
Qed.

Definition is_bytes (s : bytes) : Prop := Forall (fun c => c < 256) s.

Theorem unquote_quote s : is_bytes s -> unquote_plus (quote_plus s) = s.
Proof.
  induction 1 as [|c s Hc _ IH]; [reflexivity|]. cbn [quote_plus flat_map]. fold (quote_plus s).
  rewrite unquote_quote1 by exact Hc. now rewrite IH.
Qed.

(* quoted text never contains the delimiters of the query syntax *)
Definition delim_free1 (c : N) : bool := forallb (fun x => negb ((x =? 38) || (x =? 61) || (x =? 35) || (x =? 63))) (quote1 c).
Lemma sweep2 : forallb delim_free1 all_bytes = true. Proof. vm_compute. reflexivity. Qed.
Lemma quote_delim_free s : is_bytes s -> forallb (fun x => negb ((x =? 38) || (x =? 61) || (x =? 35) || (x =? 63))) (quote_plus s) = true.
Proof.
  induction 1 as [|c s Hc _ IH]; [reflexivity|]. cbn [quote_plus flat_map]. fold (quote_plus s).
  rewrite forallb_app, IH, andb_true_r.
  pose proof sweep2 as S. rewrite forallb_forall in S. apply (S c).
  unfold all_bytes. apply in_map_iff. exists (N.to_nat c). split; [apply N2Nat.id|]. apply in_seq. lia.
Qed.
Example meta : unquote_plus (quote_plus [32;43;38;61;37;35;34;39;195;165]) = [32;43;38;61;37;35;34;39;195;165].
Proof. vm_compute. reflexivity. Qed.
