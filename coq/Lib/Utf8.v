(* Lib/Utf8.v — str.encode("utf-8") / bytes.decode("utf-8") between code-point lists and byte lists.
   Strict decoder (overlong forms, surrogates and values above U+10FFFF are refused: Python's
   errors="replace" would substitute U+FFFD there; callers treat None as outside the modelled fragment).
   Used by C10 (form encoding).  Validated against CPython by harness/drv_C10.py. *)
From Verif Require Import Lib.Base.
Open Scope N_scope.

Definition is_scalar (c : N) : bool := (c <? 55296) || ((57343 <? c) && (c <? 1114112)).

Definition utf8_enc1 (c : N) : list N :=
  if c <? 128 then [c]
  else if c <? 2048 then [192 + c / 64; 128 + c mod 64]
  else if c <? 65536 then [224 + c / 4096; 128 + (c / 64) mod 64; 128 + c mod 64]
  else [240 + c / 262144; 128 + (c / 4096) mod 64; 128 + (c / 64) mod 64; 128 + c mod 64].

(* None when the string holds a lone surrogate or a non-code-point: str.encode raises UnicodeEncodeError *)
Definition utf8_encode (s : pystr) : option (list N) :=
  if forallb is_scalar s then Some (flat_map utf8_enc1 s) else None.

Definition is_cont (b : N) : bool := (128 <=? b) && (b <? 192).

Fixpoint utf8_decode (b : list N) : option pystr :=
  match b with
  | [] => Some []
  | b0 :: r =>
      if b0 <? 128 then option_map (cons b0) (utf8_decode r)
      else if b0 <? 192 then None
      else if b0 <? 224 then
        match r with
        | b1 :: r1 =>
            let c := (b0 - 192) * 64 + (b1 - 128) in
            if is_cont b1 && (128 <=? c) then option_map (cons c) (utf8_decode r1) else None
        | _ => None
        end
      else if b0 <? 240 then
        match r with
        | b1 :: b2 :: r2 =>
            let c := (b0 - 224) * 4096 + (b1 - 128) * 64 + (b2 - 128) in
            if is_cont b1 && is_cont b2 && (2048 <=? c) && is_scalar c
            then option_map (cons c) (utf8_decode r2) else None
        | _ => None
        end
      else if b0 <? 248 then
        match r with
        | b1 :: b2 :: b3 :: r3 =>
            let c := (b0 - 240) * 262144 + (b1 - 128) * 4096 + (b2 - 128) * 64 + (b3 - 128) in
            if is_cont b1 && is_cont b2 && is_cont b3 && (65536 <=? c) && (c <? 1114112)
            then option_map (cons c) (utf8_decode r3) else None
        | _ => None
        end
      else None
  end.
