(* Model/Alias.v — C20 alias layer: an instruction set for straight-line request-handling flows, its
   relational semantics over Lib/Heap (copy.deepcopy specified, not implemented), and the executable
   ownership checker `check`.  No proofs in this file. *)
From Coq Require Import List Arith Bool.
From Verif Require Import Lib.Heap.
Import ListNotations.

Inductive instr :=
| ILoadRoot (x : var) (r : loc)            (* x := a static root (cdb, grant_config, a class dict, endpoint.kwargs ...) *)
| IGet (x y : var) (k : key)               (* x := y[k]  /  y.k  /  y.get(k) *)
| INew (x : var)                           (* x := {} / [] / Cls()  *)
| IDeepCopy (x y : var)                    (* x := copy.deepcopy(y) *)
| ISet (x : var) (k : key) (y : var)       (* x[k] := y  /  x.k := y  /  x.append(y) *)
| ISetAtom (x : var) (k : key) (a : nat)   (* x[k] := literal *)
| IUpdate (x y : var)                      (* x.update(y) / x.extend(y); dict(y) is INew + IUpdate *)
| IDel (x : var) (k : key).                (* del x[k] / x.remove(..) *)

(* state = heap, registers, the set of locations allocated by this flow *)
Definition state := (heap * env * (loc -> bool))%type.

Inductive step : instr -> state -> state -> Prop :=
| s_root x r h e f : h r <> None -> f r = false -> step (ILoadRoot x r) (h, e, f) (h, upd_env e x (Ref r), f)
| s_get x y k h e f l o v : e y = Some (Ref l) -> h l = Some o -> lookup k o = Some v ->
    step (IGet x y k) (h, e, f) (h, upd_env e x v, f)
| s_new x h e f l : h l = None -> f l = false ->
    step (INew x) (h, e, f) (upd_heap h l [], upd_env e x (Ref l), fun l' => Nat.eqb l' l || f l')
| s_deepcopy x y h e f h' f' l :
    (* deepcopy allocates new objects only, touches nothing that existed, and the copy is closed:
       every reference inside a new object points to a new object *)
    (forall l0, h l0 <> None -> h' l0 = h l0) ->
    (forall l0, f l0 = true -> f' l0 = true) ->
    (forall l0, f' l0 = true -> f l0 = false ->
       h l0 = None /\ exists o, h' l0 = Some o /\ all_refs_in o (fun l1 => f' l1 = true /\ f l1 = false)) ->
    (forall l0, h' l0 <> None -> h l0 <> None \/ f' l0 = true) ->
    f' l = true -> f l = false ->
    step (IDeepCopy x y) (h, e, f) (h', upd_env e x (Ref l), f')
| s_set x k y h e f l o v : e x = Some (Ref l) -> h l = Some o -> e y = Some v ->
    step (ISet x k y) (h, e, f) (upd_heap h l (setk k v o), e, f)
| s_setatom x k a h e f l o : e x = Some (Ref l) -> h l = Some o ->
    step (ISetAtom x k a) (h, e, f) (upd_heap h l (setk k (Atom a) o), e, f)
| s_update x y h e f l o ly oy : e x = Some (Ref l) -> h l = Some o -> e y = Some (Ref ly) -> h ly = Some oy ->
    step (IUpdate x y) (h, e, f) (upd_heap h l (merge o oy), e, f)
| s_del x k h e f l o : e x = Some (Ref l) -> h l = Some o ->
    step (IDel x k) (h, e, f) (upd_heap h l (delk k o), e, f).

Inductive run : list instr -> state -> state -> Prop :=
| r_nil s : run [] s s
| r_cons i p s1 s2 s3 : step i s1 s2 -> run p s2 s3 -> run (i :: p) s1 s3.

(* ---- the ownership discipline: F = certainly an object allocated by this flow, S = possibly shared ---- *)
Inductive ty := F | S.
Definition tenv := var -> ty.
Definition upd_t (t : tenv) (x : var) (a : ty) : tenv := fun x' => if Nat.eqb x' x then a else t x'.
Definition is_F (a : ty) : bool := match a with F => true | S => false end.

(* checker state: the typing of the registers and one flag "some flow object may hold a shared reference"
   (after which whatever is read out of a flow object is typed S).  Every write needs an F target. *)
Fixpoint check_from (p : list instr) (t : tenv) (tainted : bool) : bool :=
  match p with
  | [] => true
  | ILoadRoot x _ :: r => check_from r (upd_t t x S) tainted
  | IGet x y _ :: r => check_from r (upd_t t x (if is_F (t y) && negb tainted then F else S)) tainted
  | INew x :: r => check_from r (upd_t t x F) tainted
  | IDeepCopy x _ :: r => check_from r (upd_t t x F) tainted
  | ISet x _ y :: r => is_F (t x) && check_from r t (tainted || negb (is_F (t y)))
  | ISetAtom x _ _ :: r => is_F (t x) && check_from r t tainted
  | IUpdate x y :: r => is_F (t x) && check_from r t (tainted || negb (is_F (t y)))
  | IDel x _ :: r => is_F (t x) && check_from r t tainted
  end.
(* every flow starts with nothing allocated and all registers of unknown provenance *)
Definition check (p : list instr) : bool := check_from p (fun _ => S) false.

(* where does a rejected flow write?  (index of the first offending instruction; diagnostics) *)
Fixpoint first_bad (p : list instr) (t : tenv) (tainted : bool) (i : nat) : option nat :=
  match p with
  | [] => None
  | ILoadRoot x _ :: r => first_bad r (upd_t t x S) tainted (1 + i)
  | IGet x y _ :: r => first_bad r (upd_t t x (if is_F (t y) && negb tainted then F else S)) tainted (1 + i)
  | INew x :: r => first_bad r (upd_t t x F) tainted (1 + i)
  | IDeepCopy x _ :: r => first_bad r (upd_t t x F) tainted (1 + i)
  | ISet x _ y :: r => if is_F (t x) then first_bad r t (tainted || negb (is_F (t y))) (1 + i) else Some i
  | ISetAtom x _ _ :: r => if is_F (t x) then first_bad r t tainted (1 + i) else Some i
  | IUpdate x y :: r => if is_F (t x) then first_bad r t (tainted || negb (is_F (t y))) (1 + i) else Some i
  | IDel x _ :: r => if is_F (t x) then first_bad r t tainted (1 + i) else Some i
  end.

(* the register typing the checker ends with (write checks ignored): what the discipline predicts about
   the provenance of each local at the end of a flow *)
Fixpoint types_after (p : list instr) (t : tenv) (tainted : bool) : tenv * bool :=
  match p with
  | [] => (t, tainted)
  | ILoadRoot x _ :: r => types_after r (upd_t t x S) tainted
  | IGet x y _ :: r => types_after r (upd_t t x (if is_F (t y) && negb tainted then F else S)) tainted
  | INew x :: r => types_after r (upd_t t x F) tainted
  | IDeepCopy x _ :: r => types_after r (upd_t t x F) tainted
  | ISet x _ y :: r => types_after r t (tainted || negb (is_F (t y)))
  | ISetAtom _ _ _ :: r => types_after r t tainted
  | IUpdate x y :: r => types_after r t (tainted || negb (is_F (t y)))
  | IDel _ _ :: r => types_after r t tainted
  end.
