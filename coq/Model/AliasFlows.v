(* Model/AliasFlows.v — C20: the request-handling code paths that hand out or write shared objects,
   transcribed from the CURRENT /repo/src as instruction lists over Model/Alias, each next to its
   pre-repair variant.  Conventions of the transcription:
     * a flow is the life of the object a site works on, from where the current request obtains it;
     * `x = dict(y)` / `list(y)` / `y.copy()` is  INew x; IUpdate x y   (a shallow copy shares the entries);
     * list.append / extend are ISet / IUpdate;  attribute access is key access;  literals are atoms;
     * when the code re-reads an attribute it has just assigned from a local, the local's register is used.
   The `is`-relations these transcriptions predict are probed on the real functions by harness/drv_C20.py.
   No proofs in this file. *)
From Coq Require Import List Arith Bool.
From Verif Require Import Lib.Heap Model.Alias.
Import ListNotations.

(* static roots *)
Definition R_cdb := 0.            (* context.cdb *)
Definition R_grant_config := 1.   (* AuthzHandling.grant_config *)
Definition R_c_param := 2.        (* the class-level Message.c_param of the request's class *)
Definition R_ep_kwargs := 3.      (* Endpoint.kwargs / Authorization.resource_indicators_config *)
Definition R_ui_config := 4.      (* UserInfo endpoint: self.config *)
Definition R_rev_ep := 5.         (* TokenRevocation endpoint object (its attributes) *)
Definition R_nocache := 6.        (* OAUTH2_NOCACHE_HEADERS *)
Definition R_token_map := 7.      (* session.token.TOKEN_MAP *)
Definition R_provider_info := 8.
Definition R_claims_kwargs := 9.  (* claims module.kwargs *)

(* keys *)
Definition k_usage := 0.   Definition k_client := 1.  Definition k_tur := 2.    Definition k_code := 3.
Definition k_max := 4.     Definition k_sm := 5.      Definition k_tok := 6.    Definition k_c_param := 7.
Definition k_policy := 8.  Definition k_kwargs := 9.  Definition k_rspc := 10.   Definition k_ri := 11.
Definition k_ac := 12.     Definition k_add := 13.    Definition k_always := 14. Definition k_crp := 15.
Definition k_sec := 16.    Definition k_ui := 17.     Definition k_tts := 18.    Definition k_rev := 19.
Definition k_hdr := 20.    Definition k_tmap := 21.   Definition k_ur := 22.     Definition k_at := 23.
Definition k_pos := 24.    Definition k_scope := 25.  Definition k_fn := 26.     Definition k_gts := 27.

(* ---- 1/2. client_auth.find_token / find_token_info: the schema is copied onto the request instance *)
Definition flow_find_token : list instr :=
  [ INew 0; ISetAtom 0 k_tok 5;            (* request = Cls(..., access_token=...)  built by service.construct *)
    IGet 1 0 k_tok; IDel 0 k_tok;          (* _token = request[token_type]; del request[token_type] *)
    ILoadRoot 2 R_c_param;                 (* request.c_param -> class attribute *)
    INew 3; IUpdate 3 2; ISet 0 k_c_param 3;   (* request.c_param = dict(request.c_param) *)
    ISetAtom 3 k_tok 9 ].                  (* request.c_param[token_type] = SINGLE_OPTIONAL_STRING *)
Definition flow_find_token_prefix : list instr :=      (* before c0d7fb1 *)
  [ INew 0; ISetAtom 0 k_tok 5; IGet 1 0 k_tok; IDel 0 k_tok;
    ILoadRoot 2 R_c_param; ISetAtom 2 k_tok 9 ].

(* ---- 3/4/5. AuthzHandling.usage_rules -> AuthorizationCode.set_defaults -> token helper append *)
Definition flow_usage_rules : list instr :=
  [ ILoadRoot 0 R_grant_config; IGet 1 0 k_usage; IDeepCopy 2 1;         (* _usage_rules = deepcopy(grant_config["usage_rules"]) *)
    ILoadRoot 3 R_cdb; IGet 4 3 k_client; IGet 5 4 k_tur; IDeepCopy 6 5;  (* _per_client = deepcopy(cdb[c]["token_usage_rules"]) *)
    IGet 7 2 k_code; IGet 8 6 k_code; IUpdate 7 8;                       (* _rule.update(_pc) *)
    INew 9; ISet 2 k_at 9;                                               (* elif _pc == {}: _usage_rules[t] = {} *)
    IGet 10 6 k_tok; ISet 2 k_tok 10;                                    (* types only the client has: _usage_rules[t] = _rule *)
    ISetAtom 7 k_max 1;                                                  (* AuthorizationCode.set_defaults: usage_rules["max_usage"] = 1 *)
    IGet 11 7 k_sm; ISetAtom 11 k_pos 77 ].                              (* token helper: _supports_minting.append("refresh_token") *)
Definition flow_usage_rules_prefix : list instr :=     (* before 5e9b783: per-client rules by reference *)
  [ ILoadRoot 3 R_cdb; IGet 4 3 k_client; IGet 5 4 k_tur;
    IGet 7 5 k_code; ISetAtom 7 k_max 1 ].
(* set_defaults when the code type has no rules at all: `usage_rules or {}` is a new dict *)
Definition flow_set_defaults_empty : list instr :=
  [ INew 0; INew 1; ISetAtom 1 k_pos 1; ISet 0 k_sm 1; ISetAtom 0 k_max 1 ].

(* ---- 6/7. resource indicators, authorization and token path *)
Definition flow_resource_indicators : list instr :=
  [ ILoadRoot 0 R_ep_kwargs; IGet 1 0 k_ri;                  (* resource_indicators_config = self....  (or the client's) *)
    INew 2; ISetAtom 2 k_fn 3; INew 3; ISet 3 k_policy 2;    (* policy = {"policy": {"function": ...}} *)
    INew 4; IUpdate 4 1;                                      (* resource_indicators_config = dict(resource_indicators_config) *)
    IUpdate 4 3;                                              (* .update(policy) *)
    IGet 5 4 k_policy; IGet 6 5 k_kwargs;                     (* policy = config["policy"]; policy.get("kwargs", {}) *)
    INew 7; IUpdate 7 6;                                      (* kwargs = dict(...) *)
    INew 8; ISetAtom 8 k_client 1; ISet 7 k_rspc 8 ].         (* kwargs["resource_servers_per_client"] = {client_id: client_id} *)
Definition flow_resource_indicators_prefix : list instr :=   (* before f9f6e4c *)
  [ ILoadRoot 0 R_ep_kwargs; IGet 1 0 k_ri;
    INew 2; ISetAtom 2 k_fn 3; INew 3; ISet 3 k_policy 2;
    IUpdate 1 3;                                              (* the shared config is updated in place *)
    IGet 5 1 k_policy; IGet 6 5 k_kwargs;
    INew 8; ISetAtom 8 k_client 1; ISet 6 k_rspc 8 ].

(* ---- 8. ClaimsInterface._client_claims *)
Definition flow_client_claims : list instr :=
  [ ILoadRoot 0 R_cdb; IGet 1 0 k_client; IGet 2 1 k_add; IGet 3 2 k_always;   (* add_claims_always *)
    IGet 4 3 k_crp; INew 5; IUpdate 5 4;                                          (* _always_add = list(always.get(crp, [])) *)
    IGet 6 3 k_sec; IUpdate 5 6 ].                                                (* _always_add.extend(_always_2) *)
Definition flow_client_claims_prefix : list instr :=         (* before 58e7149 *)
  [ ILoadRoot 0 R_cdb; IGet 1 0 k_client; IGet 2 1 k_add; IGet 3 2 k_always;
    IGet 4 3 k_crp; IGet 6 3 k_sec; IUpdate 4 6 ].

(* ---- 9. UserInfo.process_request: per-client policy *)
Definition flow_userinfo_policy : list instr :=
  [ ILoadRoot 0 R_ui_config; INew 1; IUpdate 1 0;                         (* _config = dict(self.config) *)
    ILoadRoot 2 R_cdb; IGet 3 2 k_client; IGet 4 3 k_ui; IGet 5 4 k_policy;
    ISet 1 k_policy 5 ].                                                   (* _config["policy"] = cdb[c]["userinfo"]["policy"] *)
Definition flow_userinfo_policy_prefix : list instr :=       (* before ef9baca *)
  [ ILoadRoot 0 R_ui_config;
    ILoadRoot 2 R_cdb; IGet 3 2 k_client; IGet 4 3 k_ui; IGet 5 4 k_policy;
    ISet 0 k_policy 5 ].

(* ---- 10. TokenRevocation.process_request: per-client settings are locals *)
Definition flow_revocation : list instr :=
  [ ILoadRoot 0 R_cdb; IGet 1 0 k_client; IGet 2 1 k_rev; IGet 3 2 k_tts; IGet 4 2 k_policy;
    ILoadRoot 5 R_rev_ep; IGet 6 5 k_tts ].
Definition flow_revocation_prefix : list instr :=            (* before 064e34f *)
  [ ILoadRoot 0 R_cdb; IGet 1 0 k_client; IGet 2 1 k_rev; IGet 3 2 k_tts; IGet 4 2 k_policy;
    ILoadRoot 5 R_rev_ep; ISet 5 k_tts 3; ISet 5 k_policy 4 ].

(* ---- 11. Endpoint.do_response: the headers list comes from process_request of the same request *)
Definition flow_do_response : list instr :=
  [ INew 0; INew 1; ISetAtom 1 k_pos 1; ISet 0 k_hdr 1;     (* process_request: {"http_headers": [(...)]} *)
    IGet 2 0 k_hdr;                                          (* http_headers = kwargs["http_headers"] *)
    ILoadRoot 3 R_nocache; IUpdate 2 3 ].                    (* http_headers.extend(OAUTH2_NOCACHE_HEADERS) *)
Definition flow_do_response_static_headers : list instr :=   (* a process_request that returned a module-level list *)
  [ INew 0; ILoadRoot 1 R_provider_info; ISet 0 k_hdr 1;
    IGet 2 0 k_hdr; ILoadRoot 3 R_nocache; IUpdate 2 3 ].

(* ---- 12. Grant.__init__: token_map is the module constant, by reference; it is only read *)
Definition flow_grant_token_map : list instr :=
  [ INew 0; ILoadRoot 1 R_token_map; ISet 0 k_tmap 1;       (* self.token_map = TOKEN_MAP *)
    IGet 2 0 k_tmap; IGet 3 2 k_code ].                      (* _class = self.token_map.get(token_class) *)
Definition flow_grant_token_map_write : list instr :=        (* what must never be added *)
  [ INew 0; ILoadRoot 1 R_token_map; ISet 0 k_tmap 1; IGet 2 0 k_tmap; ISetAtom 2 k_code 1 ].

(* ---- 13. AuthzHandling.__call__: grant_config values are bound to the (new) grant, not copied *)
Definition flow_authz_call : list instr :=
  [ INew 0;                                                  (* the grant created for this request *)
    ILoadRoot 1 R_grant_config; INew 2; IUpdate 2 1;         (* args = self.grant_config.copy() *)
    IGet 3 2 k_scope; ISet 0 k_scope 3 ].                    (* setattr(grant, key, val) *)

(* ---- the conservative side of the discipline: a flow that is harmless but rejected — in code order
        Grant.__init__ stores TOKEN_MAP in the grant before the usage rules are computed, and after a
        shared reference entered some flow object the checker distrusts every later read *)
Definition flow_code_order_composite : list instr :=
  [ INew 20; ILoadRoot 21 R_token_map; ISet 20 k_tmap 21 ] ++ flow_usage_rules.

Definition current_flows : list (list instr) :=
  [ flow_find_token; flow_usage_rules; flow_set_defaults_empty; flow_resource_indicators; flow_client_claims;
    flow_userinfo_policy; flow_revocation; flow_do_response; flow_grant_token_map; flow_authz_call ].
Definition prefix_flows : list (list instr) :=
  [ flow_find_token_prefix; flow_usage_rules_prefix; flow_resource_indicators_prefix; flow_client_claims_prefix;
    flow_userinfo_policy_prefix; flow_revocation_prefix; flow_do_response_static_headers; flow_grant_token_map_write ].

(* ---- alias probes: (index into probe_flows, register, "the real object bound to that local IS one of the
        objects that existed before the call").  A register the discipline types F must be a new object;
        a register typed S may be either. *)
Definition probe_flows : list (list instr) :=
  [ flow_find_token; flow_usage_rules; flow_client_claims; flow_do_response; flow_grant_token_map; flow_authz_call;
    flow_userinfo_policy ].
Definition chk_probe (c : nat * var * bool) : bool :=
  let '(fi, x, shared) := c in
  match nth_error probe_flows fi with
  | Some p => let '(t, _) := types_after p (fun _ => S) false in if is_F (t x) then negb shared else true
  | None => false
  end.
(* deep probes: (flow, register, "some container reachable from the real object is a pre-existing one");
   only for flows that end untainted, where an F register's whole reachable structure is new *)
Definition chk_probe_deep (c : nat * var * bool) : bool :=
  let '(fi, x, shared) := c in
  match nth_error probe_flows fi with
  | Some p => let '(t, tn) := types_after p (fun _ => S) false in
              if is_F (t x) && negb tn then negb shared else true
  | None => false
  end.
Definition diag_probe (c : nat * var * bool) : option (bool * bool) :=
  let '(fi, x, _) := c in
  match nth_error probe_flows fi with
  | Some p => let '(t, tn) := types_after p (fun _ => S) false in Some (is_F (t x), tn)
  | None => None
  end.
