(* Model/AliasHist.v — C20: HISTORIES of request-handling flows served by one long-lived process.
   Every flow of a history starts from the heap its predecessors left behind, with an arbitrary register file
   and nothing allocated by itself (whatever earlier requests created - session state, but also an object that a
   request hung on a handler - is pre-existing for it).  No proofs in this file. *)
From Coq Require Import List Arith Bool String.
From Verif Require Import Lib.Heap Model.Alias Model.AliasTie.
Import ListNotations.

Inductive run_hist : list (list instr) -> heap -> heap -> Prop :=
| rh_nil h : run_hist [] h h
| rh_cons p ps h (e : env) s' h'' :
    run p (h, e, fun _ => false) s' -> run_hist ps (fst (fst s')) h'' -> run_hist (p :: ps) h h''.

Definition all_checked (ps : list (list instr)) : Prop := Forall (fun p => check p = true) ps.

(* a history made of paths of the functions regenerated from the current source *)
Definition from_flows (gs : list gflow) (ps : list (list instr)) : Prop :=
  Forall (fun p => exists g, In g gs /\ p = g_flow g) ps.

(* what a request can find in the objects that existed when the process started serving: the static part of the
   heap, i.e. the handler / endpoint / configuration objects and everything reachable from the static roots *)
Definition static_part (h0 h : heap) : Prop := forall l, h0 l <> None -> h l = h0 l.

(* the functions of the long-lived token handlers: every one has generated paths, each path loads the handler
   object as a static root (so a store into `self` is a write through a root) *)
Definition fun_covered (gs : list gflow) (r : loc) (f : string) : bool :=
  negb (Nat.eqb (List.length (paths_of gs f)) 0) && forallb (fun g => loads_root r (g_flow g)) (paths_of gs f).
