(* Model/AliasTie.v — C20: the shape of the flows that harness/py2alias.py regenerates from the current source
   on every run (Gen/AliasGen.v), the checks applied to them, and the table that relates them to the
   hand-written flows of Model/AliasFlows.v.  No proofs in this file. *)
From Coq Require Import List Arith Bool String.
From Verif Require Import Lib.Heap Model.Alias Model.AliasFlows.
Import ListNotations.
Open Scope string_scope.

(* one control-flow path of one translated function *)
Record gflow := mk_gflow {
  g_fun : string;                      (* the translated function *)
  g_path : nat;                        (* number of the path within the function *)
  g_flow : list instr;
  g_rets : list (option var);          (* what the path returns, slot by slot: a register or an immutable value *)
  g_ret_fresh : list var;              (* registers the function returns here and promises to be new objects *)
  g_ret_deep : bool;                   (* ... and promises not to reach any shared object: the flow ends untainted *)
  g_returns : bool;                    (* the path ends in return (not in raise) *)
  g_locals : list (string * var)       (* the register each local variable is bound to at the end of the path *)
}.

Definition g_checked (g : gflow) : bool := check (g_flow g).

(* the return contract of a translated function, which its translated callers rely on *)
Definition g_contract_ok (g : gflow) : bool :=
  let '(t, tn) := types_after (g_flow g) (fun _ => S) false in
  forallb (fun x => is_F (t x)) (g_ret_fresh g) && (negb (g_ret_deep g) || negb tn).

Definition rejected (gs : list gflow) : list (string * nat * option nat) :=
  map (fun g => (g_fun g, g_path g, first_bad (g_flow g) (fun _ => S) false 0)) (filter (fun g => negb (g_checked g)) gs).
Definition contract_broken (gs : list gflow) : list (string * nat) :=
  map (fun g => (g_fun g, g_path g)) (filter (fun g => negb (g_contract_ok g)) gs).

(* ---- agreement with the hand-written transcriptions.
   A row (hand flow, hand register, function, local): on every generated path of that function on which the
   local is bound to a register when the path returns, the ownership discipline gives that register the same type
   (F: certainly a new object / S: possibly shared) as it gives the hand register in the hand-written flow.
   The hand registers are the ones harness/drv_C20.py probes on the real objects. *)
Definition lookup_local (n : string) (l : list (string * var)) : option var :=
  match find (fun p => String.eqb (fst p) n) l with Some p => Some (snd p) | None => None end.
Definition type_of_reg (p : list instr) (x : var) : bool := is_F (fst (types_after p (fun _ => S) false) x).

Definition paths_of (gs : list gflow) (f : string) : list gflow := filter (fun g => String.eqb (g_fun g) f) gs.
Definition same_type (hand : list instr) (x : var) (g : gflow) (y : option var) : bool :=
  match y with Some y => Bool.eqb (type_of_reg (g_flow g) y) (type_of_reg hand x) | None => false end.

(* (1) by what the function returns (independent of the names of locals): (hand flow, hand register, function,
   slot of the returned tuple, every).  every = true: every returning path that returns a register in that slot;
   every = false: at least one (the hand-written flow transcribes one branch only).  At least one path must return
   a register there. *)
Definition ret_row := (list instr * var * string * nat * bool)%type.
Definition ret_paths (gs : list gflow) (f : string) (n : nat) : list gflow :=
  filter (fun g => g_returns g && match nth n (g_rets g) None with Some _ => true | None => false end) (paths_of gs f).
Definition ret_ok (gs : list gflow) (r : ret_row) : bool :=
  let '(hand, x, f, n, every) := r in
  let ps := ret_paths gs f n in
  let ok := fun g => same_type hand x g (nth n (g_rets g) None) in
  negb (Nat.eqb (List.length ps) 0) && (if every then forallb ok ps else existsb ok ps).
Definition ret_rows : list ret_row :=
  [ (flow_find_token, 1, "find_token", 0, false);                         (* the token read out of the request *)
    (flow_usage_rules, 2, "AuthzHandling.usage_rules", 0, true);          (* the rules handed to the grant: new *)
    (flow_usage_rules, 7, "AuthzHandling.usage_rules_for", 0, true);      (* one token type's rules: new *)
    (flow_client_claims, 5, "ClaimsInterface._client_claims", 1, true);   (* _always_add: new *)
    (flow_client_claims, 2, "ClaimsInterface._client_claims", 0, true);   (* claims by scope: the configured object *)
    (flow_do_response, 0, "Endpoint.do_response", 0, true);               (* the response dict: new *)
    (flow_authz_call, 0, "AuthzHandling.__call__", 0, true) ].            (* the grant *)

(* (2) by local / parameter name, for the registers the driver probes on the real objects: (hand flow, hand
   register, function, local, every).  A row whose local no longer exists on any path says nothing (a renamed
   local is not an alarm; the driver reports such rows). *)
Definition agree_row := (list instr * var * string * string * bool)%type.
Definition bound_paths (gs : list gflow) (f l : string) : list gflow :=
  filter (fun g => g_returns g && match lookup_local l (g_locals g) with Some _ => true | None => false end) (paths_of gs f).
Definition agree_ok (gs : list gflow) (r : agree_row) : bool :=
  let '(hand, x, f, l, every) := r in
  let ps := bound_paths gs f l in
  let ok := fun g => same_type hand x g (lookup_local l (g_locals g)) in
  Nat.eqb (List.length ps) 0 || (if every then forallb ok ps else existsb ok ps).

Definition agree_rows : list agree_row :=
  [ (flow_find_token, 0, "find_token", "request", true);                  (* the request instance: new *)
    (flow_find_token, 0, "find_token_info", "request", true);
    (flow_usage_rules, 2, "AuthzHandling.usage_rules", "_usage_rules", true);     (* deep copy of grant_config["usage_rules"] *)
    (flow_usage_rules, 6, "AuthzHandling.usage_rules", "_per_client", true);      (* deep copy of the client's rules *)
    (flow_usage_rules, 7, "AuthzHandling.usage_rules", "_rule", true);            (* read out of a copy: new *)
    (flow_resource_indicators, 7, "Authorization._enforce_resource_indicators_policy", "kwargs", true);  (* dict(...) *)
    (flow_resource_indicators, 5, "Authorization._enforce_resource_indicators_policy", "policy", true);  (* shared *)
    (flow_client_claims, 5, "ClaimsInterface._client_claims", "_always_add", true);          (* list(...): new *)
    (flow_client_claims, 3, "ClaimsInterface._client_claims", "add_claims_always", true);    (* the client's: shared *)
    (flow_userinfo_policy, 1, "UserInfo.process_request", "_config", false);                 (* dict(self.config) on the per-client branch *)
    (flow_userinfo_policy, 0, "UserInfo.process_request", "_config", false);                 (* self.config otherwise *)
    (flow_revocation, 3, "TokenRevocation.process_request", "_token_types_supported", true); (* shared, a local *)
    (flow_revocation, 4, "TokenRevocation.process_request", "_policy", true);
    (flow_do_response, 0, "Endpoint.do_response", "_resp", true);                             (* new *)
    (flow_do_response, 2, "Endpoint.do_response", "http_headers", true);                      (* this request's list *)
    (flow_authz_call, 2, "AuthzHandling.__call__", "args", true);                             (* grant_config.copy(): new *)
    (flow_authz_call, 3, "AuthzHandling.__call__", "val", true);                              (* its values: shared *)
    (flow_set_defaults_empty, 0, "Grant.__init__", "self", true) ].

Definition agree_vacuous (gs : list gflow) : list (string * string) :=
  map (fun r : agree_row => let '(_, _, f, l, _) := r in (f, l))
      (filter (fun r : agree_row => let '(_, _, f, l, _) := r in Nat.eqb (List.length (bound_paths gs f l)) 0) agree_rows).

(* the static roots a hand-written flow loads, as names of roots of the generated flows, are loaded by some
   generated path of the function as well: (hand flow, function, generated root) *)
Definition loads_root (r : loc) (p : list instr) : bool :=
  existsb (fun i => match i with ILoadRoot _ r' => Nat.eqb r r' | _ => false end) p.
Definition root_ok (gs : list gflow) (row : string * loc) : bool :=
  let '(f, r) := row in existsb (fun g => loads_root r (g_flow g)) (paths_of gs f).

(* number of write instructions (evidence) *)
Definition is_write (i : instr) : bool :=
  match i with ISet _ _ _ | ISetAtom _ _ _ | IUpdate _ _ | IDel _ _ => true | _ => false end.
Definition n_writes (gs : list gflow) : nat := fold_right (fun g n => List.length (filter is_write (g_flow g)) + n) 0 gs.
