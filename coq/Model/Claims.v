(* Model/Claims.v — which user claims are released at a release point (userinfo, id_token, introspection,
   access_token): idpyoidc.server.session.claims.ClaimsInterface.get_claims_from_request / _client_claims /
   get_user_claims / claims_match and idpyoidc.server.scopes (filter_scopes, convert_scopes2claims).
   Pure functions over the JSON-like value universe.  No proofs here. *)
From Coq Require Import String.
From Verif Require Import Lib.Base Lib.PyStr.
Open Scope string_scope.

(* a claim specification: None, or a dict with (some of) essential / value / values, in insertion order *)
Inductive spec_item := SEssential (b : pyval) | SValue (v : pyval) | SValues (vs : list pyval) | SOther (k : pystr).
Definition cspec := option (list spec_item).      (* None = null = "match anything" *)
Definition restriction := list (pystr * cspec).

(* dict.update *)
Fixpoint update (d : restriction) (u : restriction) : restriction :=
  match u with [] => d | (k, v) :: r => update (aset k v d) r end.

Definition is_essential_only (s : list spec_item) : bool :=
  match s with [SEssential _] => true | _ => false end.
(* claims_match(value, claimspec) *)
Fixpoint spec_matches (value : pyval) (s : list spec_item) : bool :=
  match s with
  | [] => false
  | SValue v :: r => pyval_eqb value v || spec_matches value r
  | SValues vs :: r => existsb (pyval_eqb value) vs || spec_matches value r
  | _ :: r => spec_matches value r
  end.
Definition claims_match (value : option pyval) (c : cspec) : bool :=
  match value with
  | None | Some VNone => false
  | Some v => match c with
              | None => true
              | Some s => if spec_matches v s then true else is_essential_only s
              end
  end.

(* ---- scopes ---- *)
Definition scope_map := list (pystr * list pystr).
Definition filter_scopes (allowed : list pystr) (scopes : list pystr) : list pystr :=
  List.filter (fun s => str_in s allowed) scopes.
Definition convert_scopes2claims (scopes : list pystr) (m : scope_map) : restriction :=
  update [] (List.flat_map (fun s => match assoc s m with Some cl => List.map (fun c => (c, @None (list spec_item))) cl | None => [] end) scopes).
(* Scopes.scopes_to_claims(scopes, client_id=...) *)
Definition scopes_to_claims (provider_map : scope_map) (client_allowed : option (list pystr)) (client_map : option scope_map)
           (scopes : list pystr) : restriction :=
  let allowed := match client_allowed with Some a => a | None => List.map fst provider_map end in
  let m := match client_map with Some ((_ :: _) as cm) => cm | _ => provider_map end in
  convert_scopes2claims (filter_scopes allowed scopes) m.

(* ---- configuration of one release point and of one client ---- *)
Inductive always_cfg := AList (l : list pystr) | ADict (d : restriction).
Record module_cfg := mkModule {
  m_base : restriction; m_by_scope : bool; m_always : option always_cfg; m_per_client : bool }.
Record client_cfg := mkClient {
  c_by_scope : option (list (pystr * bool));       (* add_claims.by_scope: release point -> flag *)
  c_always : list (pystr * list pystr);            (* add_claims.always: release point -> claims *)
  c_allowed_scopes : option (list pystr);
  c_scope_map : option scope_map }.

(* ClaimsInterface._client_claims *)
Definition client_claims (m : module_cfg) (cl : client_cfg) (point secondary : pystr) : bool * list pystr :=
  let by_scope :=
    match cl.(c_by_scope) with
    | Some ((_ :: _) as d) =>
        match assoc point d with
        | Some b => b
        | None => match secondary with
                  | [] => m.(m_by_scope)
                  | _ => match assoc secondary d with Some b => b | None => false end
                  end
        end
    | _ => m.(m_by_scope)
    end in
  let always := ((match assoc point cl.(c_always) with Some l => l | None => [] end)
                 ++ (match secondary with [] => [] | _ => match assoc secondary cl.(c_always) with Some l => l | None => [] end end))%list in
  (by_scope, always).

(* ClaimsInterface.get_claims_from_request *)
Definition get_claims (provider_map : scope_map) (m : module_cfg) (cl : option client_cfg) (point secondary : pystr)
           (scopes : list pystr) (request_claims : restriction) : restriction :=
  let '(by_scope, always) :=
    match cl with
    | Some c => if m.(m_per_client) then let '(b, a) := client_claims m c point secondary in (b, Some (AList a))
                else (m.(m_by_scope), m.(m_always))
    | None => (m.(m_by_scope), m.(m_always))
    end in
  let r1 := match always with
            | Some (AList []) | None => m.(m_base)
            | Some (AList l) => update m.(m_base) (List.map (fun k => (k, @None (list spec_item))) l)
            | Some (ADict []) => m.(m_base)
            | Some (ADict d) => update m.(m_base) d
            end in
  let r2 := if by_scope then
              match scopes with
              | [] => r1
              | _ => update r1 (scopes_to_claims provider_map (match cl with Some c => c.(c_allowed_scopes) | None => None end)
                                                 (match cl with Some c => c.(c_scope_map) | None => None end) scopes)
              end
            else r1 in
  match request_claims with [] => r2 | _ => update r2 request_claims end.

(* ClaimsInterface.get_user_claims *)
Definition user_claims (userinfo : list (pystr * pyval)) (r : restriction) : list (pystr * pyval) :=
  List.flat_map (fun kv => match assoc (fst kv) userinfo with
                           | Some v => if claims_match (Some v) (snd kv) then [(fst kv, v)] else []
                           | None => []
                           end) r.

(* ---- the token's own scope vs. the scope of the grant it belongs to ----
   Every release point calls ClaimsInterface.get_claims(session_id, scopes=<scope of the token that is presented or
   minted>, point): UserInfo.process_request and Introspection.process_request hand in token.scope, Grant.mint_token ->
   payload_arguments hands in the scope the new ID Token / JWT access token is minted with.  The grant's own scope (the
   scope of its authorization request) is used by get_claims_from_request ONLY when the caller hands in None.  A token
   minted by a refresh request with a narrower `scope`, by a refresh of such a refresh, or by a down-scoping token
   exchange has a scope of its own that is a proper subset of the grant's. *)
Definition effective_scopes (token_scope : option (list pystr)) (grant_scope : list pystr) : list pystr :=
  match token_scope with Some s => s | None => grant_scope end.
Definition get_claims_tok (provider_map : scope_map) (m : module_cfg) (cl : option client_cfg) (point secondary : pystr)
           (token_scope : option (list pystr)) (grant_scope : list pystr) (request_claims : restriction) : restriction :=
  get_claims provider_map m cl point secondary (effective_scopes token_scope grant_scope) request_claims.
(* what a release point puts into its output for a token with that scope, belonging to a grant with that scope *)
Definition release_tok (provider_map : scope_map) (m : module_cfg) (cl : option client_cfg) (point secondary : pystr)
           (token_scope : option (list pystr)) (grant_scope : list pystr) (request_claims : restriction)
           (userinfo : list (pystr * pyval)) : list (pystr * pyval) :=
  user_claims userinfo (get_claims_tok provider_map m cl point secondary token_scope grant_scope request_claims).

(* ---- checkers ---- *)
Definition spec_item_eqb (a b : spec_item) : bool :=
  match a, b with
  | SEssential x, SEssential y | SValue x, SValue y => pyval_eqb x y
  | SValues x, SValues y => list_eqb pyval_eqb x y
  | SOther x, SOther y => str_eqb x y
  | _, _ => false end.
Definition cspec_eqb (a b : cspec) : bool := option_eqb (list_eqb spec_item_eqb) a b.
Definition restriction_eqb (a b : restriction) : bool :=
  list_eqb (fun x y => str_eqb (fst x) (fst y) && cspec_eqb (snd x) (snd y)) a b.
Definition released_eqb (a b : list (pystr * pyval)) : bool :=
  list_eqb (fun x y => str_eqb (fst x) (fst y) && pyval_eqb (snd x) (snd y)) a b.
Definition claims_case :=
  (scope_map * module_cfg * option client_cfg * pystr * pystr * list pystr * restriction * list (pystr * pyval)
   * restriction * list (pystr * pyval))%type.
Definition chk_claims (c : claims_case) : bool :=
  let '(pm, m, cl, point, secondary, scopes, req, ui, exp_r, exp_rel) := c in
  let r := get_claims pm m cl point secondary scopes req in
  restriction_eqb r exp_r && released_eqb (user_claims ui r) exp_rel.
Definition diag_claims (c : claims_case) :=
  let '(pm, m, cl, point, secondary, scopes, req, ui, exp_r, exp_rel) := c in
  let r := get_claims pm m cl point secondary scopes req in (r, user_claims ui r).

(* the token-scope dimension: (a) unit level - get_claims_from_request called with a `scopes` argument that differs from the
   scope of the authorization request (or with None); (b) end to end - the user attributes a real release point shows for a
   token whose own scope is narrower than its grant's, compared as a set with release_tok *)
Definition claims_tok_case :=
  (scope_map * module_cfg * option client_cfg * pystr * pystr * option (list pystr) * list pystr * restriction
   * list (pystr * pyval) * restriction * list (pystr * pyval))%type.
Definition chk_claims_tok (c : claims_tok_case) : bool :=
  let '(pm, m, cl, point, secondary, tscope, gscope, req, ui, exp_r, exp_rel) := c in
  let r := get_claims_tok pm m cl point secondary tscope gscope req in
  restriction_eqb r exp_r && released_eqb (user_claims ui r) exp_rel.
Definition diag_claims_tok (c : claims_tok_case) :=
  let '(pm, m, cl, point, secondary, tscope, gscope, req, ui, exp_r, exp_rel) := c in
  let r := get_claims_tok pm m cl point secondary tscope gscope req in (r, user_claims ui r).
Definition released_subset (a b : list (pystr * pyval)) : bool :=
  forallb (fun x => existsb (fun y => str_eqb (fst x) (fst y) && pyval_eqb (snd x) (snd y)) b) a.
Definition release_tok_case :=
  (scope_map * module_cfg * option client_cfg * pystr * pystr * option (list pystr) * list pystr * restriction
   * list (pystr * pyval) * list (pystr * pyval))%type.
Definition chk_release_tok (c : release_tok_case) : bool :=
  let '(pm, m, cl, point, secondary, tscope, gscope, req, ui, exp_rel) := c in
  let rel := release_tok pm m cl point secondary tscope gscope req ui in
  released_subset rel exp_rel && released_subset exp_rel rel.
Definition diag_release_tok (c : release_tok_case) :=
  let '(pm, m, cl, point, secondary, tscope, gscope, req, ui, exp_rel) := c in
  release_tok pm m cl point secondary tscope gscope req ui.

(* ---- ID Tokens minted by the AUTHORIZATION endpoint: the release point is a function of the response type ----
   Authorization.create_authn_response: rtype = set(request["response_type"]); when "id_token" is in rtype the endpoint
   itself mints an ID Token (Grant.mint_token -> payload_arguments(claims_release_point="id_token",
   secondary_identifier=kwargs.get("as_if"))).  as_if = "userinfo" is handed in exactly when rtype == {"id_token"}: no
   access token will ever exist for that flow, so nothing could be fetched from the userinfo endpoint (OIDC Core 5.4:
   "when no Access Token is issued (which is the case for the response_type value id_token), the resulting Claims are
   returned in the ID Token").  For every other response type - code id_token, id_token token, code id_token token - and
   for the ID Tokens of the token endpoint (code redemption, refresh) the secondary release point is empty: the id_token
   rules alone decide.  A response type is the list of its words (the library makes a set of them: order and
   repetitions do not matter). *)
Definition W_id_token : pystr := PS "id_token".
Definition W_userinfo : pystr := PS "userinfo".
Definition id_token_alone (rt : list pystr) : bool :=
  match rt with [] => false | _ => forallb (fun w => str_eqb w W_id_token) rt end.
(* (release point, secondary release point) of the ID Token in the authorization response of a request with response type rt *)
Definition idt_release_point (rt : list pystr) : pystr * pystr :=
  (W_id_token, if id_token_alone rt then W_userinfo else []).
(* ... and of an ID Token minted by the token endpoint, whatever the response type of the authorization request was *)
Definition idt_release_point_token_endpoint : pystr * pystr := (W_id_token, []).
(* what the ID Token of the authorization response shows about the user *)
Definition release_authz_idt (provider_map : scope_map) (m : module_cfg) (cl : option client_cfg) (rt : list pystr)
           (token_scope : option (list pystr)) (grant_scope : list pystr) (request_claims : restriction)
           (userinfo : list (pystr * pyval)) : list (pystr * pyval) :=
  release_tok provider_map m cl (fst (idt_release_point rt)) (snd (idt_release_point rt)) token_scope grant_scope request_claims userinfo.

(* the client's own entries for ONE release point *)
Definition by_scope_at (c : client_cfg) (point : pystr) : option bool :=
  match c.(c_by_scope) with Some d => assoc point d | None => None end.
Definition always_at (c : client_cfg) (point : pystr) : list pystr :=
  match assoc point c.(c_always) with Some l => l | None => [] end.
(* the rules of one release point alone: is the scope -> claims mapping on, which claims are always added *)
Definition by_scope_rule (m : module_cfg) (cl : option client_cfg) (point : pystr) : bool :=
  match cl with
  | Some c => if m.(m_per_client) then match by_scope_at c point with Some b => b | None => m.(m_by_scope) end else m.(m_by_scope)
  | None => m.(m_by_scope)
  end.
Definition always_rule (m : module_cfg) (cl : option client_cfg) (point : pystr) : option always_cfg :=
  match cl with
  | Some c => if m.(m_per_client) then Some (AList (always_at c point)) else m.(m_always)
  | None => m.(m_always)
  end.
(* a client configuration without its entries for one release point *)
Fixpoint remove_key {V} (k : pystr) (d : list (pystr * V)) : list (pystr * V) :=
  match d with [] => [] | (k', v) :: r => if str_eqb k k' then remove_key k r else (k', v) :: remove_key k r end.
Definition without_point (p : pystr) (c : client_cfg) : client_cfg :=
  mkClient (match c.(c_by_scope) with Some d => Some (remove_key p d) | None => None end) (remove_key p c.(c_always))
           c.(c_allowed_scopes) c.(c_scope_map).

(* the user attributes found in the ID Token of a real authorization response, compared as a set *)
Definition authz_idt_case :=
  (scope_map * module_cfg * option client_cfg * list pystr * option (list pystr) * list pystr * restriction
   * list (pystr * pyval) * list (pystr * pyval))%type.
Definition chk_authz_idt (c : authz_idt_case) : bool :=
  let '(pm, m, cl, rt, tscope, gscope, req, ui, exp_rel) := c in
  let rel := release_authz_idt pm m cl rt tscope gscope req ui in
  released_subset rel exp_rel && released_subset exp_rel rel.
Definition diag_authz_idt (c : authz_idt_case) :=
  let '(pm, m, cl, rt, tscope, gscope, req, ui, exp_rel) := c in
  (idt_release_point rt, release_authz_idt pm m cl rt tscope gscope req ui).
