(* Model/ClaimsMV.v — multi-valued (list-valued) user attributes under claim specifications.
   idpyoidc.server.session.claims.ClaimsInterface.get_user_claims hands the user's attribute AS IT IS STORED to
   claims_match: a list-valued attribute is ONE value there - the list itself.  So, for the unchanged library,
     null specification / {"essential": b} alone   -> the whole list is released (there is no value restriction);
     {"value": p} / {"values": [p1, ...]}          -> released only when the list itself equals p / is one of the pi;
                                                      an attribute SOME of whose elements are permitted is withheld.
   release_attr spells that out by attribute shape; user_claims (Model/Claims.v) is release_attr attribute by attribute
   (Proofs/ClaimsMV_proofs.v).  What LEAVES the provider is looked at value by value: carried v are the individual
   values a released attribute value v consists of. *)
From Coq Require Import String.
From Verif Require Import Lib.Base Lib.PyStr Model.Claims.
Open Scope string_scope.

(* the individual values an attribute value carries: the elements of a list, the value itself otherwise *)
Definition carried (v : pyval) : list pyval := match v with VList l => l | _ => [v] end.
Definition is_list (v : pyval) : bool := match v with VList _ => true | _ => false end.

(* the values a specification permits: its `value` and the members of its `values` *)
Definition permitted_values (s : list spec_item) : list pyval :=
  List.flat_map (fun i => match i with SValue v => [v] | SValues vs => vs | _ => [] end) s.
(* a specification that restricts values: it has a `value` or a `values` member (even an empty `values`) *)
Definition value_restricted (s : list spec_item) : bool :=
  existsb (fun i => match i with SValue _ | SValues _ => true | _ => false end) s.

(* Python `v == p` for some permitted p *)
Definition permitted (s : list spec_item) (v : pyval) : bool := existsb (pyval_eqb v) (permitted_values s).

(* what the filter does with ONE attribute value under ONE specification, by shape of the attribute *)
Definition release_attr (v : pyval) (c : cspec) : option pyval :=
  match v with
  | VNone => None
  | VList l =>                                   (* multi-valued: judged as one value, never element by element *)
      match c with
      | None => Some (VList l)
      | Some s => if permitted s (VList l) then Some (VList l)
                  else if is_essential_only s then Some (VList l) else None
      end
  | _ => if claims_match (Some v) c then Some v else None
  end.

(* the value-by-value judgement of a released attribute value v against a specification (the oracle's rule, also
   evaluated on what the real release points show): no value restriction, or the value as a whole is permitted, or it
   is a list every element of which is permitted *)
Definition values_within (c : cspec) (v : pyval) : bool :=
  match c with
  | None => true
  | Some s => negb (value_restricted s) || permitted s v
              || (is_list v && forallb (permitted s) (carried v))
  end.

(* checker for the harness: the specification in force for every released attribute (the restriction is a dict: first
   entry) judges the value that left *)
Definition released_within (r : restriction) (rel : list (pystr * pyval)) : bool :=
  forallb (fun kv => match assoc (fst kv) r with Some c => values_within c (snd kv) | None => false end) rel.
Definition mv_case := (restriction * list (pystr * pyval) * list (pystr * pyval))%type.   (* restriction, user record, released by the library *)
Definition chk_mv (c : mv_case) : bool :=
  let '(r, ui, rel) := c in
  released_eqb (user_claims ui r) rel && released_within r rel
  && released_eqb (List.flat_map (fun kv => match assoc (fst kv) ui with
                                            | Some v => match release_attr v (snd kv) with Some x => [(fst kv, x)] | None => [] end
                                            | None => [] end) r) rel.
Definition diag_mv (c : mv_case) := let '(r, ui, rel) := c in (user_claims ui r, released_within r rel).
