(* Model/ClientAuthn.v — client authentication of the provider endpoints (property C01).

   Hand-written, total, executable transcription of
     idpyoidc/server/client_authn.py : verify_client (the method loop and its exception discipline),
        ClientSecretBasic/Post, BearerHeader/Body, JWSAuthnMethod._verify (ClientSecretJWT,
        PrivateKeyJWT), RequestParam, PublicAuthn, NoneAuthn, basic_authn, valid_client_secret,
        the CLIENT_AUTHN_METHOD registry order
     idpyoidc/server/endpoint.py : Endpoint.set_client_authn_methods, client_authentication,
        the client_id/authenticated bookkeeping of Endpoint.parse_request
     idpyoidc/server/oidc/userinfo.py : UserInfo.parse_request (override)
   Credentials are symbolic: a signed JWT is (algorithm family, the key that produced the signature,
   kid header, claims); what cryptojwt does with it (key selection in the key jar by the kid of the header, or
   the 0/1/many rule for a kid-less header, signature check, exp/nbf/iat with the 15 s skew) is the function
   [unpack].  What the key jar holds under an id is a matter of HISTORY ([cred_op]: an accepted registration replaces
   it, a deployer's keyjar.add_symmetric / import_jwks append to it); which of the symmetric keys it holds for a
   client is the client's CURRENT secret is decided by the client database.  Bearer tokens are resolved by the
   environment function cx_tok (get_client_id_from_token of the endpoint; C04's subject).
   No proofs here.  Tied to the code by harness/drv_C01.py on every run. *)
From Coq Require Import String.
From Verif Require Import Lib.Base Lib.PyStr.
Local Open Scope string_scope.
Local Open Scope list_scope.

(* ------------------------------------------------------------------ methods *)
Inductive meth :=
| MBasic | MPost | MBearerHeader | MBearerBody | MSecretJwt | MPrivateJwt | MRequestParam | MPublic | MNone.

Definition meth_code (m : meth) : nat :=
  match m with
  | MBasic => 0 | MPost => 1 | MBearerHeader => 2 | MBearerBody => 3 | MSecretJwt => 4
  | MPrivateJwt => 5 | MRequestParam => 6 | MPublic => 7 | MNone => 8
  end.
Definition meth_eqb (a b : meth) : bool := Nat.eqb (meth_code a) (meth_code b).
Definition meth_in (m : meth) (l : list meth) : bool := existsb (meth_eqb m) l.

(* the tag attribute of each method class *)
Definition meth_tag (m : meth) : pystr :=
  match m with
  | MBasic => PS "client_secret_basic" | MPost => PS "client_secret_post"
  | MBearerHeader => PS "bearer_header" | MBearerBody => PS "bearer_body"
  | MSecretJwt => PS "client_secret_jwt" | MPrivateJwt => PS "private_key_jwt"
  | MRequestParam => PS "request_param" | MPublic => PS "public" | MNone => PS "none"
  end.
(* CLIENT_AUTHN_METHOD, in dict insertion order (used when an endpoint has no list of its own) *)
Definition registry : list meth :=
  [MBasic; MPost; MBearerHeader; MBearerBody; MSecretJwt; MPrivateJwt; MRequestParam; MPublic; MNone].

(* ------------------------------------------------------------------ exceptions *)
Definition ClientAuthenticationError : exc := Refused 1.
Definition UnknownClient : exc := Refused 2.          (* subclass of ClientAuthenticationError *)
Definition InvalidClient : exc := Refused 3.          (* subclass of ClientAuthenticationError *)
Definition InvalidToken : exc := Refused 4.           (* subclass of ClientAuthenticationError *)
Definition UnAuthorizedClient : exc := Refused 5.     (* subclass of ClientAuthenticationError *)
Definition BearerTokenAuthenticationError : exc := Refused 6.
Definition is_cae (e : exc) : bool :=     (* isinstance(e, ClientAuthenticationError) *)
  match e with Refused n => (1 <=? n)%N && (n <=? 5)%N | _ => false end.

(* ------------------------------------------------------------------ symbolic credentials *)
Inductive alg := AlgNone | AlgHS | AlgRS | AlgES.            (* alg header, by family *)
(* the key that produced the signature: HMAC key bytes, or private RSA / EC key number n *)
Inductive skey := KSym (s : pystr) | KRsa (n : nat) | KEc (n : nat).
(* a verification key held by the key jar: symmetric bytes, or the public half of key number n *)
Inductive vkey := VOct (s : pystr) | VRsa (n : nat) | VEc (n : nat).

(* j_key is the SIGNER: the key material that made the signature (generator ground truth).  j_sub / j_azp /
   j_cid are the other claims INSIDE the signed JWT that can name a client (sub, azp, client_id): nothing below
   reads them - the identity an assertion establishes is its iss, the issuer whose registered key verified
   the signature, whatever the signer wrote into the other claims.  (The claims of a REQUEST OBJECT are request
   parameters as well: verify_request - after the point this model observes - merges them into the request, and
   Authorization._post_parse_request refuses an object whose client_id differs from the authenticated client;
   that is property C16's subject, not modelled here.) *)
(* j_kid is the kid header of the JWS: chosen by the sender, absent (None) or empty = no kid. *)
Record jwt := {
  j_alg : alg;  j_key : skey;  j_kid : option pystr;
  j_iss : option pystr;
  j_sub : option pystr;  j_azp : option pystr;  j_cid : option pystr;
  j_aud : option (list pystr);
  j_exp : option Z;  j_nbf : option Z;  j_iat : option Z;
  j_jti : option pystr }.
(* the value of a client_assertion / request parameter *)
Inductive token := NotJwt | Jwt (j : jwt).

(* the Authorization header *)
Inductive header :=
| HAbsent                      (* no (or empty) authorization / Authorization header *)
| HBasicText (s : pystr)       (* "Basic " + base64 of the UTF-8 text s *)
| HBasicUndecodable            (* "Basic " + something b64decode / UTF-8 decoding rejects (ValueError) *)
| HBearer (t : pystr)          (* "Bearer " + t *)
| HOther.                      (* any other scheme *)

Record request := {
  r_hdr : header;
  r_client_id : option pystr;  r_client_secret : option pystr;
  r_access_token : option pystr;
  r_assertion : option token;        (* client_assertion *)
  r_request : option token;          (* request (request object) *)
  r_authflag : bool }.               (* the body itself carries a non-empty "authenticated" parameter (ignored:
                                        Endpoint.parse_request deletes it before authenticating) *)

(* ------------------------------------------------------------------ configuration *)
Record client := {
  c_secret : option pystr;               (* client_secret *)
  c_expires : option Z;                  (* client_secret_expires_at *)
  c_methods : option (list meth);        (* client_authn_method *)
  c_ep_methods : list (pystr * list meth) (* "<endpoint_name>_client_authn_method" entries *) }.

Record keyjar := {
  kj_iss : list (pystr * list vkey);     (* keys usable for sig, per issuer id, in bundle order: everything that was
                                            ever filed under the id (superseded secrets and replaced keys included) *)
  kj_own : list vkey;                    (* the provider's own keys (issuer id "") *)
  kj_kid : list (vkey * pystr) }.        (* the kid every key in the jar carries (KeyBundle gives a key without kid
                                            the thumbprint of its material); a key not listed has no kid *)

(* what endpoint.get_client_id_from_token does with a token string *)
Inductive tok_res := TokClient (c : pystr) | TokToOld | TokKeyError | TokOther.

Record actx := {
  cx_cdb : list (pystr * client);
  cx_kj : keyjar;
  cx_tok : pystr -> tok_res }.

Record endpoint := {
  ep_name : pystr;                 (* endpoint_name, e.g. token_endpoint *)
  ep_methods : list meth;          (* client_authn_method as set by set_client_authn_methods *)
  ep_targets : list pystr;         (* allowed_target_uris() *)
  ep_lookup : bool;                (* the endpoint class defines get_client_id_from_token *)
  ep_userinfo : bool }.            (* UserInfo.parse_request instead of Endpoint.parse_request *)

(* Endpoint.set_client_authn_methods: kwargs.get("client_authn_method") *)
Definition configured_methods (cfg : option (list meth)) : list meth :=
  match cfg with
  | None => []                     (* not given / None: no list, every registered method is tried *)
  | Some [] => [MNone]             (* [] or '': "Ignore default value" *)
  | Some l => l
  end.

Definition jti_db := list pystr.   (* keys of context.jti_db in insertion order *)

(* ------------------------------------------------------------------ valid_client_secret *)
(* if "client_secret" in cinfo: eta = cinfo.get("client_secret_expires_at", 0)
                                if eta != 0 and eta < utc_time_sans_frac(): return False
   return True *)
Definition valid_client_secret (c : client) (now : Z) : bool :=
  match c_secret c with
  | None => true
  | Some _ => let eta := match c_expires c with Some e => e | None => 0%Z end in
              negb (negb (eta =? 0)%Z && (eta <? now)%Z)
  end.

(* ------------------------------------------------------------------ cryptojwt: JWT.unpack *)
Definition skew : Z := 15.

Definition vkey_is (a : alg) (v : vkey) : bool :=
  match a, v with AlgHS, VOct _ | AlgRS, VRsa _ | AlgES, VEc _ => true | _, _ => false end.
Definition key_verifies (a : alg) (k : skey) (v : vkey) : bool :=
  match a, k, v with
  | AlgHS, KSym s, VOct s' => str_eqb s s'
  | AlgRS, KRsa n, VRsa n' => Nat.eqb n n'
  | AlgES, KEc n, VEc n' => Nat.eqb n n'
  | _, _, _ => false
  end.

Definition vkey_eqb (a b : vkey) : bool :=
  match a, b with
  | VOct s, VOct s' => str_eqb s s'
  | VRsa n, VRsa n' => Nat.eqb n n'
  | VEc n, VEc n' => Nat.eqb n n'
  | _, _ => false
  end.
Definition kid_of (kj : keyjar) (v : vkey) : pystr :=
  match find (fun p => vkey_eqb (fst p) v) (kj_kid kj) with Some p => snd p | None => [] end.
(* jwt.headers.get("kid", "") / jws_header.get("kid") followed by `if kid:` - an empty kid is no kid *)
Definition kid_given (k : option pystr) : option pystr :=
  match k with Some (c :: r) => Some (c :: r) | _ => None end.
(* KeyIssuer.get(use, key_type, kid=k) / JWx.pick_keys with a kid: only keys carrying exactly that kid *)
Definition with_kid (kj : keyjar) (k : pystr) (ks : list vkey) : list vkey :=
  filter (fun v => str_eqb (kid_of kj v) k) ks.
(* JWx.pick_keys: with a kid header every candidate with another (or no) kid is dropped *)
Definition pick (kj : keyjar) (kid : option pystr) (ks : list vkey) : list vkey :=
  match kid_given kid with Some k => with_kid kj k ks | None => ks end.
(* KeyJar._add_key: with a kid, the issuer's keys of the right type with that kid; without, the issuer's keys
   of the right type only when there is exactly one *)
Definition issuer_sel (kj : keyjar) (a : alg) (kid : option pystr) (ks : list vkey) : list vkey :=
  match kid_given kid with
  | Some k => with_kid kj k (filter (vkey_is a) ks)
  | None => match filter (vkey_is a) ks with [k] => [k] | _ => [] end
  end.

(* KeyJar.get_jwt_verify_keys + JWx.pick_keys: the issuer's keys selected by [issuer_sel]; for oct the provider's
   own symmetric keys are appended; without an iss claim the provider's own keys of that type are the
   candidates; whatever carries another kid than the header's is dropped.  None = IssuerNotFound. *)
Definition candidates (kj : keyjar) (a : alg) (kid : option pystr) (iss : option pystr) : option (list vkey) :=
  match iss with
  | None => Some (pick kj kid (filter (vkey_is a) (kj_own kj)))
  | Some i =>
      match assoc i (kj_iss kj) with
      | None => None
      | Some ks =>
          Some (issuer_sel kj a kid ks
                ++ match a with AlgHS => pick kj kid (filter (vkey_is AlgHS) (kj_own kj)) | _ => [] end)
      end
  end.

Inductive unpack_res :=
| UOk            (* verified, a JsonWebToken instance is returned *)
| UInvalid       (* cryptojwt Invalid / BadSignature / MissingKey: re-raised as ClientAuthenticationError *)
| UOther.        (* any other exception (no usable key, alg none, expired, not yet valid) *)

Definition time_ok (j : jwt) (now : Z) : bool :=
  (* JWT.unpack: now < nbf - skew -> error; now >= exp + skew -> error;
     JsonWebToken.verify(skew): now - skew > exp; iat > now + skew; nbf > now - skew -> error *)
  match j_nbf j with Some n => (n <=? now - skew)%Z | None => true end
  && match j_exp j with Some e => (now <? e + skew)%Z | None => true end
  && match j_iat j with Some i => (i <=? now + skew)%Z | None => true end.

Definition unpack (kj : keyjar) (now : Z) (t : token) : unpack_res :=
  match t with
  | NotJwt => UInvalid
  | Jwt j =>
      match j_alg j with
      | AlgNone => UOther
      | a => match candidates kj a (j_kid j) (j_iss j) with
             | None => UOther
             | Some [] => UOther
             | Some ks => if existsb (key_verifies a (j_key j)) ks
                          then (if time_ok j now then UOk else UOther)
                          else UInvalid
             end
      end
  end.

(* ------------------------------------------------------------------ the method classes *)
Record auth_info := { ai_client : option pystr; ai_method : meth; ai_token : option pystr }.

Inductive vres :=
| VOk (ai : auth_info)
| VAbort (e : exc)     (* ClientAuthenticationError family / BearerTokenAuthenticationError: re-raised *)
| VSkip.               (* any other exception: "try the next method" *)

Definition colon : N := 58%N.

Definition usable (rq : request) (m : meth) : bool :=
  match m with
  | MBasic => match r_hdr rq with HBasicText _ | HBasicUndecodable => true | _ => false end
  | MPost => match r_client_id rq, r_client_secret rq with Some _, Some _ => true | _, _ => false end
  | MBearerHeader => match r_hdr rq with HBearer _ => true | _ => false end
  | MBearerBody => match r_access_token rq with Some _ => true | None => false end
  | MSecretJwt | MPrivateJwt => match r_assertion rq with Some _ => true | None => false end
  | MRequestParam => match r_request rq with Some _ => true | None => false end
  | MPublic => match r_client_id rq with Some _ => true | None => false end
  | MNone => true
  end.

(* _context.cdb[id]["client_secret"] == secret *)
Definition secret_check (cx : actx) (m : meth) (id secret : pystr) : vres :=
  match assoc id (cx_cdb cx) with
  | None => VSkip                                   (* KeyError *)
  | Some c => match c_secret c with
              | None => VSkip                       (* KeyError *)
              | Some cs => if str_eqb cs secret
                           then VOk {| ai_client := Some id; ai_method := m; ai_token := None |}
                           else VAbort ClientAuthenticationError
              end
  end.

Definition jti_key (iss jti : pystr) : pystr := iss ++ colon :: jti.     (* "{}:{}".format(iss, jti) *)

Fixpoint intersects (a b : list pystr) : bool :=
  match a with [] => false | x :: r => str_in x b || intersects r b end.

(* the replay cache step shared by JWSAuthnMethod._verify and RequestParam._verify, followed by
   client_id = kwargs.get("client_id") or jwt["iss"] *)
Definition jti_then_client (m : meth) (j : jwt) (jdb : jti_db) : vres * jti_db :=
  match j_jti j with
  | Some t =>
      match j_iss j with
      | None => (VSkip, jdb)                                          (* KeyError 'iss' *)
      | Some i => if str_in (jti_key i t) jdb then (VAbort InvalidToken, jdb)
                  else (VOk {| ai_client := Some i; ai_method := m; ai_token := None |}, jdb ++ [jti_key i t])
      end
  | None =>
      match j_iss j with
      | None => (VSkip, jdb)
      | Some i => (VOk {| ai_client := Some i; ai_method := m; ai_token := None |}, jdb)
      end
  end.

(* the HS branch of JWSAuthnMethod._verify:
     keys = _keyjar.get("sig", "oct", ca_jwt["iss"], ca_jwt.jws_header.get("kid"))
     _secret = _context.cdb[ca_jwt["iss"]].get("client_secret")
     if _secret and keys[0].key != as_bytes(_secret): raise AttributeError(...)
   KeyJar.get -> KeyIssuer.get: ALL symmetric keys filed under iss (no 0/1/many rule here), or with a kid header
   those carrying that kid; the FIRST of them must be the client's CURRENT secret, whatever else the key jar holds.
   false = one of KeyError (cdb[iss]), IndexError (keys[0]), AttributeError: all mean "next method" *)
Definition hs_keys (kj : keyjar) (i : pystr) (kid : option pystr) : list vkey :=
  match assoc i (kj_iss kj) with
  | None => []
  | Some ks => pick kj kid (filter (vkey_is AlgHS) ks)
  end.
Definition hs_key_is_secret (cx : actx) (i : pystr) (kid : option pystr) : bool :=
  match assoc i (cx_cdb cx) with
  | None => false                               (* KeyError: cdb[iss] *)
  | Some c =>
      match c_secret c with
      | None | Some [] => true                  (* no secret: nothing is compared *)
      | Some s =>
          match hs_keys (cx_kj cx) i kid with
          | VOct k0 :: _ => str_eqb k0 s      (* keys[0].key == secret *)
          | _ => false                        (* IndexError *)
          end
      end
  end.

(* key_type = "client_secret" (hs = true) / "private_key" (hs = false) against the alg header *)
Definition key_type_ok (cx : actx) (hs : bool) (j : jwt) : bool :=
  match j_alg j with
  | AlgHS => hs && match j_iss j with
                   | None => false              (* KeyError 'iss' *)
                   | Some i => hs_key_is_secret cx i (j_kid j)
                   end
  | _ => negb hs                                (* AttributeError("Wrong key type") *)
  end.

(* JWSAuthnMethod._verify with key_type = "client_secret" (hs = true) or "private_key" (hs = false) *)
Definition jws_verify (cx : actx) (ep : endpoint) (now : Z) (m : meth) (hs : bool) (t : token) (jdb : jti_db)
  : vres * jti_db :=
  match unpack (cx_kj cx) now t with
  | UInvalid => (VAbort ClientAuthenticationError, jdb)
  | UOther => (VSkip, jdb)
  | UOk =>
      match t with
      | NotJwt => (VSkip, jdb)
      | Jwt j =>
          if negb (key_type_ok cx hs j) then (VSkip, jdb)
          else match j_aud j with
               | None => (VSkip, jdb)                                  (* KeyError 'aud' *)
               | Some aud =>
                   if negb (intersects aud (ep_targets ep)) then (VAbort InvalidToken, jdb)   (* "Not for me!" *)
                   else jti_then_client m j jdb
               end
      end
  end.

(* RequestParam._verify: signature and time through JWT.unpack, replay cache; no audience, no key type *)
Definition request_param_verify (cx : actx) (now : Z) (t : token) (jdb : jti_db) : vres * jti_db :=
  match unpack (cx_kj cx) now t with
  | UInvalid => (VAbort ClientAuthenticationError, jdb)
  | UOther => (VSkip, jdb)
  | UOk => match t with NotJwt => (VSkip, jdb) | Jwt j => jti_then_client MRequestParam j jdb end
  end.

Definition verify_method (cx : actx) (ep : endpoint) (rq : request) (now : Z) (jdb : jti_db) (m : meth)
  : vres * jti_db :=
  match m with
  | MBasic =>
      match r_hdr rq with
      | HBasicText s => match split1_c colon s with
                        | None => (VSkip, jdb)                         (* ValueError("Illegal token") *)
                        | Some (id, secret) => (secret_check cx MBasic id secret, jdb)
                        end
      | _ => (VSkip, jdb)                                              (* binascii.Error / UnicodeDecodeError *)
      end
  | MPost =>
      match r_client_id rq, r_client_secret rq with
      | Some id, Some s => (secret_check cx MPost id s, jdb)
      | _, _ => (VSkip, jdb)
      end
  | MBearerHeader =>
      match r_hdr rq with
      | HBearer t =>
          let ok c := (VOk {| ai_client := Some c; ai_method := MBearerHeader; ai_token := Some t |}, jdb) in
          if ep_lookup ep then
            match cx_tok cx t with
            | TokClient c => ok c
            | TokToOld | TokKeyError => (VAbort BearerTokenAuthenticationError, jdb)
            | TokOther => ok []                                        (* swallowed: client_id = "" *)
            end
          else ok []
      | _ => (VSkip, jdb)
      end
  | MBearerBody =>
      match r_access_token rq with
      | None => (VAbort ClientAuthenticationError, jdb)
      | Some t =>
          if ep_lookup ep then
            match cx_tok cx t with
            | TokClient ((_ :: _) as c) => (VOk {| ai_client := Some c; ai_method := MBearerBody; ai_token := Some t |}, jdb)
            | TokClient [] => (VOk {| ai_client := None; ai_method := MBearerBody; ai_token := Some t |}, jdb)
            | _ => (VSkip, jdb)
            end
          else (VSkip, jdb)                                            (* TypeError: None is not callable *)
      end
  | MSecretJwt =>
      match r_assertion rq with Some t => jws_verify cx ep now MSecretJwt true t jdb | None => (VSkip, jdb) end
  | MPrivateJwt =>
      match r_assertion rq with Some t => jws_verify cx ep now MPrivateJwt false t jdb | None => (VSkip, jdb) end
  | MRequestParam =>
      match r_request rq with Some t => request_param_verify cx now t jdb | None => (VSkip, jdb) end
  | MPublic =>
      match r_client_id rq with
      | Some c => (VOk {| ai_client := Some c; ai_method := MPublic; ai_token := None |}, jdb)
      | None => (VSkip, jdb)
      end
  | MNone => (VOk {| ai_client := r_client_id rq; ai_method := MNone; ai_token := None |}, jdb)
  end.

(* ------------------------------------------------------------------ verify_client: after a method returned *)
(* _cinfo.get(f"{endpoint.endpoint_name}_client_authn_method", _cinfo.get("client_authn_method", None)) *)
Definition client_allowed_methods (c : client) (ep : endpoint) : option (list meth) :=
  match assoc (ep_name ep) (c_ep_methods c) with
  | Some l => Some l
  | None => c_methods c
  end.

Inductive post := PBreak | PRaise (e : exc) | PContinue.

Definition after_verify (cx : actx) (ep : endpoint) (now : Z) (ai : auth_info) : post :=
  match ai_client ai with
  | None => match ai_method ai with
            | MNone => PBreak                               (* method none without a client id *)
            | _ => PRaise ClientAuthenticationError         (* "Failed to verify client" *)
            end
  | Some cid =>
      match assoc cid (cx_cdb cx) with
      | None => PRaise UnknownClient
      | Some c =>
          if negb (valid_client_secret c now) then PRaise InvalidClient
          else match client_allowed_methods c ep with
               | Some l => if meth_in (ai_method ai) l then PBreak else PContinue    (* auth_info = {}; continue *)
               | None => PBreak
               end
      end
  end.

Fixpoint loop (cx : actx) (ep : endpoint) (rq : request) (now : Z) (ms : list meth) (jdb : jti_db)
  : res (option auth_info) * jti_db :=
  match ms with
  | [] => (Ok None, jdb)                                    (* auth_info = {} *)
  | m :: rest =>
      if usable rq m then
        match verify_method cx ep rq now jdb m with
        | (VAbort e, j1) => (Err e, j1)
        | (VSkip, j1) => loop cx ep rq now rest j1
        | (VOk ai, j1) =>
            match after_verify cx ep now ai with
            | PBreak => (Ok (Some ai), j1)
            | PRaise e => (Err e, j1)
            | PContinue => loop cx ep rq now rest j1
            end
        end
      else loop cx ep rq now rest jdb
  end.

Definition effective_methods (ep : endpoint) : list meth :=
  match ep_methods ep with [] => registry | l => l end.

Definition verify_client (cx : actx) (ep : endpoint) (rq : request) (now : Z) (jdb : jti_db)
  : res (option auth_info) * jti_db :=
  loop cx ep rq now (effective_methods ep) jdb.

(* Endpoint.client_authentication *)
Definition client_authentication (cx : actx) (ep : endpoint) (rq : request) (now : Z) (jdb : jti_db)
  : res (option auth_info) * jti_db :=
  match verify_client cx ep rq now jdb with
  | (Ok None, j1) => match ep_methods ep with
                     | [] => (Ok None, j1)
                     | _ => (Err UnAuthorizedClient, j1)
                     end
  | r => r
  end.

(* ------------------------------------------------------------------ parse_request *)
(* [client] is the client id parse_request passes to verify_request / do_post_parse_request (the local
   _client_id); [req_client] is the client_id parameter the parsed REQUEST carries at that moment, i.e. the
   identity every process_request (token helpers, revocation, introspection, PAR) acts under *)
Inductive parsed :=
| PGeneric (client : option pystr) (req_client : option pystr) (authenticated : bool)
                                                            (* Endpoint.parse_request before verify/post-parse *)
| PUserinfo (client : option pystr) (req_client : option pystr) (tok : pystr)
                                                            (* UserInfo.parse_request handing on client and token *)
| PUserinfoError.                                           (* error_cls(error="invalid_token") *)

(* req["client_id"] = c *)
Definition set_client_id (rq : request) (c : pystr) : request :=
  {| r_hdr := r_hdr rq; r_client_id := Some c; r_client_secret := r_client_secret rq;
     r_access_token := r_access_token rq; r_assertion := r_assertion rq; r_request := r_request rq;
     r_authflag := r_authflag rq |}.

Definition authenticating (m : meth) : bool := negb (meth_in m [MPublic; MNone]).

Definition parse_request (cx : actx) (ep : endpoint) (rq : request) (now : Z) (jdb : jti_db)
  : res parsed * jti_db :=
  let '(r, j1) := client_authentication cx ep rq now jdb in
  if ep_userinfo ep then
    match r with
    | Err e => if is_cae e then (Ok PUserinfoError, j1) else (Err e, j1)
    | Unmodelled => (Unmodelled, j1)
    | Ok None => (Err KeyError, j1)                          (* auth_info["client_id"] *)
    | Ok (Some ai) => match ai_token ai with
                      | None => (Err KeyError, j1)           (* auth_info["token"] *)
                      (* request["client_id"] = auth_info["client_id"]; request["access_token"] = auth_info["token"] *)
                      | Some t => (Ok (PUserinfo (ai_client ai) (ai_client ai) t), j1)
                      end
    end
  else
    match r with
    | Err e => (Err e, j1)
    | Unmodelled => (Unmodelled, j1)
    (* "authenticated" is deleted from the request before client authentication (whatever r_authflag
       says) and set only for an authenticating method that named a client *)
    | Ok None => (Ok (PGeneric (r_client_id rq) (r_client_id rq) false), j1)    (* _client_id = req.get("client_id") *)
    | Ok (Some ai) =>
        match ai_client ai with
        | Some ((_ :: _) as c) =>
            (* req["client_id"] = _client_id: whatever client_id the body carried is OVERWRITTEN with the
               authenticated one; then req["authenticated"] = True for an authenticating method *)
            let rq' := set_client_id rq c in
            (Ok (PGeneric (Some c) (r_client_id rq') (authenticating (ai_method ai))), j1)
        | _ => (Ok (PGeneric (r_client_id rq) (r_client_id rq) false), j1)
        end
    end.

(* ------------------------------------------------------------------ delivery forms: encrypted wrappers *)
(* A client_assertion / request parameter AS DELIVERED.  A provider that owns a decryption key (it publishes the
   public half, e.g. for encrypted request objects) is handed compact JWEs as well, and anybody can make one.
   cryptojwt's JWT.unpack, called by all three JWS-based methods:
       _decryptor = jwe_factory(token)
       if _decryptor:  _info = self._decrypt(_decryptor, token)          # raises when no key of mine decrypts
                       _content_type = headers.get("cty", "")
       else:           _content_type = "jwt"; _info = token
       if _content_type.lower() == "jwt":
           _verifier = jws_factory(_info)
           if _verifier: _info = self._verify(_verifier, _info)           # signature check, keys of the iss
           else: raise Exception()
           _jws_header = _verifier.jwt.headers
       else:
           try: _info = json.loads(_info)          # claims WITHOUT any signature check, _jws_header stays None
           except JSONDecodeError: return _info    # the plaintext itself (str / bytes), not a message
   [mine]: one of the provider's private keys decrypts the wrapper; [cty]: the JWE header carries cty = JWT. *)
Inductive content :=
| CTok (t : token)                            (* the plaintext is a compact JWS (Jwt j) / some other text (NotJwt) *)
| CJson (j : jwt)                             (* the plaintext is the bare JSON claims of j; nobody signed: j_alg / j_key
                                                 / j_kid of j mean nothing *)
| CJwe (mine cty : bool) (c : content).       (* the plaintext is another compact JWE *)
Inductive wire :=
| WPlain (t : token)                          (* not a JWE: what [token] has described so far *)
| WJwe (mine cty : bool) (c : content).

Inductive opened :=
| OSigned (t : token)      (* goes through jws_factory / _verify: handled as the bare token t *)
| OUnsigned (j : jwt)      (* unpack hands back claims that NO signature check has seen; jws_header is None *)
| ORaw                     (* unpack hands back the plaintext as it is: a str / bytes object, no claims at all *)
| OFail.                   (* decryption failed, or `raise Exception()`: the content typed JWT is no JWS *)

Definition open_assertion (w : wire) : opened :=
  match w with
  | WPlain t => OSigned t
  | WJwe false _ _ => OFail
  | WJwe true true (CTok (Jwt j)) => OSigned (Jwt j)
  | WJwe true true _ => OFail                 (* text, bare JSON or a JWE typed as JWT: jws_factory gives None *)
  | WJwe true false (CJson j) => OUnsigned j
  | WJwe true false _ => ORaw                 (* a JWS / JWE / text without cty is not JSON: returned as is *)
  end.

(* JWSAuthnMethod._verify on a delivered object.  After unpack:
       _sign_alg = ca_jwt.jws_header.get("alg")       # AttributeError: jws_header is None / a str has no jws_header
   verify_client takes any such exception for "this method failed, try the next one" *)
Definition jws_verify_w (cx : actx) (ep : endpoint) (now : Z) (m : meth) (hs : bool) (w : wire) (jdb : jti_db)
  : vres * jti_db :=
  match open_assertion w with
  | OSigned t => jws_verify cx ep now m hs t jdb
  | OUnsigned _ | ORaw | OFail => (VSkip, jdb)
  end.
(* RequestParam._verify on a delivered object.  After unpack:
       if not getattr(_jwt, "jws_header", None): raise ValueError("The request object is not signed") *)
Definition request_param_verify_w (cx : actx) (now : Z) (w : wire) (jdb : jti_db) : vres * jti_db :=
  match open_assertion w with
  | OSigned t => request_param_verify cx now t jdb
  | OUnsigned _ | ORaw | OFail => (VSkip, jdb)
  end.

(* The request as delivered, and the bare request the method loop treats in the same way: a delivered object that
   opens to a JWS is that JWS; one that does not is handled like an object nobody signed (alg none) - every
   JWS-based method gives up on it whatever the provider's state ([seen_equiv_*] in Proofs), and no other method
   looks at it. *)
Definition unsigned_jwt (j : jwt) : jwt :=
  {| j_alg := AlgNone; j_key := j_key j; j_kid := None; j_iss := j_iss j; j_sub := j_sub j; j_azp := j_azp j;
     j_cid := j_cid j; j_aud := j_aud j; j_exp := j_exp j; j_nbf := j_nbf j; j_iat := j_iat j; j_jti := j_jti j |}.
Definition no_claims : jwt :=
  {| j_alg := AlgNone; j_key := KSym []; j_kid := None; j_iss := None; j_sub := None; j_azp := None; j_cid := None;
     j_aud := None; j_exp := None; j_nbf := None; j_iat := None; j_jti := None |}.
Definition seen (w : wire) : token :=
  match open_assertion w with
  | OSigned t => t
  | OUnsigned j => Jwt (unsigned_jwt j)
  | ORaw | OFail => Jwt no_claims
  end.

Record wrequest := {
  w_hdr : header;
  w_client_id : option pystr;  w_client_secret : option pystr;
  w_access_token : option pystr;
  w_assertion : option wire;
  w_request : option wire;
  w_authflag : bool }.
Definition deliver (q : wrequest) : request :=
  {| r_hdr := w_hdr q; r_client_id := w_client_id q; r_client_secret := w_client_secret q;
     r_access_token := w_access_token q; r_assertion := option_map seen (w_assertion q);
     r_request := option_map seen (w_request q); r_authflag := w_authflag q |}.
(* the same request with every wrapper taken off *)
Definition unwrapped (q : wrequest) : wrequest :=
  {| w_hdr := w_hdr q; w_client_id := w_client_id q; w_client_secret := w_client_secret q;
     w_access_token := w_access_token q; w_assertion := option_map (fun w => WPlain (seen w)) (w_assertion q);
     w_request := option_map (fun w => WPlain (seen w)) (w_request q); w_authflag := w_authflag q |}.

(* one method on the request as delivered (the method classes as they are written) *)
Definition verify_method_w (cx : actx) (ep : endpoint) (q : wrequest) (now : Z) (jdb : jti_db) (m : meth)
  : vres * jti_db :=
  match m with
  | MSecretJwt =>
      match w_assertion q with Some w => jws_verify_w cx ep now MSecretJwt true w jdb | None => (VSkip, jdb) end
  | MPrivateJwt =>
      match w_assertion q with Some w => jws_verify_w cx ep now MPrivateJwt false w jdb | None => (VSkip, jdb) end
  | MRequestParam =>
      match w_request q with Some w => request_param_verify_w cx now w jdb | None => (VSkip, jdb) end
  | _ => verify_method cx ep (deliver q) now jdb m
  end.
Definition client_authentication_w (cx : actx) (ep : endpoint) (q : wrequest) (now : Z) (jdb : jti_db)
  : res (option auth_info) * jti_db := client_authentication cx ep (deliver q) now jdb.
Definition parse_request_w (cx : actx) (ep : endpoint) (q : wrequest) (now : Z) (jdb : jti_db)
  : res parsed * jti_db := parse_request cx ep (deliver q) now jdb.

(* the delivered object a JWS-based method looked at *)
Definition used_wire (q : wrequest) (m : meth) : option wire :=
  match m with
  | MSecretJwt | MPrivateJwt => w_assertion q
  | MRequestParam => w_request q
  | _ => None
  end.
Definition jws_method (m : meth) : bool := meth_in m [MSecretJwt; MPrivateJwt; MRequestParam].

(* ------------------------------------------------------------------ the inner claims of an assertion *)
(* the same signed JWT with other values for the claims that name a client besides iss *)
Definition jwt_with_inner (s a c : option pystr) (j : jwt) : jwt :=
  {| j_alg := j_alg j; j_key := j_key j; j_kid := j_kid j; j_iss := j_iss j; j_sub := s; j_azp := a; j_cid := c;
     j_aud := j_aud j; j_exp := j_exp j; j_nbf := j_nbf j; j_iat := j_iat j; j_jti := j_jti j |}.
Definition token_with_inner (s a c : option pystr) (t : token) : token :=
  match t with NotJwt => NotJwt | Jwt j => Jwt (jwt_with_inner s a c j) end.
(* the request whose client_assertion and request object carry these inner claims instead *)
Definition rq_with_inner (s a c : option pystr) (rq : request) : request :=
  {| r_hdr := r_hdr rq; r_client_id := r_client_id rq; r_client_secret := r_client_secret rq;
     r_access_token := r_access_token rq;
     r_assertion := option_map (token_with_inner s a c) (r_assertion rq);
     r_request := option_map (token_with_inner s a c) (r_request rq);
     r_authflag := r_authflag rq |}.

(* ------------------------------------------------------------------ the credential history of a client *)
(* What happens to a client's credentials over the life of a provider.
   CReg: Registration.client_registration_setup ACCEPTS a registration, for a new id and for an id that is (or
         was) in use alike (process_request(req, new_id=False)):
           context.cdb[id] = the new record   (new client_secret, new expiry, ...: the old record is gone)
           the key-jar entry of the id is taken out; keyjar.load_keys(id, jwks=...) files the keys of the request,
           keyjar.add_symmetric(id, client_secret) files the new secret
         so the key material in force afterwards is exactly what this registration brought.  rg_kids: the kids
         the new keys carry.
   CRefused: a registration that is refused (error message or exception) rolls everything back: no effect.
   CDel: del context.cdb[id] (the key jar is not touched).
   CFile: keyjar.add_symmetric(id, s) / keyjar.import_jwks(jwks, id) by the deployer: APPENDS to what is filed.
   CSet: context.cdb[id] = record by the deployer (e.g. a new secret for a static client). *)
Record registration := {
  rg_id : pystr;  rg_client : client;  rg_keys : list vkey;  rg_kids : list (vkey * pystr) }.

Definition secret_keys (c : client) : list vkey :=
  match c_secret c with Some (x :: s) => [VOct (x :: s)] | _ => [] end.
Definition in_force (r : registration) : list vkey := rg_keys r ++ secret_keys (rg_client r).
Definition register (cx : actx) (r : registration) : actx :=
  {| cx_cdb := aset (rg_id r) (rg_client r) (cx_cdb cx);
     cx_kj := {| kj_iss := aset (rg_id r) (in_force r) (kj_iss (cx_kj cx));
                 kj_own := kj_own (cx_kj cx);
                 kj_kid := kj_kid (cx_kj cx) ++ rg_kids r |};
     cx_tok := cx_tok cx |}.
Definition unregister (cx : actx) (i : pystr) : actx :=
  {| cx_cdb := adel i (cx_cdb cx); cx_kj := cx_kj cx; cx_tok := cx_tok cx |}.
Definition file_keys (cx : actx) (i : pystr) (ks : list vkey) (kids : list (vkey * pystr)) : actx :=
  {| cx_cdb := cx_cdb cx;
     cx_kj := {| kj_iss := aset i (match assoc i (kj_iss (cx_kj cx)) with Some l => l ++ ks | None => ks end)
                             (kj_iss (cx_kj cx));
                 kj_own := kj_own (cx_kj cx);
                 kj_kid := kj_kid (cx_kj cx) ++ kids |};
     cx_tok := cx_tok cx |}.
Definition set_record (cx : actx) (i : pystr) (c : client) : actx :=
  {| cx_cdb := aset i c (cx_cdb cx); cx_kj := cx_kj cx; cx_tok := cx_tok cx |}.

Inductive cred_op :=
| CReg (r : registration) | CRefused (r : registration) | CDel (i : pystr)
| CFile (i : pystr) (ks : list vkey) (kids : list (vkey * pystr)) | CSet (i : pystr) (c : client).
Definition cred_step (cx : actx) (o : cred_op) : actx :=
  match o with
  | CReg r => register cx r
  | CRefused _ => cx
  | CDel i => unregister cx i
  | CFile i ks kids => file_keys cx i ks kids
  | CSet i c => set_record cx i c
  end.
Definition cred_run (cx : actx) (h : list cred_op) : actx := fold_left cred_step h cx.
(* the client an operation is about *)
Definition op_client (o : cred_op) : pystr :=
  match o with CReg r | CRefused r => rg_id r | CDel i | CFile i _ _ | CSet i _ => i end.

(* ------------------------------------------------------------------ histories (for the replay theorem) *)
Record step := { s_cx : actx; s_ep : endpoint; s_rq : request; s_now : Z }.

(* the signed JWT a JWT-based method looked at *)
Definition used_jwt (rq : request) (m : meth) : option jwt :=
  match m with
  | MSecretJwt | MPrivateJwt => match r_assertion rq with Some (Jwt j) => Some j | _ => None end
  | MRequestParam => match r_request rq with Some (Jwt j) => Some j | _ => None end
  | _ => None
  end.

(* did this step accept (some client, through a JWT method) an assertion with replay-cache key k ? *)
Definition accepted_key (k : pystr) (s : step) (r : res (option auth_info)) : bool :=
  match r with
  | Ok (Some ai) =>
      match used_jwt (s_rq s) (ai_method ai) with
      | Some j => match j_iss j, j_jti j with
                  | Some i, Some t => str_eqb (jti_key i t) k
                  | _, _ => false
                  end
      | None => false
      end
  | _ => false
  end.

Fixpoint count_accepted (k : pystr) (h : list step) (jdb : jti_db) : nat :=
  match h with
  | [] => O
  | s :: rest =>
      let '(r, j1) := client_authentication (s_cx s) (s_ep s) (s_rq s) (s_now s) jdb in
      (if accepted_key k s r then 1 else 0)%nat + count_accepted k rest j1
  end.

(* ------------------------------------------------------------------ checkers for generated cases *)
Definition tok_table (l : list (pystr * tok_res)) (t : pystr) : tok_res :=
  match assoc t l with Some r => r | None => TokOther end.

Definition opt_str_eqb := option_eqb str_eqb.
Definition ai_eqb (a b : auth_info) : bool :=
  opt_str_eqb (ai_client a) (ai_client b) && meth_eqb (ai_method a) (ai_method b)
  && opt_str_eqb (ai_token a) (ai_token b).
Definition parsed_eqb (a b : parsed) : bool :=
  match a, b with
  | PGeneric c rc x, PGeneric c' rc' x' => opt_str_eqb c c' && opt_str_eqb rc rc' && Bool.eqb x x'
  | PUserinfo c rc t, PUserinfo c' rc' t' => opt_str_eqb c c' && opt_str_eqb rc rc' && str_eqb t t'
  | PUserinfoError, PUserinfoError => true
  | _, _ => false
  end.

(* one correspondence case = one history: a configuration and a sequence of requests threading one replay
   cache; per request the clock, what the real Endpoint.client_authentication answered, what the real
   parse_request handed on, and the keys the real jti_db gained *)
Record hstep := {
  h_rq : request;  h_now : Z;
  h_obs_auth : res (option auth_info);  h_obs_parse : res parsed;  h_new : jti_db }.
Record hcase := {
  hc_cdb : list (pystr * client);  hc_kj : keyjar;  hc_tok : list (pystr * tok_res);
  hc_ep_cfg : option (list meth);  hc_ep : endpoint;     (* hc_ep's method list is recomputed from hc_ep_cfg *)
  hc_jdb0 : jti_db;  hc_steps : list hstep }.

Definition case_cx (c : hcase) : actx :=
  {| cx_cdb := hc_cdb c; cx_kj := hc_kj c; cx_tok := tok_table (hc_tok c) |}.
Definition case_ep (c : hcase) : endpoint :=
  {| ep_name := ep_name (hc_ep c); ep_methods := configured_methods (hc_ep_cfg c);
     ep_targets := ep_targets (hc_ep c); ep_lookup := ep_lookup (hc_ep c); ep_userinfo := ep_userinfo (hc_ep c) |}.

Definition step_ok (cx : actx) (ep : endpoint) (jdb : jti_db) (s : hstep) : bool :=
  let '(a, j1) := client_authentication cx ep (h_rq s) (h_now s) jdb in
  let '(p, j2) := parse_request cx ep (h_rq s) (h_now s) jdb in
  res_eqb (option_eqb ai_eqb) a (h_obs_auth s)
  && res_eqb parsed_eqb p (h_obs_parse s)
  && list_eqb str_eqb j1 (jdb ++ h_new s) && list_eqb str_eqb j2 (jdb ++ h_new s).

(* indices of the steps on which model and implementation differ; every step starts from the replay cache
   the implementation had (so one difference does not cascade) *)
Fixpoint bad_steps (cx : actx) (ep : endpoint) (jdb : jti_db) (i : nat) (steps : list hstep) : list nat :=
  match steps with
  | [] => []
  | s :: r => (if step_ok cx ep jdb s then [] else [i]) ++ bad_steps cx ep (jdb ++ h_new s) (S i) r
  end.
Definition diag_history (c : hcase) : list nat := bad_steps (case_cx c) (case_ep c) (hc_jdb0 c) O (hc_steps c).
Definition chk_history (c : hcase) : bool := match diag_history c with [] => true | _ => false end.
(* what the model answers on step i (diagnostics) *)
Fixpoint jdb_at (jdb : jti_db) (i : nat) (steps : list hstep) : jti_db * option hstep :=
  match steps, i with
  | [], _ => (jdb, None)
  | s :: _, O => (jdb, Some s)
  | s :: r, S i' => jdb_at (jdb ++ h_new s) i' r
  end.
Definition diag_step (c : hcase) (i : nat) :=
  match jdb_at (hc_jdb0 c) i (hc_steps c) with
  | (jdb, Some s) => Some (client_authentication (case_cx c) (case_ep c) (h_rq s) (h_now s) jdb,
                           fst (parse_request (case_cx c) (case_ep c) (h_rq s) (h_now s) jdb))
  | _ => None
  end.

(* valid_client_secret called directly: (has secret, expires_at, now, observed) *)
Definition chk_valid_secret (c : bool * option Z * Z * bool) : bool :=
  let '(has, eta, now, obs) := c in
  Bool.eqb (valid_client_secret {| c_secret := if has then Some [120%N] else None; c_expires := eta;
                                   c_methods := None; c_ep_methods := [] |} now) obs.

(* the registry: tags of CLIENT_AUTHN_METHOD in order *)
Definition chk_registry (tags : list pystr) : bool := list_eqb str_eqb (List.map meth_tag registry) tags.

(* set_client_authn_methods: (configured, observed endpoint.client_authn_method as tags) *)
Definition chk_configured (c : option (list meth) * list pystr) : bool :=
  list_eqb str_eqb (List.map meth_tag (configured_methods (fst c))) (snd c).

(* one registration step of a real provider: the credentials before (client database, key jar), the registration
   (record stored, keys of the request, their kids), and what the real client database / key jar hold afterwards *)
Definition client_eqb (a b : client) : bool :=
  opt_str_eqb (c_secret a) (c_secret b) && option_eqb Z.eqb (c_expires a) (c_expires b).
(* dictionaries compared as maps (the order of the entries plays no part in client authentication) *)
Definition map_eqb {V} (eqb : V -> V -> bool) (a b : list (pystr * V)) : bool :=
  forallb (fun p => option_eqb eqb (assoc (fst p) a) (assoc (fst p) b)) (a ++ b).
Definition cdb_eqb := map_eqb client_eqb.
Definition kjiss_eqb := map_eqb (list_eqb vkey_eqb).
Definition all_keys (kj : keyjar) : list vkey := flat_map snd (kj_iss kj) ++ kj_own kj.
Record rcase := {
  rc_cdb : list (pystr * client);  rc_kj : keyjar;  rc_op : cred_op;
  rc_cdb' : list (pystr * client);  rc_kj' : keyjar }.
Definition chk_register (c : rcase) : bool :=
  let cx' := cred_step {| cx_cdb := rc_cdb c; cx_kj := rc_kj c; cx_tok := fun _ => TokOther |} (rc_op c) in
  cdb_eqb (cx_cdb cx') (rc_cdb' c)
  && kjiss_eqb (kj_iss (cx_kj cx')) (kj_iss (rc_kj' c))
  && list_eqb vkey_eqb (kj_own (cx_kj cx')) (kj_own (rc_kj' c))
  && forallb (fun v => str_eqb (kid_of (cx_kj cx') v) (kid_of (rc_kj' c) v)) (all_keys (rc_kj' c)).
