(* Model/Cookie.v — idpyoidc.server.cookie_handler.CookieHandler:
     make_cookie_content / _sign_enc_payload   (what the provider puts into a cookie value)
     parse_cookie / _ver_dec_content           (what it accepts back)
   Hand-written, total, executable; tied to the code by harness/drv_C17.py on every run.  No proofs here.

   Cryptography is symbolic (Lib/Crypto.v).  A cookie value on the wire is a string; the model sees it as a
   sequence of SYMBOLS: ordinary characters, and atomic BLOBS — the complete base64 text of one
   cryptographic value (an HMAC, an AES-GCM ciphertext, an AES-GCM tag, a Fernet token).  Everything the
   handler does to the outer string — split at '|', regroup, compare the clear-text timestamp, take the
   text of a part — is modelled on symbol sequences exactly; base64-decoding a part yields the cryptographic
   value iff the part is exactly one blob.  A part that mixes a blob with other characters in a position
   that is base64-decoded has no symbolic meaning (byte-level alteration): the model answers Unmodelled and
   the driver leaves such cases to the oracle.  btxt gives the text of a blob (needed where a blob's text
   ends up inside a clear-text position, e.g. a MAC copied into the payload).

   Protection modes (CookieHandler.__init__): sign_key only (S) / sign_key+enc_key (SE) / enc_key only (E) /
   crypt = Fernet encrypter (C).  Key numbers are abstract key identities. *)
From Verif Require Import Lib.Base Lib.PyStr Lib.Crypto Model.Lv.
Open Scope N_scope.

Definition bar : N := 124.
Definition space : N := 32.

Inductive sym := Ch (c : N) | Bl (t : term).
Notation wire := (list sym).
Definition chs (s : pystr) : wire := List.map Ch s.

Fixpoint term_eqb (a b : term) : bool :=
  match a, b with
  | Atom x, Atom y => str_eqb x y
  | Key x, Key y | Pub x, Pub y => Nat.eqb x y
  | Pair a1 a2, Pair b1 b2 => term_eqb a1 b1 && term_eqb a2 b2
  | AEnc k1 r1 m1, AEnc k2 r2 m2 => Nat.eqb k1 k2 && str_eqb r1 r2 && term_eqb m1 m2
  | Mac k1 m1, Mac k2 m2 | Sig k1 m1, Sig k2 m2 => Nat.eqb k1 k2 && term_eqb m1 m2
  | _, _ => false
  end.

(* ---- the outer string operations on symbol sequences ---- *)
Definition is_bar (s : sym) : bool := match s with Ch c => c =? bar | Bl _ => false end.
Definition is_ch (s : sym) : bool := match s with Ch _ => true | Bl _ => false end.
Definition wcons_hd (s : sym) (l : list wire) : list wire :=
  match l with [] => [[s]] | x :: xs => (s :: x) :: xs end.
(* value.split("|") *)
Fixpoint wsplit (w : wire) : list wire :=
  match w with
  | [] => [[]]
  | s :: r => if is_bar s then [] :: wsplit r else wcons_hd s (wsplit r)
  end.
(* "|".join(parts) *)
Fixpoint wjoin (l : list wire) : wire :=
  match l with
  | [] => []
  | [x] => x
  | x :: r => x ++ Ch bar :: wjoin r
  end.

(* payload.rsplit("::", 1) followed by `value, typ = ...` : split at the RIGHTMOST "::"; None = ValueError *)
Fixpoint rsplit1 (a : N) (s : pystr) : option (pystr * pystr) :=
  match s with
  | [] => None
  | c :: r =>
      match rsplit1 a r with
      | Some (x, y) => Some (c :: x, y)
      | None => match r with
                | d :: r' => if (c =? a) && (d =? a) then Some ([], r') else None
                | [] => None
                end
      end
  end.

(* cryptojwt FernetEncrypter pads the plaintext with spaces to a multiple of 16 bytes and decrypt() does
   rstrip(b" "): what comes back is the plaintext without its trailing U+0020 characters *)
Fixpoint lstrip_sp (s : pystr) : pystr :=
  match s with c :: r => if c =? space then lstrip_sp r else s | [] => [] end.
Definition rstrip_sp (s : pystr) : pystr := List.rev (lstrip_sp (List.rev s)).

(* ---- handler configuration ---- *)
Record handler := mk_handler { h_sk : option nat; h_ek : option nat; h_ck : option nat }.
Definition signed_only (h : handler) : bool :=
  match h_sk h, h_ek h, h_ck h with Some _, None, None => true | _, _, _ => false end.

Definition payload_of (value typ : pystr) : pystr := value ++ colon :: colon :: typ.
(* signer.sign(lv_pack(payload, timestamp)) *)
Definition mac_of (k : nat) (payload ts : pystr) : term := Mac k (Atom (lv_pack [payload; ts])).

(* _sign_enc_payload(payload, timestamp); r is the randomness drawn (the base64 text of the AES-GCM iv; an
   identifier of the Fernet token).  The AES-GCM tag authenticates iv and ciphertext: Mac k (AEnc k r pt).
   The SE plaintext lv_pack(payload, timestamp, b64(mac)) is the term Pair (Atom lv_pack(payload, timestamp)) mac. *)
Definition sign_enc_payload (h : handler) (payload ts r : pystr) : wire :=
  let mac := option_map (fun k => mac_of k payload ts) (h_sk h) in
  match h_ek h with
  | Some k =>
      let pt := match mac with
                | Some m => Pair (Atom (lv_pack [payload; ts])) m
                | None => Atom (lv_pack [payload; ts])
                end in
      let c := AEnc k r pt in
      chs ts ++ Ch bar :: chs r ++ Ch bar :: Bl c :: Ch bar :: [Bl (Mac k c)]
  | None =>
      match h_ck h with
      | Some k => chs ts ++ Ch bar :: [Bl (AEnc k r (Atom (lv_pack [ts; payload])))]
      | None => chs ts ++ Ch bar :: chs payload ++ Ch bar :: match mac with Some m => [Bl m] | None => [] end
      end
  end.

(* str(int(utc_time_sans_frac())): decimal rendering straight from the binary representation (PyStr.str_of_Z
   goes through unary nat and must not be evaluated on epoch-sized numbers) *)
Definition dec_of_Z (z : Z) : pystr :=
  match z with
  | Z0 => [48]
  | Zpos p => uint_codes (Pos.to_uint p)
  | Zneg p => 45 :: uint_codes (Pos.to_uint p)
  end.

(* make_cookie_content(name, value, typ, timestamp)["value"]; `now` is utc_time_sans_frac() *)
Definition make_cookie (h : handler) (value typ ts : pystr) (now : Z) (r : pystr) : wire :=
  let ts := match ts with [] => dec_of_Z now | _ => ts end in
  match value, typ with
  | [], [] => []
  | _, _ => sign_enc_payload h (payload_of value typ) ts r
  end.

Definition macv (k : nat) (msg : pystr) (t : term) : bool :=
  match t with Mac k' (Atom m') => Nat.eqb k k' && str_eqb msg m' | _ => false end.
Definition tagv (k : nat) (c : term) (t : term) : bool :=
  match t with Mac k' c' => Nat.eqb k k' && term_eqb c c' | _ => false end.

Inductive bview := BV (t : term) | BGarbage | BMixed.
(* base64-decoding a part: exactly one blob -> that value; only characters -> bytes that are no valid
   MAC / ciphertext / tag (idealisation: typed text never is); otherwise no symbolic meaning *)
Definition blob_view (p : wire) : bview :=
  match p with
  | [Bl t] => BV t
  | _ => if forallb is_ch p then BGarbage else BMixed
  end.

Definition rejected {A} : res A := Err (Refused 1).   (* raised VerificationError / binascii.Error / InvalidToken ... *)

Section Parse.
  Variable btxt : term -> pystr.

  Definition wtext (w : wire) : pystr :=
    flat_map (fun s => match s with Ch c => [c] | Bl t => btxt t end) w.

  (* _ver_dec_content, len(parts) == 2 *)
  Definition ver2 (h : handler) (t0_p enc_p : wire) : res (option (pystr * pystr)) :=
    match h_ck h with
    | None => rejected                                  (* VerificationError("Can not decrypt") *)
    | Some k =>
        match blob_view enc_p with
        | BMixed => Unmodelled
        | BGarbage => rejected
        | BV t =>
            match adec k t with
            | Some (Atom s) =>
                p <- lv_unpack (rstrip_sp s) ;;
                match p with
                | [t1; payload] => if str_eqb (wtext t0_p) t1 then Ok (Some (payload, t1)) else rejected
                | _ => Err ValueError                  (* t1, payload = ... *)
                end
            | _ => rejected
            end
        end
    end.

  (* _ver_dec_content, len(parts) == 3 *)
  Definition ver3 (h : handler) (ts_p pay_p mac_p : wire) : res (option (pystr * pystr)) :=
    match h_sk h with
    | None => Err AttributeError                        (* self.sign_key.key *)
    | Some k =>
        match blob_view mac_p with
        | BMixed => Unmodelled
        | BGarbage => rejected
        | BV t =>
            let ts := wtext ts_p in
            let payload := wtext pay_p in
            if macv k (lv_pack [payload; ts]) t then Ok (Some (payload, ts)) else rejected
        end
    end.

  (* the decrypted AES-GCM message: p = lv_unpack(msg); payload = p[0]; timestamp = p[1];
     len(p) == 3 -> MAC check over p[2], otherwise accepted as is *)
  Definition open_plain (h : handler) (m : term) : res (option (pystr * pystr)) :=
    match m with
    | Atom s =>
        p <- lv_unpack s ;;
        match p with
        | payload :: ts :: rest =>
            match rest with
            | [_] => match h_sk h with
                     | None => Err AttributeError
                     | Some _ => Ok None                (* a typed third element is no valid MAC *)
                     end
            | _ => Ok (Some (payload, ts))
            end
        | _ => Err IndexError
        end
    | Pair (Atom s) mt =>
        p <- lv_unpack s ;;
        match p ++ [btxt mt] with
        | payload :: ts :: rest =>
            match rest with
            | [_] => match h_sk h with
                     | None => Err AttributeError
                     | Some k => match p with
                                 | [_; _] => if macv k (lv_pack [payload; ts]) mt then Ok (Some (payload, ts)) else Ok None
                                 | _ => Ok None
                                 end
                     end
            | _ => Ok (Some (payload, ts))
            end
        | _ => Err IndexError
        end
    | _ => rejected
    end.

  (* _ver_dec_content, len(parts) == 4 (parts[0], the clear-text timestamp, is not looked at) *)
  Definition ver4 (h : handler) (iv_p ct_p tag_p : wire) : res (option (pystr * pystr)) :=
    match h_ek h with
    | None => Err AttributeError                        (* self.enc_key.key *)
    | Some k =>
        match blob_view ct_p, blob_view tag_p with
        | BMixed, _ | _, BMixed => Unmodelled
        | BV c, BV tg =>
            match c with
            | AEnc k' r m =>
                if Nat.eqb k k' && str_eqb r (wtext iv_p) && tagv k c tg then open_plain h m
                else Ok None                            (* InvalidTag -> None *)
            | _ => Ok None
            end
        | _, _ => Ok None
        end
    end.

  Definition ver_dec (h : handler) (parts : list wire) : res (option (pystr * pystr)) :=
    match parts with
    | [a; b] => ver2 h a b
    | [a; b; c] => ver3 h a b c
    | [a; b; c; d] => ver4 h b c d
    | _ => Ok None
    end.

  (* parse_cookie: signed-only handlers regroup more than three parts around the outermost two *)
  Definition regroup (h : handler) (parts : list wire) : list wire :=
    if (3 <? length parts)%nat && signed_only h then
      match parts with
      | a :: rest => [a; wjoin (removelast rest); last rest []]
      | [] => parts
      end
    else parts.

  Definition parse_cookie (h : handler) (w : wire) : res (pystr * pystr * pystr) :=
    c <- ver_dec h (regroup h (wsplit w)) ;;
    match c with
    | None => rejected                                  (* not appended to the result list *)
    | Some (payload, ts) =>
        match rsplit1 colon payload with
        | Some (v, typ) => Ok (v, typ, ts)
        | None => Err ValueError
        end
    end.

  (* ---- parse_cookie(name, cookies) over a LIST of cookie dicts ----
     One turn of the loop for a cookie of the requested name: _ver_dec_content raises -> the whole call raises;
     returns None -> nothing is appended (Ok None); returns content -> the '::' split, one entry appended.
     Nothing is carried from one turn to the next: the entry of a cookie depends on that cookie alone. *)
  Definition content : Type := pystr * pystr * pystr.            (* value, type, timestamp *)
  Definition parse_one (h : handler) (w : wire) : res (option content) :=
    c <- ver_dec h (regroup h (wsplit w)) ;;
    match c with
    | None => Ok None
    | Some (payload, ts) =>
        match rsplit1 colon payload with
        | Some (v, typ) => Ok (Some (v, typ, ts))
        | None => Err ValueError
        end
    end.

  (* Whether a refused cookie makes _ver_dec_content RAISE or return None shows only when several cookies are
     parsed in one call (a raise refuses the whole list, None only skips the cookie).  For two, three and any
     other number of parts ver_dec above has the kind right.  For four parts it depends on byte-level facts:
     base64.b64decode of the iv / ciphertext / tag part raises (binascii.Error, ValueError) on text that is no
     base64, AESGCM raises ValueError on a nonce outside 8..128 bytes — all before the tag is looked at; only
     then InvalidTag -> None.  declen text = None (b64decode raises) | Some n (n bytes) is supplied by the
     driver from the standard library; a blob is the base64 of a cryptographic value and always decodes. *)
  Variable declen : pystr -> option nat.
  Definition part_decodes (p : wire) : bool :=
    match blob_view p with
    | BV _ => true
    | _ => match declen (wtext p) with Some _ => true | None => false end
    end.
  Definition iv_usable (p : wire) : bool :=
    match declen (wtext p) with Some n => (8 <=? n)%nat && (n <=? 128)%nat | None => false end.
  Definition hard_fail (h : handler) (w : wire) : bool :=
    match h_ek h, regroup h (wsplit w) with
    | Some _, [_; iv; ct; tg] => negb (iv_usable iv && part_decodes ct && part_decodes tg)
    | _, _ => false
    end.
  (* one turn of the loop, with the kind of refusal *)
  Definition parse_turn (h : handler) (w : wire) : res (option content) :=
    match parse_one h w with
    | Ok None => if hard_fail h w then rejected else Ok None
    | r => r
    end.

  (* a cookie dict: _cookie.get("name") (None = no "name" key) and _cookie["value"] *)
  Definition cookie : Type := option pystr * wire.
  Definition name_is (name : pystr) (c : cookie) : bool :=
    match fst c with Some n => str_eqb n name | None => false end.

  Fixpoint parse_loop (h : handler) (name : pystr) (cs : list cookie) : res (list content) :=
    match cs with
    | [] => Ok []
    | c :: r =>
        if name_is name c then
          x <- parse_turn h (snd c) ;;
          rest <- parse_loop h name r ;;
          Ok (match x with Some e => e :: rest | None => rest end)
        else parse_loop h name r
    end.

  (* `if not cookies: return None` *)
  Definition parse_cookies (h : handler) (name : pystr) (cs : list cookie) : res (option (list content)) :=
    match cs with
    | [] => Ok None
    | _ => l <- parse_loop h name cs ;; Ok (Some l)
    end.
End Parse.

(* ---- checkers for generated correspondence case files ---- *)
Definition btab := list (term * pystr).
Fixpoint btab_lookup (tab : btab) (t : term) : pystr :=
  match tab with
  | [] => []
  | (t', s) :: r => if term_eqb t t' then s else btab_lookup r t
  end.

(* make: (handler, value, typ, timestamp argument ("" = use the clock), clock, randomness observed, blob
   texts verified by the driver with its own crypto, the real cookie value) *)
Definition make_case : Type := handler * pystr * pystr * pystr * Z * pystr * btab * pystr.
Definition make_model (c : make_case) : pystr :=
  let '(h, v, typ, ts, now, r, tab, _) := c in wtext (btab_lookup tab) (make_cookie h v typ ts now r).
Definition chk_make (c : make_case) : bool :=
  let '(_, _, _, _, _, _, _, real) := c in str_eqb (make_model c) real.

(* parse: (handler, blob texts, the cookie value as symbols, observed: Some (value, type, timestamp) | None) *)
Definition parse_case : Type := handler * btab * wire * option (pystr * pystr * pystr).
Definition parse_model (c : parse_case) : res (pystr * pystr * pystr) :=
  let '(h, tab, w, _) := c in parse_cookie (btab_lookup tab) h w.
Definition content_eqb (a b : pystr * pystr * pystr) : bool :=
  let '(v1, t1, s1) := a in let '(v2, t2, s2) := b in str_eqb v1 v2 && str_eqb t1 t2 && str_eqb s1 s2.
(* every way of not accepting (exception, None) is one observation: "rejected" *)
Definition chk_parse (c : parse_case) : bool :=
  let '(_, _, _, obs) := c in
  match parse_model c, obs with
  | Ok x, Some y => content_eqb x y
  | Err _, None => true
  | Unmodelled, _ => true
  | _, _ => false
  end.
Definition is_modelled (c : parse_case) : bool :=
  match parse_model c with Unmodelled => false | _ => true end.

(* parse_cookie with several cookies in one call: (handler, blob texts, requested name, the cookie dicts,
   base64 facts (dtab: text of a part -> b64decode raises | number of bytes), observed: None = the call raised | Some None = returned None | Some (Some l) = returned the entries l) *)
Definition dtab := list (pystr * option nat).
Fixpoint dtab_lookup (tab : dtab) (s : pystr) : option nat :=
  match tab with
  | [] => None
  | (s', n) :: r => if str_eqb s s' then n else dtab_lookup r s
  end.
Definition list_case : Type := handler * btab * dtab * pystr * list cookie * option (option (list content)).
Definition list_model (c : list_case) : res (option (list content)) :=
  let '(h, tab, dt, name, cs, _) := c in parse_cookies (btab_lookup tab) (dtab_lookup dt) h name cs.
Definition chk_list (c : list_case) : bool :=
  let '(_, _, _, _, _, obs) := c in
  match list_model c, obs with
  | Ok x, Some y => option_eqb (list_eqb content_eqb) x y
  | Err _, None => true
  | Unmodelled, _ => true
  | _, _ => false
  end.
Definition list_is_modelled (c : list_case) : bool :=
  match list_model c with Unmodelled => false | _ => true end.

Definition chk_rsplit (c : pystr * option (pystr * pystr)) : bool :=
  option_eqb (fun a b => str_eqb (fst a) (fst b) && str_eqb (snd a) (snd b)) (rsplit1 colon (fst c)) (snd c).

(* ---- where a handler's keys come from ----
   CookieHandler.__init__ either takes key material the deployment supplies (sign_key / enc_key, a key file, a
   crypt_config with key or password AND salt) or lets the library generate it: `keys: {"key_defs": [...]}` without
   a key file (init_key_jar), crypt_config = default_crypt_config(), a crypt_config that names only the class or
   leaves key / password / salt out (init_encrypter's fallbacks: os.urandom, Fernet.generate_key).  A generated key
   is a DRAW from the process's random source: `sup d` is the key material of the d-th draw; constructing a handler
   consumes one draw per generated key, and so does every other library call that builds an encrypter (Server
   construction, token handlers, the session manager) in between.  A key derived from a given password and a
   generated salt (or the reverse) counts as one generated key. *)
Inductive ksrc := KGiven (k : nat) | KGen.
Record hspec := mk_hspec { s_sk : option ksrc; s_ek : option ksrc; s_ck : option ksrc }.
(* one step of a process's history: a cookie handler is built | something else draws m times *)
Inductive bstep := BHandler (s : hspec) | BOther (m : nat).

Section Build.
  Variable sup : nat -> nat.
  Definition take (s : option ksrc) (n : nat) : option nat * nat :=
    match s with
    | None => (None, n)
    | Some (KGiven k) => (Some k, n)
    | Some KGen => (Some (sup n), S n)
    end.
  (* the handler built when n draws have been made, and the number of draws made afterwards *)
  Definition construct (s : hspec) (n : nat) : handler * nat :=
    let '(sk, n1) := take (s_sk s) n in
    let '(ek, n2) := take (s_ek s) n1 in
    let '(ck, n3) := take (s_ck s) n2 in
    (mk_handler sk ek ck, n3).
  Fixpoint build_all (l : list bstep) (n : nat) : list handler :=
    match l with
    | [] => []
    | BHandler s :: r => let '(h, n') := construct s n in h :: build_all r n'
    | BOther m :: r => build_all r (n + m)
    end.
End Build.

(* correspondence 1 (freshness): the key material observed on the real handlers of a history.  The driver numbers
   raw key BYTES (equal bytes <=> equal number; harness-given keys carry the number the specification names;
   numbers below gen_base).  The model builds the same history from a supply of pairwise different draws; both
   must show the same shape and the same equalities between all key slots of all handlers, and given keys must
   be the keys in use. *)
Definition gen_base : nat := 1000%nat.
Definition sup0 (d : nat) : nat := (gen_base + d)%nat.
Definition hkeys (h : handler) : list (option nat) := [h_sk h; h_ek h; h_ck h].
Definition okey_eqb (a b : option nat) : bool :=
  match a, b with Some x, Some y => Nat.eqb x y | _, _ => false end.
Definition same_shape (a b : option nat) : bool :=
  match a, b with None, None | Some _, Some _ => true | _, _ => false end.
Definition given_kept (p : option nat * option nat) : bool :=
  match p with
  | (Some m, Some o) => if (m <? gen_base)%nat then Nat.eqb m o else true
  | _ => true
  end.
Definition fresh_case : Type := list bstep * list (option nat * option nat * option nat).
Definition fresh_model (c : fresh_case) : list (option nat) := flat_map hkeys (build_all sup0 (fst c) 0).
Definition chk_fresh (c : fresh_case) : bool :=
  let m := fresh_model c in
  let o := flat_map (fun x => let '(a, b, d) := x in [a; b; d]) (snd c) in
  Nat.eqb (length m) (length o) &&
  let z := combine m o in
  forallb (fun p => same_shape (fst p) (snd p)) z && forallb given_kept z &&
  forallb (fun p => forallb (fun q => Bool.eqb (okey_eqb (fst p) (fst q)) (okey_eqb (snd p) (snd q))) z) z.

(* correspondence 2 (who accepts whose cookie): handler i of the history makes a cookie, handler j parses it.
   observed: Some content | None (refused in any way).  No blob table: the cookie is the model's own term. *)
Definition cross_case : Type := list bstep * nat * nat * (pystr * pystr * pystr) * option (pystr * pystr * pystr).
Definition no_handler : handler := mk_handler None None None.
Definition cross_model (c : cross_case) : res (pystr * pystr * pystr) :=
  let '(steps, i, j, (v, typ, ts), _) := c in
  let hs := build_all sup0 steps 0 in
  parse_cookie (fun _ => []) (nth j hs no_handler) (make_cookie (nth i hs no_handler) v typ ts 0 [105; 118]).
Definition chk_cross (c : cross_case) : bool :=
  let '(_, _, _, _, obs) := c in
  match cross_model c, obs with
  | Ok x, Some y => content_eqb x y
  | Err _, None => true
  | _, _ => false
  end.

(* ---- idpyoidc.client.cookie (the relying party's helper), signed-only variant:
     make_cookie:  load | timestamp | hexdigest(HMAC-SHA1(seed, load ‖ timestamp))     — NO framing of the MAC input
     parse_cookie: three parts -> safe_str_cmp(sig, cookie_signature(seed, cleartext, timestamp)) (exact text
                   comparison: a part that is not exactly the signature text is refused)
   The AES-GCM variant (four parts, timestamp as associated data) is not modelled (oracle only). ---- *)
Definition client_mac (k : nat) (load ts : pystr) : term := Mac k (Atom (load ++ ts)).
Definition client_make (k : nat) (load ts : pystr) : wire :=
  chs load ++ Ch bar :: chs ts ++ Ch bar :: [Bl (client_mac k load ts)].
Definition client_parse (btxt : term -> pystr) (k : nat) (w : wire) : res (pystr * pystr) :=
  match wsplit w with
  | [c; t; s] =>
      match s with
      | [Bl m] => if macv k (wtext btxt c ++ wtext btxt t) m then Ok (wtext btxt c, wtext btxt t) else rejected
      | _ => rejected
      end
  | [_; _; _; _] => Unmodelled
  | _ => rejected
  end.

Definition client_case : Type := nat * btab * wire * option (pystr * pystr).
Definition client_model (c : client_case) : res (pystr * pystr) :=
  let '(k, tab, w, _) := c in client_parse (btab_lookup tab) k w.
Definition chk_client (c : client_case) : bool :=
  let '(_, _, _, obs) := c in
  match client_model c, obs with
  | Ok x, Some y => str_eqb (fst x) (fst y) && str_eqb (snd x) (snd y)
  | Err _, None => true
  | Unmodelled, _ => true
  | _, _ => false
  end.
