(* Model/Db.v — idpyoidc.server.session.database.Database and the tree operations of
   GrantManager (set / get / delete / delete_sub_tree / _setup_branch / add_grant /
   _revoke_tree / remove_branch / flush).  Keys are the DIVIDER-joined strings exactly as stored.
   Hand-written, executable; tied to the code by harness/drv_C14.py which compares the whole
   database after every operation. The grant payload G is a parameter (Session.v instantiates it). *)
From Verif Require Import Lib.Base Lib.PyStr Model.Lv.
Open Scope N_scope.

Section Db.
  Variable G : Type.
  Variable g_revoke : G -> G.     (* Grant.revoke() followed by Grant.revoke_token() *)

  Inductive node :=
  | NInfo (id : pystr) (subs : list pystr) (revoked : bool) (level : nat)
  | NGrant (g : G).

  Definition db := list (pystr * node).

  Definition node_subs (n : node) : list pystr :=
    match n with NInfo _ s _ _ => s | NGrant _ => [] end.

  (* NodeInfo.add_subordinate on the node stored under key sk *)
  Definition add_sub (sk k : pystr) (d : db) : res db :=
    match assoc sk d with
    | Some (NInfo id subs r l) =>
        if str_in k subs then Ok d else Ok (aset sk (NInfo id (subs ++ [k]) r l) d)
    | Some (NGrant _) => Err AttributeError      (* a Grant has no add_subordinate *)
    | None => Err KeyError
    end.

  (* Database.set: walks every prefix of the path *)
  Fixpoint set_loop (pre : list pystr) (rest : list pystr) (value : node) (sup : option pystr)
           (d : db) : db * res unit :=
    match rest with
    | [] => (d, Ok tt)
    | x :: rest' =>
        let path_i := pre ++ [x] in
        match branch_key path_i with
        | Ok key =>
            let last := match rest' with [] => true | _ => false end in
            let info := match assoc key d with
                        | None => if last then value else NInfo x [] false (length pre)
                        | Some n => if last then value else n
                        end in
            let r := match sup with
                     | Some sk => add_sub sk key d
                     | None => Ok d
                     end in
            match r with
            | Ok d1 => set_loop path_i rest' value (Some key) (aset key info d1)
            | Err e => (d, Err e)
            | Unmodelled => (d, Unmodelled)
            end
        | Err e => (d, Err e)
        | Unmodelled => (d, Unmodelled)
        end
    end.
  Definition db_set (path : list pystr) (value : node) (d : db) : db * res unit :=
    set_loop [] path value None d.

  Definition db_get (path : list pystr) (d : db) : res node :=
    k <- branch_key path ;; match assoc k d with Some n => Ok n | None => Err KeyError end.

  (* delete_sub_tree: recursive on subordinate, fuelled by the size of the database *)
  Fixpoint delete_sub_tree (fuel : nat) (key : pystr) (d : db) : res db :=
    match fuel with
    | O => Err OutOfFuel
    | S f =>
        match assoc key d with
        | None => Err KeyError
        | Some n =>
            d' <- (fix go (subs : list pystr) (d : db) : res db :=
                     match subs with
                     | [] => Ok d
                     | s :: r => d1 <- delete_sub_tree f s d ;; go r d1
                     end) (node_subs n) d ;;
            Ok (adel key d')
        end
    end.

  (* Database.delete — the loop from the leaf upwards.  keys : the prefixes' keys, leaf first. *)
  Fixpoint delete_up (fuel : nat) (keys : list pystr) (sub : option pystr) (d : db) : res db :=
    match keys with
    | [] => Ok d
    | key :: up =>
        match assoc key d with
        | Some n =>
            match sub with
            | Some s =>
                match n with
                | NInfo id subs r l =>
                    if str_in s subs then
                      let subs' := List.filter (fun x => negb (str_eqb x s)) subs in
                      (* list.remove removes the first occurrence; subordinate lists hold no
                         duplicates (add_subordinate checks), so filter is the same *)
                      match subs' with
                      | [] => delete_up fuel up (Some key) (adel key d)
                      | _ => Ok (aset key (NInfo id subs' r l) d)
                      end
                    else Ok d
                | NGrant _ => Err AttributeError
                end
            | None =>
                d1 <- (fix go (subs : list pystr) (d : db) : res db :=
                         match subs with
                         | [] => Ok d
                         | s :: r => d1 <- delete_sub_tree fuel s d ;; go r d1
                         end) (node_subs n) d ;;
                delete_up fuel up (Some key) (adel key d1)
            end
        | None =>
            match sub with
            | None => Ok d
            | Some _ => delete_up fuel up (Some key) d
            end
        end
    end.

  Fixpoint prefixes_rev (pre : list pystr) (rest : list pystr) (acc : list (list pystr)) : list (list pystr) :=
    match rest with
    | [] => acc
    | x :: r => prefixes_rev (pre ++ [x]) r ((pre ++ [x]) :: acc)
    end.
  Fixpoint keys_of (ps : list (list pystr)) : res (list pystr) :=
    match ps with
    | [] => Ok []
    | p :: r => k <- branch_key p ;; ks <- keys_of r ;; Ok (k :: ks)
    end.

  Definition db_delete (path : list pystr) (d : db) : res db :=
    match path with
    | [] => Err IndexError
    | p0 :: rest =>
        k0 <- branch_key [p0] ;;     (* the root's own key: an identifier that spells an inner key is refused *)
        if negb (has_key k0 d) then Ok d
        else match rest with
             | [] => delete_sub_tree (4 + length d) k0 d
             | _ =>
                 (* the code computes the keys inside the loop, leaf first; a path whose full key
                    passes the divider guard has only prefixes that pass it, so computing all
                    keys first (leaf first) raises exactly when the code raises, before any change *)
                 ks <- keys_of (prefixes_rev [] path []) ;;
                 delete_up (4 + length d) ks None d
             end
    end.

  (* GrantManager._setup_branch *)
  Fixpoint setup_loop (pre rest : list pystr) (d : db) : db * res unit :=
    match rest with
    | [] => (d, Ok tt)
    | x :: r =>
        let p := pre ++ [x] in
        match db_get p d with
        | Ok _ => setup_loop p r d
        | Err KeyError =>
            match db_set p (NInfo x [] false (length pre)) d with
            | (d1, Ok _) => setup_loop p r d1
            | (d1, e) => (d1, e)
            end
        | Err e => (d, Err e)
        | Unmodelled => (d, Unmodelled)
        end
    end.
  Definition setup_branch (path : list pystr) (d : db) : db * res unit := setup_loop [] path d.

  (* GrantManager.add_grant: path = [user; client], gid is the fresh grant id *)
  Definition add_grant (path : list pystr) (gid : pystr) (g : G) (d : db) : db * res unit :=
    match setup_branch path d with
    | (d1, Ok _) => db_set (path ++ [gid]) (NGrant g) d1
    | (d1, e) => (d1, e)
    end.

  (* GrantManager._revoke_tree *)
  Fixpoint revoke_tree (fuel : nat) (key : pystr) (d : db) : res db :=
    match fuel with
    | O => Err OutOfFuel
    | S f =>
        match assoc key d with
        | None => Err KeyError
        | Some (NGrant g) => Ok (aset key (NGrant (g_revoke g)) d)
        | Some (NInfo id subs r l) =>
            (fix go (ss : list pystr) (d : db) : res db :=
               match ss with
               | [] => Ok d
               | s :: rest => d1 <- revoke_tree f s d ;; go rest d1
               end) subs (aset key (NInfo id subs true l) d)
        end
    end.
  (* revoke_sub_tree(path, level): level = None -> the node of the path *)
  Definition revoke_sub_tree (path : list pystr) (level : option nat) (d : db) : res db :=
    let p := match level with None => path | Some l => firstn (S l) path end in
    match level with
    | Some l => if Nat.ltb (length path) l then Err ValueError else
                  k <- branch_key p ;; revoke_tree (4 + length d) k d
    | None => k <- branch_key p ;; revoke_tree (4 + length d) k d
    end.

  (* ---- operations of the C14 history alphabet ---- *)
  Inductive op :=
  | OAddGrant (user client gid : pystr) (g : G)     (* create_session / create_grant / add_exchange_grant *)
  | ORevoke (path : list pystr) (level : option nat)
  | ODelete (path : list pystr)                      (* remove_session / delete at every depth *)
  | OFlush.

  Definition step (d : db) (o : op) : db * res unit :=
    match o with
    | OAddGrant u c gid g => add_grant [u; c] gid g d
    | ORevoke p l => match revoke_sub_tree p l d with
                     | Ok d1 => (d1, Ok tt) | Err e => (d, Err e) | Unmodelled => (d, Unmodelled) end
    | ODelete p => match db_delete p d with
                   | Ok d1 => (d1, Ok tt) | Err e => (d, Err e) | Unmodelled => (d, Unmodelled) end
    | OFlush => ([], Ok tt)
    end.

  Definition run (ops : list op) (d : db) : db := fold_left (fun d o => fst (step d o)) ops d.

  (* ================================================================ read-only queries
     The queries of Database / GrantManager / SessionManager: __getitem__, get, get_node_info (and the typed
     wrappers get_grant / get_client_session_info / get_user_session_info / client_session_is_revoked),
     branch_info / get_session_info, get_subordinates, grants, get_authentication_events, find_token,
     decrypt_branch_id, encrypted_branch_id.  A query returns a value and the store it was asked about: the
     store component of `xstep` on a query is the argument itself.  An answer is the list of identifiers and the
     list of (stored key, stored node) the caller is handed. *)
  Definition answer := (list pystr * list (pystr * node))%type.

  (* an operation names its node by a path, or by a session / branch identifier (its plaintext: the Fernet layer
     is an authenticated encryption), or by an identifier that does not decrypt *)
  Inductive target := ByPath (p : list pystr) | ById (plain : pystr) | ByBadId.
  Definition target_path (t : target) : res (list pystr) :=
    match t with ByPath p => Ok p | ById s => sid_path s | ByBadId => Err ValueError end.

  (* Database.get, keeping the key under which the node is stored *)
  Definition q_node (p : list pystr) (d : db) : res (pystr * node) :=
    k <- branch_key p ;; match assoc k d with Some n => Ok (k, n) | None => Err KeyError end.
  (* resolution of an identifier: sm[sid] *)
  Definition resolve (plain : pystr) (d : db) : res (pystr * node) := p <- sid_path plain ;; q_node p d.

  Definition is_grant (n : node) : bool := match n with NGrant _ => true | NInfo _ _ _ _ => false end.
  (* get_subordinates: [self.db[gid] for gid in node.subordinate if gid in self.db]; a Grant has no subordinate *)
  Definition present (subs : list pystr) (d : db) : list (pystr * node) :=
    flat_map (fun s => match assoc s d with Some n => [(s, n)] | None => [] end) subs.
  Definition q_subs (p : list pystr) (d : db) : res (list (pystr * node)) :=
    kn <- q_node p d ;;
    match snd kn with NInfo _ subs _ _ => Ok (present subs d) | NGrant _ => Err AttributeError end.
  (* _grants: a subordinate that is not a Grant is handed to unpack_branch_key (node.split): AttributeError *)
  Definition q_grants (p : list pystr) (d : db) : res (list (pystr * node)) :=
    l <- q_subs p d ;;
    if forallb (fun kn => is_grant (snd kn)) l then Ok l else Err AttributeError.

  Fixpoint prefixes (pre rest : list pystr) : list (list pystr) :=
    match rest with [] => [] | x :: r => (pre ++ [x]) :: prefixes (pre ++ [x]) r end.
  (* _get_nodes, and the comprehension of get_authentication_events *)
  Fixpoint q_nodes (ps : list (list pystr)) (d : db) : res (list (pystr * node)) :=
    match ps with [] => Ok [] | p :: r => kn <- q_node p d ;; l <- q_nodes r d ;; Ok (kn :: l) end.

  Definition invalid_branch_id : exc := Refused 1.
  (* branch_info(branch_id, *args): the levels of node_type = [user; client; grant] that are asked for *)
  Definition levels (sel : list nat) : list nat :=
    match sel with [] => [0; 1; 2] | _ => List.filter (fun i => existsb (Nat.eqb i) sel) [0; 1; 2] end%nat.
  Fixpoint pick {A B} (p : list A) (l : list B) (lv : list nat) : res (list A * list B) :=
    match lv with
    | [] => Ok ([], [])
    | i :: r => match nth_error l i, nth_error p i with
                | Some b, Some a => ab <- pick p l r ;; Ok (a :: fst ab, b :: snd ab)
                | _, _ => Err IndexError
                end
    end.
  Definition q_branch_info (sel : list nat) (p : list pystr) (d : db) : res answer :=
    match q_nodes (prefixes [] p) d with
    | Ok l => pick p l (levels sel)
    | Err KeyError => Err invalid_branch_id
    | Err e => Err e
    | Unmodelled => Unmodelled
    end.

  (* get_node_info(branch_id, level): (_path[level], self.get(_path[0 : level + 1])); the typed wrappers check the
     class of the node: UserSessionInfo at level 0, ClientSessionInfo at level 1, Grant at level 2 *)
  Definition type_ok (lvl : nat) (n : node) : bool :=
    match n with
    | NGrant _ => Nat.eqb lvl 2
    | NInfo _ _ _ l => Nat.ltb lvl 2 && Nat.eqb l lvl
    end.
  Definition q_node_info (lvl : nat) (typed : bool) (p : list pystr) (d : db) : res answer :=
    match nth_error p lvl with
    | None => Err IndexError
    | Some x => kn <- q_node (firstn (S lvl) p) d ;;
                if typed then (if type_ok lvl (snd kn) then Ok ([], [kn]) else Err ValueError) else Ok ([x], [kn])
    end.

  (* get_authentication_events(session_id): the client node of the path, then self.get(unpack_branch_key(gid)) for
     every gid it lists and .authentication_event of each *)
  Definition q_authn_events (p : list pystr) (d : db) : res answer :=
    a <- q_node_info 1 false p d ;;
    match snd a with
    | [(_, NInfo _ subs _ _)] =>
        l <- q_nodes (List.map unpack_branch_key subs) d ;;
        if forallb (fun kn => is_grant (snd kn)) l then Ok ([], l) else Err AttributeError
    | _ => Err AttributeError
    end.

  Inductive qkind :=
  | QGet                                   (* sm[sid] / get(path) / get_user_info / get_grant_argument *)
  | QNodeInfo (lvl : nat) (typed : bool)   (* get_node_info / get_grant / get_client_session_info / ... *)
  | QBranchInfo (sel : list nat)           (* branch_info / get_session_info *)
  | QSubs                                  (* get_subordinates *)
  | QGrants (by_id : bool)                 (* grants(branch_id=..) / grants(path=..) *)
  | QAuthnEvents                           (* get_authentication_events(session_id) *)
  | QFindToken                             (* find_token: no token of that value *)
  | QDecrypt                               (* decrypt_branch_id / decrypt_session_id *)
  | QMint.                                 (* encrypted_branch_id( *path): a further identifier of the path *)

  Definition query (q : qkind) (p : list pystr) (d : db) : res answer :=
    match q with
    | QGet => kn <- q_node p d ;; Ok ([], [kn])
    | QNodeInfo lvl typed => q_node_info lvl typed p d
    | QBranchInfo sel => q_branch_info sel p d
    | QSubs => l <- q_subs p d ;; Ok ([], l)
    | QGrants true => l <- q_grants (if Nat.eqb (length p) 3 then removelast p else p) d ;; Ok ([], l)
    | QGrants false => match p with [] => Err AttributeError | _ => l <- q_grants p d ;; Ok ([], l) end
    | QAuthnEvents => q_authn_events p d
    | QFindToken => kn <- q_node p d ;; if is_grant (snd kn) then Ok ([], []) else Err AttributeError
    | QDecrypt => Ok (p, [])
    | QMint => k <- branch_key p ;; Ok ([k], [])
    end.

  (* the extended history alphabet: the mutating operations, revocation / removal through an identifier, and the
     queries (through a path or an identifier) *)
  Inductive xop :=
  | XOp (o : op)
  | XRevokeId (t : target) (level : option nat)       (* revoke_sub_tree(branch_id, level) *)
  | XRemoveId (t : target)                             (* remove_session / remove_branch(branch_id) *)
  | XQuery (t : target) (q : qkind).

  (* the mutating operation an extended operation stands for (None: a query) *)
  Definition denote (x : xop) : res (option op) :=
    match x with
    | XOp o => Ok (Some o)
    | XRevokeId t l => p <- target_path t ;; Ok (Some (ORevoke p l))
    | XRemoveId t => p <- target_path t ;; Ok (Some (ODelete p))
    | XQuery _ _ => Ok None
    end.
  Definition no_answer : answer := ([], []).
  Definition xstep (d : db) (x : xop) : db * res answer :=
    match x with
    | XQuery t q => (d, p <- target_path t ;; query q p d)
    | _ => match denote x with
           | Ok (Some o) => let (d1, r) := step d o in (d1, _ <- r ;; Ok no_answer)
           | Ok None => (d, Ok no_answer)
           | Err e => (d, Err e)
           | Unmodelled => (d, Unmodelled)
           end
    end.
  Definition mut_ops (xs : list xop) : list op :=
    flat_map (fun x => match denote x with Ok (Some o) => [o] | _ => [] end) xs.
  Definition xrun (xs : list xop) (d : db) : db := fold_left (fun d x => fst (xstep d x)) xs d.
  Definition is_query (x : xop) : bool := match x with XQuery _ _ => true | _ => false end.
End Db.

Arguments NInfo {G}. Arguments NGrant {G}.
Arguments OAddGrant {G}. Arguments ORevoke {G}. Arguments ODelete {G}. Arguments OFlush {G}.
Arguments XOp {G}. Arguments XRevokeId {G}. Arguments XRemoveId {G}. Arguments XQuery {G}.
