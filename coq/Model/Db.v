(* Model/Db.v — idpyoidc.server.session.database.Database and the tree operations of
   GrantManager (set / get / delete / delete_sub_tree / _setup_branch / add_grant /
   _revoke_tree / remove_branch / flush).  Keys are the DIVIDER-joined strings exactly as stored.
   Hand-written, executable; tied to the code by harness/drv_C14.py which compares the whole
   database after every operation. The grant payload G is a parameter (Session.v instantiates it). *)
From Verif Require Import Lib.Base Lib.PyStr Model.Lv.
Open Scope N_scope.

Section Db.
  Variable G : Type.
  Variable g_revoke : G -> G.     (* Grant.revoke() followed by Grant.revoke_token() *)

  Inductive node :=
  | NInfo (id : pystr) (subs : list pystr) (revoked : bool) (level : nat)
  | NGrant (g : G).

  Definition db := list (pystr * node).

  Definition node_subs (n : node) : list pystr :=
    match n with NInfo _ s _ _ => s | NGrant _ => [] end.

  (* NodeInfo.add_subordinate on the node stored under key sk *)
  Definition add_sub (sk k : pystr) (d : db) : res db :=
    match assoc sk d with
    | Some (NInfo id subs r l) =>
        if str_in k subs then Ok d else Ok (aset sk (NInfo id (subs ++ [k]) r l) d)
    | Some (NGrant _) => Err AttributeError      (* a Grant has no add_subordinate *)
    | None => Err KeyError
    end.

  (* Database.set: walks every prefix of the path *)
  Fixpoint set_loop (pre : list pystr) (rest : list pystr) (value : node) (sup : option pystr)
           (d : db) : db * res unit :=
    match rest with
    | [] => (d, Ok tt)
    | x :: rest' =>
        let path_i := pre ++ [x] in
        match branch_key path_i with
        | Ok key =>
            let last := match rest' with [] => true | _ => false end in
            let info := match assoc key d with
                        | None => if last then value else NInfo x [] false (length pre)
                        | Some n => if last then value else n
                        end in
            let r := match sup with
                     | Some sk => add_sub sk key d
                     | None => Ok d
                     end in
            match r with
            | Ok d1 => set_loop path_i rest' value (Some key) (aset key info d1)
            | Err e => (d, Err e)
            | Unmodelled => (d, Unmodelled)
            end
        | Err e => (d, Err e)
        | Unmodelled => (d, Unmodelled)
        end
    end.
  Definition db_set (path : list pystr) (value : node) (d : db) : db * res unit :=
    set_loop [] path value None d.

  Definition db_get (path : list pystr) (d : db) : res node :=
    k <- branch_key path ;; match assoc k d with Some n => Ok n | None => Err KeyError end.

  (* delete_sub_tree: recursive on subordinate, fuelled by the size of the database *)
  Fixpoint delete_sub_tree (fuel : nat) (key : pystr) (d : db) : res db :=
    match fuel with
    | O => Err OutOfFuel
    | S f =>
        match assoc key d with
        | None => Err KeyError
        | Some n =>
            d' <- (fix go (subs : list pystr) (d : db) : res db :=
                     match subs with
                     | [] => Ok d
                     | s :: r => d1 <- delete_sub_tree f s d ;; go r d1
                     end) (node_subs n) d ;;
            Ok (adel key d')
        end
    end.

  (* Database.delete — the loop from the leaf upwards.  keys : the prefixes' keys, leaf first. *)
  Fixpoint delete_up (fuel : nat) (keys : list pystr) (sub : option pystr) (d : db) : res db :=
    match keys with
    | [] => Ok d
    | key :: up =>
        match assoc key d with
        | Some n =>
            match sub with
            | Some s =>
                match n with
                | NInfo id subs r l =>
                    if str_in s subs then
                      let subs' := List.filter (fun x => negb (str_eqb x s)) subs in
                      (* list.remove removes the first occurrence; subordinate lists hold no
                         duplicates (add_subordinate checks), so filter is the same *)
                      match subs' with
                      | [] => delete_up fuel up (Some key) (adel key d)
                      | _ => Ok (aset key (NInfo id subs' r l) d)
                      end
                    else Ok d
                | NGrant _ => Err AttributeError
                end
            | None =>
                d1 <- (fix go (subs : list pystr) (d : db) : res db :=
                         match subs with
                         | [] => Ok d
                         | s :: r => d1 <- delete_sub_tree fuel s d ;; go r d1
                         end) (node_subs n) d ;;
                delete_up fuel up (Some key) (adel key d1)
            end
        | None =>
            match sub with
            | None => Ok d
            | Some _ => delete_up fuel up (Some key) d
            end
        end
    end.

  Fixpoint prefixes_rev (pre : list pystr) (rest : list pystr) (acc : list (list pystr)) : list (list pystr) :=
    match rest with
    | [] => acc
    | x :: r => prefixes_rev (pre ++ [x]) r ((pre ++ [x]) :: acc)
    end.
  Fixpoint keys_of (ps : list (list pystr)) : res (list pystr) :=
    match ps with
    | [] => Ok []
    | p :: r => k <- branch_key p ;; ks <- keys_of r ;; Ok (k :: ks)
    end.

  Definition db_delete (path : list pystr) (d : db) : res db :=
    match path with
    | [] => Err IndexError
    | p0 :: rest =>
        k0 <- branch_key [p0] ;;     (* the root's own key: an identifier that spells an inner key is refused *)
        if negb (has_key k0 d) then Ok d
        else match rest with
             | [] => delete_sub_tree (4 + length d) k0 d
             | _ =>
                 (* the code computes the keys inside the loop, leaf first; a path whose full key
                    passes the divider guard has only prefixes that pass it, so computing all
                    keys first (leaf first) raises exactly when the code raises, before any change *)
                 ks <- keys_of (prefixes_rev [] path []) ;;
                 delete_up (4 + length d) ks None d
             end
    end.

  (* GrantManager._setup_branch *)
  Fixpoint setup_loop (pre rest : list pystr) (d : db) : db * res unit :=
    match rest with
    | [] => (d, Ok tt)
    | x :: r =>
        let p := pre ++ [x] in
        match db_get p d with
        | Ok _ => setup_loop p r d
        | Err KeyError =>
            match db_set p (NInfo x [] false (length pre)) d with
            | (d1, Ok _) => setup_loop p r d1
            | (d1, e) => (d1, e)
            end
        | Err e => (d, Err e)
        | Unmodelled => (d, Unmodelled)
        end
    end.
  Definition setup_branch (path : list pystr) (d : db) : db * res unit := setup_loop [] path d.

  (* GrantManager.add_grant: path = [user; client], gid is the fresh grant id *)
  Definition add_grant (path : list pystr) (gid : pystr) (g : G) (d : db) : db * res unit :=
    match setup_branch path d with
    | (d1, Ok _) => db_set (path ++ [gid]) (NGrant g) d1
    | (d1, e) => (d1, e)
    end.

  (* GrantManager._revoke_tree *)
  Fixpoint revoke_tree (fuel : nat) (key : pystr) (d : db) : res db :=
    match fuel with
    | O => Err OutOfFuel
    | S f =>
        match assoc key d with
        | None => Err KeyError
        | Some (NGrant g) => Ok (aset key (NGrant (g_revoke g)) d)
        | Some (NInfo id subs r l) =>
            (fix go (ss : list pystr) (d : db) : res db :=
               match ss with
               | [] => Ok d
               | s :: rest => d1 <- revoke_tree f s d ;; go rest d1
               end) subs (aset key (NInfo id subs true l) d)
        end
    end.
  (* revoke_sub_tree(path, level): level = None -> the node of the path *)
  Definition revoke_sub_tree (path : list pystr) (level : option nat) (d : db) : res db :=
    let p := match level with None => path | Some l => firstn (S l) path end in
    match level with
    | Some l => if Nat.ltb (length path) l then Err ValueError else
                  k <- branch_key p ;; revoke_tree (4 + length d) k d
    | None => k <- branch_key p ;; revoke_tree (4 + length d) k d
    end.

  (* ---- operations of the C14 history alphabet ---- *)
  Inductive op :=
  | OAddGrant (user client gid : pystr) (g : G)     (* create_session / create_grant / add_exchange_grant *)
  | ORevoke (path : list pystr) (level : option nat)
  | ODelete (path : list pystr)                      (* remove_session / delete at every depth *)
  | OFlush.

  Definition step (d : db) (o : op) : db * res unit :=
    match o with
    | OAddGrant u c gid g => add_grant [u; c] gid g d
    | ORevoke p l => match revoke_sub_tree p l d with
                     | Ok d1 => (d1, Ok tt) | Err e => (d, Err e) | Unmodelled => (d, Unmodelled) end
    | ODelete p => match db_delete p d with
                   | Ok d1 => (d1, Ok tt) | Err e => (d, Err e) | Unmodelled => (d, Unmodelled) end
    | OFlush => ([], Ok tt)
    end.

  Definition run (ops : list op) (d : db) : db := fold_left (fun d o => fst (step d o)) ops d.
End Db.

Arguments NInfo {G}. Arguments NGrant {G}.
Arguments OAddGrant {G}. Arguments ORevoke {G}. Arguments ODelete {G}. Arguments OFlush {G}.
