(* Model/DbCheck.v — instance of the tree model used by the C14 correspondence (grant payload =
   its revoked flag) and the trace checker evaluated over generated case files. *)
From Verif Require Import Lib.Base Lib.PyStr Model.Lv Model.Db.

Definition bdb := db bool.
Definition bstep := step bool (fun _ => true).

(* what the harness reads off the real database: key, is_grant, node id, subordinate, revoked *)
Definition snap_node := (pystr * (bool * pystr * list pystr * bool))%type.
Definition snapshot (d : bdb) : list snap_node :=
  List.map (fun kn => (fst kn, match snd kn with
                               | NInfo id s r _ => (false, id, s, r)
                               | NGrant g => (true, [], [], g) end)) d.
Definition snap_node_eqb (a b : snap_node) : bool :=
  let '(k, (g, id, s, r)) := a in
  let '(k', (g', id', s', r')) := b in
  str_eqb k k' && Bool.eqb g g' && str_eqb id id' && list_eqb str_eqb s s' && Bool.eqb r r'.

Definition out_eqb (a b : res unit) : bool := res_eqb (fun _ _ => true) a b.

Fixpoint check_trace (d : bdb) (tr : list (op bool * (res unit * list snap_node))) : bool :=
  match tr with
  | [] => true
  | (o, (out, snap)) :: rest =>
      let '(d1, r) := bstep d o in
      out_eqb r out && list_eqb snap_node_eqb (snapshot d1) snap && check_trace d1 rest
  end.
Definition chk_trace (tr : list (op bool * (res unit * list snap_node))) : bool := check_trace [] tr.

(* index of the first step at which model and implementation differ (diagnostics only) *)
Fixpoint first_bad (d : bdb) (i : nat) (tr : list (op bool * (res unit * list snap_node))) : option nat :=
  match tr with
  | [] => None
  | (o, (out, snap)) :: rest =>
      let '(d1, r) := bstep d o in
      if out_eqb r out && list_eqb snap_node_eqb (snapshot d1) snap then first_bad d1 (S i) rest else Some i
  end.

(* ================================================================ extended traces: queries, operations through
   identifiers, and re-resolution of every identifier issued so far after every operation *)
Definition bxstep := xstep bool (fun _ => true).
Definition snap_answer := (list pystr * list snap_node)%type.
Definition answer_snap (a : answer bool) : snap_answer := (fst a, snapshot (snd a)).
Definition snap_answer_eqb (a b : snap_answer) : bool :=
  list_eqb str_eqb (fst a) (fst b) && list_eqb snap_node_eqb (snd a) (snd b).
Definition res_map {A B} (f : A -> B) (r : res A) : res B :=
  match r with Ok a => Ok (f a) | Err e => Err e | Unmodelled => Unmodelled end.

(* what the implementation says about one identifier: decrypt_branch_id(id), and the stored node sm[id] *)
Definition rvec := (res (list pystr) * res (list snap_node))%type.
Definition model_rvec (d : bdb) (plain : pystr) : rvec :=
  (sid_path plain, res_map (fun kn => snapshot [kn]) (resolve bool plain d)).
Definition rvec_eqb (a b : rvec) : bool :=
  res_eqb (list_eqb str_eqb) (fst a) (fst b) && res_eqb (list_eqb snap_node_eqb) (snd a) (snd b).
Fixpoint forall2b {A B} (f : A -> B -> bool) (x : list A) (y : list B) : bool :=
  match x, y with
  | [], [] => true
  | a :: x', b :: y' => f a b && forall2b f x' y'
  | _, _ => false
  end.
Definition resolution_ok (d : bdb) (ids : list pystr) (v : list rvec) : bool :=
  forall2b (fun plain r => rvec_eqb (model_rvec d plain) r) (firstn (length v) ids) v.

Definition xstep_rec := (xop bool * (res snap_answer * list snap_node * list rvec))%type.
Definition xstep_ok (ids : list pystr) (d : bdb) (s : xstep_rec) : bdb * bool :=
  let '(x, (out, snap, rv)) := s in
  let '(d1, r) := bxstep d x in
  (d1, res_eqb snap_answer_eqb (res_map answer_snap r) out && list_eqb snap_node_eqb (snapshot d1) snap
       && resolution_ok d1 ids rv).
Fixpoint check_xtrace (ids : list pystr) (d : bdb) (tr : list xstep_rec) : bool :=
  match tr with
  | [] => true
  | s :: rest => let '(d1, ok) := xstep_ok ids d s in ok && check_xtrace ids d1 rest
  end.
(* a case: the plaintexts of the identifiers in the order they were issued, and the steps *)
Definition chk_xtrace (c : list pystr * list xstep_rec) : bool := check_xtrace (fst c) [] (snd c).

(* diagnostics only: index of the first step at which model and implementation differ, and what the model says *)
Fixpoint first_bad_x (ids : list pystr) (d : bdb) (i : nat) (tr : list xstep_rec)
  : option (nat * (res snap_answer * list snap_node * list rvec)) :=
  match tr with
  | [] => None
  | s :: rest =>
      let '(d1, ok) := xstep_ok ids d s in
      if ok then first_bad_x ids d1 (S i) rest
      else let '(x, (_, _, rv)) := s in
           Some (i, (res_map answer_snap (snd (bxstep d x)), snapshot d1,
                     List.map (model_rvec d1) (firstn (length rv) ids)))
  end.
Definition xdiag (c : list pystr * list xstep_rec) := first_bad_x (fst c) [] O (snd c).
