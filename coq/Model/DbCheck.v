(* Model/DbCheck.v — instance of the tree model used by the C14 correspondence (grant payload =
   its revoked flag) and the trace checker evaluated over generated case files. *)
From Verif Require Import Lib.Base Lib.PyStr Model.Lv Model.Db.

Definition bdb := db bool.
Definition bstep := step bool (fun _ => true).

(* what the harness reads off the real database: key, is_grant, node id, subordinate, revoked *)
Definition snap_node := (pystr * (bool * pystr * list pystr * bool))%type.
Definition snapshot (d : bdb) : list snap_node :=
  List.map (fun kn => (fst kn, match snd kn with
                               | NInfo id s r _ => (false, id, s, r)
                               | NGrant g => (true, [], [], g) end)) d.
Definition snap_node_eqb (a b : snap_node) : bool :=
  let '(k, (g, id, s, r)) := a in
  let '(k', (g', id', s', r')) := b in
  str_eqb k k' && Bool.eqb g g' && str_eqb id id' && list_eqb str_eqb s s' && Bool.eqb r r'.

Definition out_eqb (a b : res unit) : bool := res_eqb (fun _ _ => true) a b.

Fixpoint check_trace (d : bdb) (tr : list (op bool * (res unit * list snap_node))) : bool :=
  match tr with
  | [] => true
  | (o, (out, snap)) :: rest =>
      let '(d1, r) := bstep d o in
      out_eqb r out && list_eqb snap_node_eqb (snapshot d1) snap && check_trace d1 rest
  end.
Definition chk_trace (tr : list (op bool * (res unit * list snap_node))) : bool := check_trace [] tr.

(* index of the first step at which model and implementation differ (diagnostics only) *)
Fixpoint first_bad (d : bdb) (i : nat) (tr : list (op bool * (res unit * list snap_node))) : option nat :=
  match tr with
  | [] => None
  | (o, (out, snap)) :: rest =>
      let '(d1, r) := bstep d o in
      if out_eqb r out && list_eqb snap_node_eqb (snapshot d1) snap then first_bad d1 (S i) rest else Some i
  end.
