(* Model/DbCreate.v — the CREATION API of the SessionManager as model operations (round 11).

   SessionManager.create_session / create_grant / create_exchange_session / create_exchange_grant build the branch
   path with SessionManager.make_path(user_id=.., client_id=..) and hand it to GrantManager.add_grant /
   add_exchange_grant; the latter two are also called with an explicit path.  In the model make_path is the IDENTITY
   on identifiers: the path is [user_id; client_id] exactly as given - no stripping, no case folding, no Unicode
   normalisation, nothing cut at a NUL.  Identifiers are opaque strings with decidable equality (Model/Db.v), so two
   identifiers that are different strings get different nodes, however alike they look.  The correspondence
   (harness/drv_C14.py, chk_ctrace below) runs the real entry points and this model on the same histories, over
   identifier pools of normalisation-equivalent-but-different strings: an entry point that normalises shows as a
   model / implementation mismatch at the creation step.

   revoke_client_session(sid) = revoke_sub_tree(sid, 1) is an operation of the alphabet too. *)
From Verif Require Import Lib.Base Lib.PyStr Model.Lv Model.Db Model.DbCheck.
Open Scope N_scope.

Section DbCreate.
  Variable G : Type.
  Variable g_revoke : G -> G.

  (* SessionManager.make_path: [kwargs["user_id"], kwargs["client_id"]] *)
  Definition make_path (user_id client_id : pystr) : list pystr := [user_id; client_id].

  Inductive entry :=
  | ECreateSession | ECreateGrant | ECreateExchangeSession | ECreateExchangeGrant   (* path = make_path(...) *)
  | EAddGrant | EAddExchangeGrant.                                                  (* path handed in by the caller *)

  Definition entry_path (e : entry) (u c : pystr) : list pystr :=
    match e with
    | EAddGrant | EAddExchangeGrant => [u; c]
    | _ => make_path u c
    end.

  Inductive cop :=
  | CCreate (e : entry) (user client gid : pystr) (g : G)   (* gid: the fresh grant id the call drew *)
  | CRevokeClientSession (t : target)                       (* revoke_client_session(session_id) *)
  | CX (x : xop G).                                         (* everything of Model/Db.v *)

  Definition cstep (d : db G) (c : cop) : db G * res (answer G) :=
    match c with
    | CCreate e u cl gid g =>
        let (d1, r) := add_grant G (entry_path e u cl) gid g d in (d1, _ <- r ;; Ok (no_answer G))
    | CRevokeClientSession t => xstep G g_revoke d (XRevokeId t (Some 1%nat))
    | CX x => xstep G g_revoke d x
    end.
  Definition crun (cs : list cop) (d : db G) : db G := fold_left (fun d c => fst (cstep d c)) cs d.

  (* the operation of Model/Db.v a creation-level operation stands for *)
  Definition cdenote (c : cop) : xop G :=
    match c with
    | CCreate _ u cl gid g => XOp (OAddGrant u cl gid g)
    | CRevokeClientSession t => XRevokeId t (Some 1%nat)
    | CX x => x
    end.

  (* a creation path that normalises its identifiers with f (NOT the model: the counter-model of the refutation
     witnesses in Proofs/DbCreate_proofs.v) *)
  Definition create_via (f : pystr -> pystr) (u c gid : pystr) (g : G) (d : db G) : db G * res unit :=
    add_grant G [f u; f c] gid g d.
End DbCreate.

Arguments CCreate {G}. Arguments CRevokeClientSession {G}. Arguments CX {G}.

(* ================================================================ the trace checker (grant payload = revoked flag) *)
Definition bcstep := cstep bool (fun _ => true).
Definition cstep_rec := (cop bool * (res snap_answer * list snap_node * list rvec))%type.
Definition cstep_ok (ids : list pystr) (d : bdb) (s : cstep_rec) : bdb * bool :=
  let '(c, (out, snap, rv)) := s in
  let '(d1, r) := bcstep d c in
  (d1, res_eqb snap_answer_eqb (res_map answer_snap r) out && list_eqb snap_node_eqb (snapshot d1) snap
       && resolution_ok d1 ids rv).
Fixpoint check_ctrace (ids : list pystr) (d : bdb) (tr : list cstep_rec) : bool :=
  match tr with
  | [] => true
  | s :: rest => let '(d1, ok) := cstep_ok ids d s in ok && check_ctrace ids d1 rest
  end.
Definition chk_ctrace (c : list pystr * list cstep_rec) : bool := check_ctrace (fst c) [] (snd c).

(* diagnostics only: index of the first step at which model and implementation differ, and what the model says *)
Fixpoint first_bad_c (ids : list pystr) (d : bdb) (i : nat) (tr : list cstep_rec)
  : option (nat * (res snap_answer * list snap_node * list rvec)) :=
  match tr with
  | [] => None
  | s :: rest =>
      let '(d1, ok) := cstep_ok ids d s in
      if ok then first_bad_c ids d1 (S i) rest
      else let '(c, (_, _, rv)) := s in
           Some (i, (res_map answer_snap (snd (bcstep d c)), snapshot d1,
                     List.map (model_rvec d1) (firstn (length rv) ids)))
  end.
Definition cdiag (c : list pystr * list cstep_rec) := first_bad_c (fst c) [] O (snd c).

(* the step records of a creation-level trace, read as a trace of Model/Db.v *)
Definition xsteps_of (tr : list cstep_rec) : list xstep_rec :=
  List.map (fun s => (cdenote bool (fst s), snd s)) tr.

(* counter-model only (refutation witness in Props/C14.v): str.strip() restricted to blanks *)
Fixpoint lstrip_blank (s : pystr) : pystr :=
  match s with
  | c :: r => if N.eqb c 32 then lstrip_blank r else s
  | [] => []
  end.
Definition strip_blanks (s : pystr) : pystr := rev (lstrip_blank (rev (lstrip_blank s))).
