(* Model/Delivery.v — how the authorization endpoint hands a response to the user agent:
   Message.to_urlencoded + Message.request (query / fragment placement, idpyoidc/message/__init__.py),
   and inputs() / FORM_POST / Authorization.response_mode (form_post page,
   idpyoidc/server/oauth2/authorization.py), plus the end-session state placement
   (idpyoidc/server/oidc/session.py).  Hand-written, executable; tied to the code by harness/drv_C06.py
   (the produced URL / page of the real endpoint is compared character by character). *)
From Coq Require Import String.
From Verif Require Import Lib.Base Lib.PyStr Lib.Urlenc Lib.Html.
Open Scope N_scope.

(* ---- str.encode("utf-8") ---- *)
Definition utf8_1 (c : N) : res bytes :=
  if c <? 128 then Ok [c]
  else if c <? 2048 then Ok [192 + c / 64; 128 + c mod 64]
  else if (55296 <=? c) && (c <=? 57343) then Err UnicodeError
  else if c <? 65536 then Ok [224 + c / 4096; 128 + (c / 64) mod 64; 128 + c mod 64]
  else if c <? 1114112 then Ok [240 + c / 262144; 128 + (c / 4096) mod 64; 128 + (c / 64) mod 64; 128 + c mod 64]
  else Unmodelled.
Fixpoint utf8 (s : pystr) : res bytes :=
  match s with
  | [] => Ok []
  | c :: r => a <- utf8_1 c ;; b <- utf8 r ;; Ok (a ++ b)
  end.

(* ---- a response parameter value as it sits in the Message ---- *)
Inductive fval := FStr (s : pystr) | FList (l : list pystr) | FInt (z : Z).

(* to_urlencoded: str -> utf-8; list with a space-separated serializer -> " ".join; int -> str() *)
Definition ser_url (v : fval) : res bytes :=
  match v with
  | FStr s => utf8 s
  | FList l => utf8 (join [32] l)
  | FInt z => Ok (str_of_Z z)
  end.
Fixpoint enc_pairs (l : list (pystr * fval)) : res (list (bytes * bytes)) :=
  match l with
  | [] => Ok []
  | (k, v) :: r => kb <- utf8 k ;; vb <- ser_url v ;; t <- enc_pairs r ;; Ok ((kb, vb) :: t)
  end.
(* urllib.parse.urlencode on (bytes, bytes) pairs *)
Definition urlencode_b (l : list (bytes * bytes)) : bytes :=
  join [38] (List.map (fun kv => quote_plus (fst kv) ++ 61 :: quote_plus (snd kv)) l).

(* Message.request(location, fragment_enc) *)
Definition place (loc qp : pystr) (frag : bool) : pystr :=
  match qp with
  | [] => loc
  | _ => if frag then loc ++ 35 :: qp
         else if existsb (fun c => c =? 63) loc then loc ++ 38 :: qp else loc ++ 63 :: qp
  end.
Definition deliver_url (loc : pystr) (args : list (pystr * fval)) (frag : bool) : res pystr :=
  l <- enc_pairs args ;; Ok (place loc (urlencode_b l) frag).

(* ---- form_post ---- *)
(* inputs(): str(value); a list is joined only for "scope" (any other list would be rendered by repr) *)
Definition ser_form (k : pystr) (v : fval) : res pystr :=
  match v with
  | FStr s => Ok s
  | FList l => if str_eqb k (PS "scope"%string) then Ok (join [32] l) else Unmodelled
  | FInt z => Ok (str_of_Z z)
  end.
Fixpoint form_pairs (l : list (pystr * fval)) : res (list (pystr * pystr)) :=
  match l with
  | [] => Ok []
  | (k, v) :: r => s <- ser_form k v ;; t <- form_pairs r ;; Ok ((k, s) :: t)
  end.

Definition in_a : pystr := PS "<input type=""hidden"" name="""%string.
Definition in_b : pystr := PS """ value="""%string.
Definition in_c : pystr := PS """/>"%string.
Definition input_elem (kv : pystr * pystr) : pystr :=
  in_a ++ html_escape (fst kv) ++ in_b ++ html_escape (snd kv) ++ in_c.
Definition inputs (l : list (pystr * pystr)) : pystr := join [10] (List.map input_elem l).

Definition nl : pystr := [10].
Definition page_a : pystr :=
  PS "<html>"%string ++ nl ++ PS "  <head>"%string ++ nl ++ PS "    <title>Submit This Form</title>"%string ++ nl
  ++ PS "  </head>"%string ++ nl ++ PS "  <body onload=""javascript:document.forms[0].submit()"">"%string ++ nl
  ++ PS "    <form method=""post"" action="""%string.
Definition page_b : pystr := PS """>"%string ++ nl ++ PS "        "%string.
Definition page_c : pystr :=
  nl ++ PS "    </form>"%string ++ nl ++ PS "  </body>"%string ++ nl ++ PS "</html>"%string.
Definition form_page (action : pystr) (l : list (pystr * pystr)) : pystr :=
  page_a ++ html_escape action ++ page_b ++ inputs l ++ page_c.
Definition deliver_form (action : pystr) (args : list (pystr * fval)) : res pystr :=
  l <- form_pairs args ;; Ok (form_page action l).

(* ---- reading a page back: a minimal reader of exactly this page shape ---- *)
(* one <input .../> element at the head of the text *)
Definition read_input (s : pystr) : option ((pystr * pystr) * pystr) :=
  match strip_prefix in_a s with
  | None => None
  | Some s1 =>
    match read_attr s1 with
    | None => None
    | Some (k, s2) =>
      match strip_prefix (PS " value="""%string) s2 with
      | None => None
      | Some s3 =>
        match read_attr s3 with
        | None => None
        | Some (v, s4) =>
          match strip_prefix (PS "/>"%string) s4 with
          | None => None
          | Some s5 => Some ((k, v), s5)
          end
        end
      end
    end
  end.
(* input elements separated by newlines, up to the closing text page_c *)
Fixpoint read_inputs (fuel : nat) (s : pystr) : option (list (pystr * pystr)) :=
  match fuel with
  | O => None
  | S f =>
    if str_eqb s page_c then Some []
    else match read_input s with
         | None => None
         | Some (kv, rest) =>
             if str_eqb rest page_c then Some [kv]
             else match rest with
                  | 10 :: rest' => match read_inputs f rest' with Some t => Some (kv :: t) | None => None end
                  | _ => None
                  end
         end
  end.
Definition read_page (s : pystr) : option (pystr * list (pystr * pystr)) :=
  match strip_prefix page_a s with
  | None => None
  | Some s1 =>
    match read_attr s1 with
    | None => None
    | Some (action, s2) =>
      match strip_prefix (PS ">"%string ++ nl ++ PS "        "%string) s2 with
      | None => None
      | Some s3 => match read_inputs (S (length s3)) s3 with Some l => Some (action, l) | None => None end
      end
    end
  end.

(* ---- end-session: uri, then an ampersand if the uri already has a question mark else a question mark,
   then urlencode of the single parameter state ---- *)
Definition logout_target (uri : pystr) (state : option pystr) : res pystr :=
  match state with
  | None => Ok uri
  | Some s => b <- utf8 s ;;
              Ok (uri ++ (if existsb (fun c => c =? 63) uri then 38 else 63) :: PS "state="%string ++ quote_plus b)
  end.

(* ---- byte-level parse_qsl(keep_blank_values=True) used to state what the receiver decodes ---- *)
Fixpoint qsl_fields_b (fields : list bytes) : list (bytes * bytes) :=
  match fields with
  | [] => []
  | f :: r =>
      match f with
      | [] => qsl_fields_b r
      | _ => match split1_c 61 f with
             | Some (n, v) => (unquote_plus n, unquote_plus v) :: qsl_fields_b r
             | None => (unquote_plus f, []) :: qsl_fields_b r
             end
      end
  end.
Definition parse_qsl_b (qs : bytes) : list (bytes * bytes) :=
  match qs with [] => [] | _ => qsl_fields_b (split_c 38 qs) end.

(* ---- checkers for generated case files ---- *)
(* (return_uri, args, fragment_enc, observed url) *)
Definition chk_deliver_url (c : pystr * list (pystr * fval) * bool * pystr) : bool :=
  let '(loc, args, frag, out) := c in
  match deliver_url loc args frag with
  | Ok u => str_eqb u out
  | _ => false
  end.
Definition diag_deliver_url (c : pystr * list (pystr * fval) * bool * pystr) : res pystr :=
  let '(loc, args, frag, out) := c in deliver_url loc args frag.
(* (return_uri, args, observed page): the model page equals the observed one and reads back *)
Definition chk_deliver_form (c : pystr * list (pystr * fval) * pystr) : bool :=
  let '(loc, args, out) := c in
  match deliver_form loc args, form_pairs args with
  | Ok p, Ok l =>
      str_eqb p out &&
      match read_page out with
      | Some (a, l') => str_eqb a loc && list_eqb (fun x y => str_eqb (fst x) (fst y) && str_eqb (snd x) (snd y)) l l'
      | None => false
      end
  | _, _ => false
  end.
Definition diag_deliver_form (c : pystr * list (pystr * fval) * pystr) : res pystr :=
  let '(loc, args, out) := c in deliver_form loc args.
Definition chk_logout_target (c : pystr * option pystr * pystr) : bool :=
  let '(uri, st, out) := c in
  match logout_target uri st with Ok u => str_eqb u out | _ => false end.
Definition chk_html_escape (c : pystr * pystr) : bool := str_eqb (html_escape (fst c)) (snd c).
