(* Model/FileStore.v — C13, second sentence: idpyoidc.storage.abfile.AbstractFileSystem with the
   QPKey key converter (urllib quote_plus / unquote_plus).

   The directory is an association list  file name -> contents  (regular files only, lock files
   included: filelock's acquire opens "<name>.lock" with O_CREAT|O_TRUNC and leaves it behind).
   One instance = the directory it shares with everybody + its private cache `storage`
   (file name -> value).  mtimes are trusted (single writer): a cached entry is current.
   Keys are UTF-8 byte strings (str.encode is outside the model); values are file contents
   (the value converter is a bijection applied by the caller: PassThru / JSON).
   No proofs in this file. *)
From Verif Require Import Lib.Base Lib.PyStr Lib.Urlenc.

Notation fname := (list N).
Definition dot_lock : fname := [46; 108; 111; 99; 107]%N.          (* ".lock" *)
Definition is_lock (f : fname) : bool := ends_with dot_lock f.
Definition lock_of (f : fname) : fname := f ++ dot_lock.
Definition nonlock (p : fname * pystr) : bool := negb (is_lock (fst p)).

Definition dir := list (fname * pystr).
Record store := mk_store { st_dir : dir; st_cache : list (fname * pystr) }.
Definition empty_store : store := mk_store [] [].

(* os.path.join(fdir, f) names the directory itself / its parent for these three *)
Definition is_dirname (f : fname) : bool :=
  str_eqb f [] || str_eqb f [46%N] || str_eqb f [46%N; 46%N].

(* FileLock(f + ".lock") acquire/release: the lock file exists afterwards and is empty *)
Definition touch_lock (f : fname) (d : dir) : dir := aset (lock_of f) [] d.

Inductive op :=
| OSet (k : bytes) (v : pystr) | OGet (k : bytes) | ODel (k : bytes)
| OKeys | OItems | OContains (k : bytes) | OLen | OClear | OReopen.

Inductive out :=
| RUnit | RVal (v : pystr) | RKeys (l : list bytes) | RItems (l : list (bytes * pystr))
| RBool (b : bool) | RLen (n : nat) | RErr (e : exc).

(* __setitem__: a file name ending in ".lock" is refused before anything is touched (ValueError);
   the three directory names fail at open() (IsADirectoryError) after the lock file was created *)
Definition do_set (k : bytes) (v : pystr) (s : store) : store * out :=
  let f := quote_plus k in
  if is_lock f then (s, RErr ValueError)
  else if is_dirname f then (mk_store (touch_lock f (st_dir s)) (st_cache s), RErr (Refused 21))
  else (mk_store (aset f v (touch_lock f (st_dir s))) (aset f v (st_cache s)), RUnit).

(* __getitem__: a name ending in ".lock" is never a stored value (KeyError before anything is read);
   is_changed -> KeyError when the file is missing; the file is read (under its lock) when unseen *)
Definition do_get (k : bytes) (s : store) : store * out :=
  let f := quote_plus k in
  if is_lock f then (s, RErr KeyError) else
  match assoc f (st_dir s) with
  | None => (s, RErr KeyError)
  | Some c =>
      match assoc f (st_cache s) with
      | Some v => (s, RVal v)
      | None => (mk_store (touch_lock f (st_dir s)) (aset f c (st_cache s)), RVal c)
      end
  end.

(* __delitem__ on the serialized name *)
Definition del_file (f : fname) (d : dir) : dir :=
  if is_lock f then adel f d
  else if has_key f d then adel (lock_of f) (adel f (touch_lock f d)) else d.
Definition do_del (k : bytes) (s : store) : store * out :=
  let f := quote_plus k in
  (mk_store (del_file f (st_dir s)) (adel f (st_cache s)), RUnit).

(* synch(): every regular non-lock file not yet seen is read (under its lock) into the cache *)
Fixpoint synch_files (l : dir) (d : dir) (c : list (fname * pystr)) : dir * list (fname * pystr) :=
  match l with
  | [] => (d, c)
  | (f, x) :: r =>
      if is_lock f then synch_files r d c
      else if has_key f c then synch_files r d c
      else synch_files r (touch_lock f d) (aset f x c)
  end.
Definition synch (s : store) : store :=
  let '(d, c) := synch_files (st_dir s) (st_dir s) (st_cache s) in mk_store d c.

Definition unq_items (c : list (fname * pystr)) : list (bytes * pystr) :=
  map (fun p => (unquote_plus (fst p), snd p)) c.

Definition do_clear (s : store) : store :=
  fold_left (fun s f => fst (do_del (unquote_plus f) s)) (map fst (st_dir s)) s.

Definition step (s : store) (o : op) : store * out :=
  match o with
  | OSet k v => do_set k v s
  | OGet k => do_get k s
  | ODel k => do_del k s
  | OKeys => let s' := synch s in (s', RKeys (map fst (unq_items (st_cache s'))))
  | OItems => let s' := synch s in (s', RItems (unq_items (st_cache s')))
  | OContains k => (s, RBool (has_key (quote_plus k) (st_cache s)))
  | OLen => (s, RLen (length (filter nonlock (st_dir s))))
  | OClear => (do_clear s, RUnit)
  | OReopen => (synch (mk_store (st_dir s) []), RUnit)           (* a new instance: __init__ calls synch() *)
  end.

Fixpoint run (s : store) (ops : list op) : store * list out :=
  match ops with
  | [] => (s, [])
  | o :: r => let '(s1, x) := step s o in let '(s2, xs) := run s1 r in (s2, x :: xs)
  end.

(* what a NEW instance over the same directory observes through items() *)
Definition observe_new (d : dir) : list (bytes * pystr) :=
  unq_items (st_cache (synch (mk_store d []))).

(* ---- the specification: a plain key -> value map ---- *)
Definition amap := list (bytes * pystr).
(* keys the store refuses to write (nothing is stored for them) *)
Definition set_refusal (k : bytes) : option exc :=
  if is_lock k then Some ValueError else if is_dirname k then Some (Refused 21) else None.
Definition astep (m : amap) (o : op) : amap * out :=
  match o with
  | OSet k v => match set_refusal k with Some e => (m, RErr e) | None => (aset k v m, RUnit) end
  | OGet k => (m, match assoc k m with Some v => RVal v | None => RErr KeyError end)
  | ODel k => (adel k m, RUnit)
  | OKeys => (m, RKeys (map fst m))
  | OItems => (m, RItems m)
  | OContains k => (m, RBool (has_key k m))
  | OLen => (m, RLen (length m))
  | OClear => ([], RUnit)
  | OReopen => (m, RUnit)
  end.
Fixpoint arun (m : amap) (ops : list op) : amap * list out :=
  match ops with
  | [] => (m, [])
  | o :: r => let '(m1, x) := astep m o in let '(m2, xs) := arun m1 r in (m2, x :: xs)
  end.

(* the abstraction: unquote_plus o filename over the data files *)
Definition abs (d : dir) : amap := unq_items (filter nonlock d).

(* ---- the only side condition: keys are byte strings (the UTF-8 encoding of a str) ---- *)
Definition bytes_ok (k : bytes) : bool := forallb (fun c => c <? 256)%N k.
Definition op_ok (o : op) : bool :=
  match o with OSet k _ | ODel k | OContains k | OGet k => bytes_ok k | _ => true end.
Definition ops_ok (ops : list op) : bool := forallb op_ok ops.

(* ---- correspondence cases ---- *)
Definition bytes_eqb := str_eqb.
Definition kv_eqb (a b : bytes * pystr) : bool := str_eqb (fst a) (fst b) && str_eqb (snd a) (snd b).
Definition subset {A} (eqb : A -> A -> bool) (x y : list A) : bool :=
  forallb (fun a => existsb (eqb a) y) x.
Definition same_set {A} (eqb : A -> A -> bool) (x y : list A) : bool :=
  Nat.eqb (length x) (length y) && subset eqb x y && subset eqb y x.

(* os.listdir / dict order is not part of the interface: key and item lists compare as sets *)
Definition out_eqb (a b : out) : bool :=
  match a, b with
  | RUnit, RUnit => true
  | RVal x, RVal y => str_eqb x y
  | RKeys x, RKeys y => same_set str_eqb x y
  | RItems x, RItems y => same_set kv_eqb x y
  | RBool x, RBool y => Bool.eqb x y
  | RLen x, RLen y => Nat.eqb x y
  | RErr x, RErr y => exc_eqb x y
  | _, _ => false
  end.

(* one observed step: the op, the implementation's answer, what a second instance opened right after
   the op saw through items(), and the directory listing *)
Definition obs := (op * (out * (list (bytes * pystr) * list fname)))%type.

Fixpoint chk_trace_from (s : store) (t : list obs) : bool :=
  match t with
  | [] => true
  | (o, (x, (seen, listing))) :: r =>
      let '(s1, y) := step s o in
      out_eqb x y
      && same_set kv_eqb seen (observe_new (st_dir s1))
      (* the second instance has touched the lock of every data file; the listing is taken after it *)
      && same_set str_eqb listing (map fst (st_dir (synch (mk_store (st_dir s1) []))))
      && chk_trace_from (mk_store (st_dir (synch (mk_store (st_dir s1) []))) (st_cache s1)) r
  end.
(* the model covers every byte-string key *)
Definition chk_trace (t : list obs) : bool :=
  if ops_ok (map fst t) then chk_trace_from empty_store t else true.
Definition diag_trace (t : list obs) : list out * list fname :=
  let '(s, xs) := run empty_store (map fst t) in (xs, map fst (st_dir s)).

(* quote_plus / unquote_plus themselves, against urllib *)
Definition chk_quote (c : bytes * bytes) : bool := str_eqb (quote_plus (fst c)) (snd c).
Definition chk_unquote (c : bytes * bytes) : bool := str_eqb (unquote_plus (fst c)) (snd c).
