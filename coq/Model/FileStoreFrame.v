(* Model/FileStoreFrame.v — C13, file store: the FILE-NAME relation between keys made explicit.

   A key k owns exactly two names in the directory: its value file  quote_plus k  and the lock file
   beside it,  quote_plus k ++ ".lock".  quote_plus leaves '.', '-', '_', '~', letters and digits as
   they are, so the value file of one key can be the value file of another key plus a suffix
   ("https://rp.example.org" / "https://rp.example.org.uk", "app" / "app.v2", "a" / "a.lock" /
   "a.lock.lock", "a" / "a."): the names of such keys stand next to each other in the directory and
   match the same "<name>.*" / "<name>*" patterns.  This file names that relation (`beside`), the two
   names an operation on a key may touch (`owned`), and gives the checkers that compare the CONTENTS
   of every file in the directory (not only the listing) with the model after every step of a trace,
   together with the frame condition evaluated on the key family of the trace.
   No proofs in this file (Proofs/FileStoreFrame_proofs.v). *)
From Verif Require Import Lib.Base Lib.PyStr Lib.Urlenc Model.FileStore.

(* g stands next to f: g is f followed by at least one more character *)
Definition beside (f g : fname) : bool := starts_with f g && negb (str_eqb f g).
(* the converted names of two keys are in prefix relation (either way round) *)
Definition name_related (k k' : bytes) : bool :=
  beside (quote_plus k) (quote_plus k') || beside (quote_plus k') (quote_plus k).

(* the names an operation on the file name f may create, rewrite or remove *)
Definition owned (f g : fname) : bool := str_eqb g f || str_eqb g (lock_of f).

(* the key an operation names, if it names one *)
Definition op_key (o : op) : option bytes :=
  match o with
  | OSet k _ | OGet k | ODel k | OContains k => Some k
  | _ => None
  end.

(* what the directory holds for key k: (value file, lock file) *)
Definition files_of (k : bytes) (d : dir) : option pystr * option pystr :=
  (assoc (quote_plus k) d, assoc (lock_of (quote_plus k)) d).
Definition opt_eqb (a b : option pystr) : bool :=
  match a, b with
  | Some x, Some y => str_eqb x y
  | None, None => true
  | _, _ => false
  end.

(* frame condition of one step, evaluated on a family of keys: an operation that names key k leaves
   the value file of every other key of the family as it was, and the lock file of every other key
   whose names are not owned by k (k' = k ++ ".lock" shares a NAME with k: the lock file of k) *)
Definition frame_step (fam : list bytes) (d d' : dir) (o : op) : bool :=
  match op_key o with
  | None => true
  | Some k =>
      forallb (fun k' =>
        str_eqb k k'
        || (opt_eqb (if is_lock (quote_plus k') then None else fst (files_of k' d'))
                    (if is_lock (quote_plus k') then None else fst (files_of k' d))
            && (owned (quote_plus k) (lock_of (quote_plus k'))
                || opt_eqb (snd (files_of k' d')) (snd (files_of k' d))))) fam
  end.

(* one observed step of a family trace: the op and the contents of every regular file in the
   directory after a second instance was opened over it *)
Definition fobs := (op * list (fname * pystr))%type.

Fixpoint chk_files_from (fam : list bytes) (s : store) (t : list fobs) : bool :=
  match t with
  | [] => true
  | (o, files) :: r =>
      let '(s1, _) := step s o in
      let d2 := st_dir (synch (mk_store (st_dir s1) [])) in
      same_set kv_eqb files d2
      && frame_step fam (st_dir s) (st_dir s1) o
      && chk_files_from fam (mk_store d2 (st_cache s1)) r
  end.
Definition chk_files (c : list bytes * list fobs) : bool :=
  if ops_ok (map fst (snd c)) then chk_files_from (fst c) empty_store (snd c) else true.
Definition diag_files (c : list bytes * list fobs) : list (fname * pystr) :=
  st_dir (fst (run empty_store (map fst (snd c)))).

(* the family relation itself, against str.startswith on the converted names *)
Definition chk_related (c : (bytes * bytes) * bool) : bool :=
  Bool.eqb (name_related (fst (fst c)) (snd (fst c))) (snd c).
