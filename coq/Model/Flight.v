(* Model/Flight.v — several authorization requests in flight at ONE authorization endpoint object.
   A host application (example/flask_op/views.py) calls, per request, parse_request, then either
   process_request or — when a login page was shown in between — setup_auth / create_session followed
   by authz_part2, and finally do_response; calls that belong to different requests interleave freely.
   What the endpoint answers to a request is modelled as a state-passing machine: every call gets and
   returns the state of the endpoint object.  The faithful model of the code (ep_model) has the one-point
   state: Authorization._post_parse_request writes the verified URI into the request it was given,
   post_authentication (oauth2/authorization.py) derives return_uri from the request it was given
   (get_uri once more), nothing is kept on the endpoint between calls.
   The second part (completion) adds the registration in force when the response is built: it may differ
   from the one the request was parsed under, and a stored request is never parsed at all.
   No proofs here.  Tied to the code by harness/drv_C06.py (schedules run on the real endpoint). *)
From Coq Require Import String.
From Verif Require Import Lib.Base Lib.PyStr Lib.Urlenc Lib.Html Model.Uri Model.Delivery.
Open Scope N_scope.

(* one authorization request as the endpoint sees it: the registration of ITS client, its redirect_uri,
   how its response is to be delivered (form_post page / fragment / query), and the response parameters
   the provider issues for it (code, tokens, state, ...: produced by session management, an input here) *)
Record areq := mk_areq {
  q_regs : list reg; q_native : bool; q_oidc : bool; q_uri : option pystr;
  q_form : bool; q_frag : bool; q_args : list (pystr * fval) }.
Definition set_uri (r : areq) (v : pystr) : areq :=
  mk_areq (q_regs r) (q_native r) (q_oidc r) (Some v) (q_form r) (q_frag r) (q_args r).

(* what the user agent is handed for one request *)
Inductive answer :=
| ARedirect (url : pystr)      (* a redirect: the URL *)
| APage (page : pystr)         (* the form_post page *)
| ADirect                      (* an error message without return address *)
| ARaised                      (* an exception left parse_request *)
| AOther                       (* anything else the host may see (an exception out of process_request, a login page) *)
| AOutside.                    (* outside the modelled fragment *)

(* ---- the two per-request functions of the code ---- *)
(* parse_request: the redirect decision of Model/Uri.v on the request's own client *)
Definition parse_step (r : areq) : decision := decide (q_regs r) (q_native r) (q_oidc r) (q_uri r).
(* post_authentication + do_response on a parsed request p: return_uri is get_uri of p itself *)
Definition has_key (k : pystr) (l : list (pystr * fval)) : bool := existsb (fun kv => str_eqb (fst kv) k) l.
(* the response class of the OAuth2 endpoint type (message/oauth2 AuthorizationResponse) requires "code":
   to_urlencoded raises for a message without it (token and error responses) and nothing is sent *)
Definition url_refused (p : areq) : bool := negb (q_oidc p) && negb (has_key (PS "code"%string) (q_args p)).
Definition deliver_to (v : pystr) (p : areq) : answer :=
  if q_form p
  then match deliver_form v (q_args p) with Ok pg => APage pg | _ => AOutside end
  else if url_refused p then AOther
  else match deliver_url v (q_args p) (q_frag p) with Ok u => ARedirect u | _ => AOutside end.
Definition process_step (p : areq) : answer :=
  match get_uri (q_regs p) (q_native p) (q_oidc p) (q_uri p) with
  | Ok v => deliver_to v p
  | _ => AOutside               (* error_response path: only when the registration changed in between *)
  end.
(* the answer to a request that is alone at the endpoint *)
Definition answer1 (r : areq) : answer :=
  match parse_step r with
  | Redirectable v => process_step (set_uri r v)
  | DirectError => ADirect
  | Raised _ => ARaised
  | NotModelled => AOutside
  end.

(* ---- an endpoint object: its state and its calls ---- *)
Record endpoint (S : Type) := mk_endpoint {
  e_init : S;
  e_parse : S -> areq -> S * decision;        (* parse_request *)
  e_auth : S -> areq -> S;                    (* setup_auth / create_session: yields a session id only *)
  e_part2 : S -> areq -> S * answer }.        (* authz_part2 (post_authentication) and do_response *)
Arguments e_init {S}. Arguments e_parse {S}. Arguments e_auth {S}. Arguments e_part2 {S}.

(* the faithful model: no state on the endpoint *)
Definition ep_model : endpoint unit :=
  mk_endpoint unit tt (fun _ r => (tt, parse_step r)) (fun _ _ => tt) (fun _ p => (tt, process_step p)).

(* ---- the host application: requests by number, what it keeps per request between calls ---- *)
Inductive event :=
| EvParse (i : nat) | EvProcess (i : nat) | EvAuth (i : nat) | EvPart2 (i : nat) | EvRespond (i : nat).
Inductive slot := SParsed (p : areq) | SAuthed (p : areq) | SAnswer (a : answer).
Definition table := list (nat * slot).
Fixpoint tget (i : nat) (t : table) : option slot :=
  match t with
  | [] => None
  | (j, s) :: r => if Nat.eqb i j then Some s else tget i r
  end.
Fixpoint tdel (i : nat) (t : table) : table :=
  match t with
  | [] => []
  | (j, s) :: r => if Nat.eqb i j then tdel i r else (j, s) :: tdel i r
  end.
Definition tset (i : nat) (s : slot) (t : table) : table := (i, s) :: tdel i t.

Definition of_decision (d : decision) : answer :=
  match d with Redirectable _ => AOutside | DirectError => ADirect | Raised _ => ARaised | NotModelled => AOutside end.

(* one call; returns the new endpoint state, the new table, and what is handed out (request number, answer) *)
Definition step {S} (E : endpoint S) (reqs : list areq) (st : S * table) (ev : event)
  : (S * table) * list (nat * answer) :=
  let '(s, t) := st in
  match ev with
  | EvParse i =>
      match nth_error reqs i with
      | None => (st, [])
      | Some r =>
          let '(s', d) := e_parse E s r in
          match d with
          | Redirectable v => ((s', tset i (SParsed (set_uri r v)) t), [])
          | _ => ((s', tdel i t), [(i, of_decision d)])
          end
      end
  | EvAuth i =>
      match tget i t with
      | Some (SParsed p) => ((e_auth E s p, tset i (SAuthed p) t), [])
      | _ => (st, [])
      end
  | EvPart2 i =>
      match tget i t with
      | Some (SAuthed p) => let '(s', a) := e_part2 E s p in ((s', tset i (SAnswer a) t), [])
      | _ => (st, [])
      end
  | EvProcess i =>
      match tget i t with
      | Some (SParsed p) => let '(s', a) := e_part2 E (e_auth E s p) p in ((s', tset i (SAnswer a) t), [])
      | _ => (st, [])
      end
  | EvRespond i =>
      match tget i t with
      | Some (SAnswer a) => ((s, tdel i t), [(i, a)])
      | _ => (st, [])
      end
  end.
Fixpoint run_from {S} (E : endpoint S) (reqs : list areq) (st : S * table) (sched : list event)
  : list (nat * answer) :=
  match sched with
  | [] => []
  | ev :: rest => let '(st', out) := step E reqs st ev in out ++ run_from E reqs st' rest
  end.
Definition run_flight {S} (E : endpoint S) (reqs : list areq) (sched : list event) : list (nat * answer) :=
  run_from E reqs (e_init E, []) sched.

(* the same request, alone at a fresh endpoint *)
Definition own_answer {S} (E : endpoint S) (r : areq) : answer :=
  let '(s1, d) := e_parse E (e_init E) r in
  match d with
  | Redirectable v => snd (e_part2 E (e_auth E s1 (set_uri r v)) (set_uri r v))
  | _ => of_decision d
  end.

(* an endpoint object that does keep something between calls: the last URI it verified, used for the
   next response whatever request that answers (for the non-vacuity example in Props/C06.v) *)
Definition ep_register : endpoint (option pystr) :=
  mk_endpoint (option pystr) None
    (fun s r => match parse_step r with Redirectable v => (Some v, Redirectable v) | d => (s, d) end)
    (fun s _ => s)
    (fun s p => (s, match s with Some v => deliver_to v p | None => process_step p end)).

(* ---- checker for generated case files ---- *)
(* (requests, schedule, what the real endpoint handed out in that order) *)
Definition fcase := (list areq * list event * list (nat * answer))%type.
Definition answer_eqb (m o : answer) : bool :=
  match m, o with
  | AOutside, _ => true
  | ARedirect a, ARedirect b => str_eqb a b
  | APage a, APage b => str_eqb a b
  | ADirect, ADirect => true
  | ARaised, ARaised => true
  | AOther, AOther => true
  | _, _ => false
  end.
Definition chk_flight (c : fcase) : bool :=
  let '(reqs, sched, obs) := c in
  list_eqb (fun m o => Nat.eqb (fst m) (fst o) && answer_eqb (snd m) (snd o)) (run_flight ep_model reqs sched) obs
  (* and, independently of the machine: every answer is the one of its own request alone *)
  && forallb (fun o => match nth_error reqs (fst o) with Some r => answer_eqb (answer1 r) (snd o) | None => false end) obs.
Definition diag_flight (c : fcase) : list (nat * answer) :=
  let '(reqs, sched, obs) := c in run_flight ep_model reqs sched.
Definition flight_outside (c : fcase) : nat :=
  let '(reqs, sched, obs) := c in
  length (filter (fun m => match snd m with AOutside => true | _ => false end) (run_flight ep_model reqs sched)).

(* ================================================================== completion: the SECOND judgement of the redirect URI *)
(* The redirect URI is judged twice: by parse_request (parse_step, under the registration in force then) and
   again when the response is built — Authorization.post_authentication calls get_uri once more, and so does
   error_by_response_mode before it sends an error by redirect (authz_part2).  Between the two the client's
   registration may change (a URI de-registered or replaced, the application type changed, the client deleted),
   and a host may resume a flow after the login page from a STORED request that the endpoint never parsed
   (example/flask_op/views.py::verify: create_session + authz_part2).  The areq carries the registration in
   force when it was parsed (q_regs, q_native); the one in force when the response is built is an argument. *)
Inductive regn := Gone | Reg (regs : list reg) (native : bool).
(* the response_mode parameter of the request *)
Inductive rmode := MNone | MQuery | MFragment | MForm.

(* verify_uri looks the client up first: KeyError("No client info found") *)
Definition get_uri_at (g : regn) (oidc : bool) (u : option pystr) : res pystr :=
  match g with
  | Gone => Err KeyError
  | Reg regs native => get_uri regs native oidc u
  end.

(* error_by_response_mode with a verified return_uri v: response_mode(request, response_args, return_uri);
   without response_mode in the request KeyError leaves authz_part2 *)
Definition by_mode (md : rmode) (v : pystr) (p : areq) : answer :=
  match md with
  | MNone => AOther
  | MForm => match deliver_form v (q_args p) with Ok pg => APage pg | _ => AOutside end
  | MQuery => if url_refused p then AOther
              else match deliver_url v (q_args p) false with Ok u => ARedirect u | _ => AOutside end
  | MFragment => if url_refused p then AOther
                 else match deliver_url v (q_args p) true with Ok u => ARedirect u | _ => AOutside end
  end.

(* authz_part2 + do_response on request p under registration g.
   failed: post_authentication raises for a reason that has nothing to do with the redirect URI (the session
   ended between login and completion); q_args p are then the parameters of the error message.
   - get_uri succeeds: the response (or, when completion failed, the error, placed by response_mode) goes to v;
   - get_uri raises RedirectURIError / ParameterError: error_response WITHOUT return_uri;
   - get_uri raises anything else: `except Exception` -> error_by_response_mode -> get_uri raises again ->
     the error message WITHOUT return_uri.
   Without return_uri do_response has no place to put the message (KeyError): the host answers itself. *)
Definition complete (g : regn) (md : rmode) (failed : bool) (p : areq) : answer :=
  match get_uri_at g (q_oidc p) (q_uri p) with
  | Ok v => if failed then by_mode md v p else deliver_to v p
  | Err _ => AOther
  | Unmodelled => AOutside
  end.
(* process_request looks the client up before anything else (KeyError leaves it) *)
Definition process_call (g : regn) (md : rmode) (p : areq) : answer :=
  match g with Gone => AOther | _ => complete g md false p end.

(* the whole history of one request: parsed under its own registration (or taken from where the host stored
   it, never parsed), completed under g *)
Definition answer_at (stored via_process failed : bool) (g : regn) (md : rmode) (r : areq) : answer :=
  if stored then complete g md failed r
  else match parse_step r with
       | Redirectable v => if via_process then process_call g md (set_uri r v) else complete g md failed (set_uri r v)
       | d => of_decision d
       end.

(* for the non-vacuity example in Props/C06.v: a completion step that, when the second judgement fails, fills in
   the request's own redirect_uri as the place to send the error to *)
Definition complete_unverified (g : regn) (md : rmode) (p : areq) : answer :=
  match get_uri_at g (q_oidc p) (q_uri p), q_uri p with
  | Ok v, _ => deliver_to v p
  | Err _, Some u => by_mode md u p
  | _, _ => AOther
  end.

(* (stored, via process_request, completion failed, registration at completion, response_mode, request, observed) *)
Definition ccase := (bool * bool * bool * regn * rmode * areq * answer)%type.
Definition chk_complete (c : ccase) : bool :=
  let '(stored, viap, failed, g, md, r, obs) := c in answer_eqb (answer_at stored viap failed g md r) obs.
Definition diag_complete (c : ccase) : answer :=
  let '(stored, viap, failed, g, md, r, obs) := c in answer_at stored viap failed g md r.
