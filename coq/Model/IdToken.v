(* Model/IdToken.v — executable model of ID-Token validation at the relying party (property C08).

   Transcribes, branch for branch:
     idpyoidc.message.Message.from_dict / _add_value  (coercion of JSON claim values, sformat "dict")
     idpyoidc.message.Message.verify                  (required parameters)
     idpyoidc.message.oidc.IdToken.verify             (iss, aud / azp, exp / iat windows, nonce)
     idpyoidc.message.oidc.verify_id_token            (alg-none policy, allowed_sign_alg, known issuer,
                                                       signature via Message.from_jwt, c_hash / at_hash)
     idpyoidc.message.Message.from_jwt / _gather_keys
   and the part of cryptojwt that selects verification keys (KeyJar.get_jwt_verify_keys, JWS.pick_keys,
   JWS.verify_compact) over an abstract key jar.  The JWS itself is symbolic: header alg, header kid,
   the key that produced the signature (None = bytes that verify under no key) and the JSON claims.
   The schema tables come from Gen/RpTables.v, regenerated from /repo/src on every run.
   No proofs here. *)
From Coq Require Import String.
From Verif Require Import Lib.Base Lib.PyStr Lib.RpTy Gen.RpTables.
Open Scope string_scope.

(* ---- exception classes (tags used by the harness: harness/rp_c08c09.py EXC) ---- *)
Definition E_UnsupportedAlgorithm : exc := Refused 1.
Definition E_MissingRequiredAttribute : exc := Refused 2.
Definition E_IssuerMismatch : exc := Refused 3.
Definition E_NotForMe : exc := Refused 4.
Definition E_VerificationError : exc := Refused 5.
Definition E_EXPError : exc := Refused 6.
Definition E_IATError : exc := Refused 7.
Definition E_AtHashError : exc := Refused 8.
Definition E_CHashError : exc := Refused 9.
Definition E_MissingSigningKey : exc := Refused 10.
Definition E_BadSignature : exc := Refused 11.
Definition E_NoSuitableSigningKeys : exc := Refused 12.
Definition E_SignerAlgError : exc := Refused 13.
Definition E_DecodeError : exc := Refused 14.
Definition E_ParameterError : exc := Refused 15.
Definition E_IssuerNotFound : exc := Refused 16.
Definition E_ResponseError : exc := Refused 17.
Definition E_OidcServiceError : exc := Refused 18.
Definition E_HeaderError : exc := Refused 19.
Definition E_NoSuitableDecryptionKey : exc := Refused 20.

Notation dict := (list (pystr * pyval)).

(* ---- Python helpers on pyval ---- *)
Definition is_vstr (v : pyval) : bool := match v with VStr _ => true | _ => false end.
Definition opt_str_eqb (a b : option pystr) : bool := option_eqb str_eqb a b.

(* x in c *)
Definition py_in (x c : pyval) : res bool :=
  match c with
  | VList l => Ok (existsb (pyval_eqb x) l)
  | VDict d => match x with
               | VStr s => Ok (has_key s d)
               | VNone | VBool _ | VInt _ => Ok false
               | _ => Err TypeError
               end
  | _ => Err TypeError
  end.
Definition py_len (c : pyval) : res nat :=
  match c with
  | VList l => Ok (List.length l)
  | VDict d => Ok (List.length d)
  | VStr s => Ok (List.length s)
  | _ => Err TypeError
  end.

(* int(str) on binary numbers: Lib/PyStr.py_int goes through unary nat, which cannot hold a timestamp.
   Same grammar: surrounding white space, optional sign, ASCII digits with single underscores between digits;
   a non-ASCII, non-space code point is outside the modelled fragment. *)
Fixpoint digits_to_N (s : pystr) (acc : N) : option N :=
  match s with
  | [] => Some acc
  | c :: r => if is_digit c then digits_to_N r (acc * 10 + (c - 48))%N else None
  end.
Definition py_int_z (s : pystr) : res Z :=
  if existsb (fun c => (127 <? c)%N) s && negb (forallb (fun c => is_space c || (c <? 128)%N) s) then Unmodelled
  else
    let t := strip s in
    let '(neg, body) := match t with
                        | 45%N :: r => (true, r)
                        | 43%N :: r => (false, r)
                        | _ => (false, t)
                        end in
    match drop_underscores false body with
    | Some (c :: ds) => match digits_to_N (c :: ds) 0%N with
                        | Some n => Ok (if neg then - Z.of_N n else Z.of_N n)%Z
                        | None => Err ValueError
                        end
    | _ => Err ValueError
    end.

(* ---- Message.from_dict / _add_value (sformat = "dict") ---- *)
(* `val in ["", [""]]` : the parameter is skipped *)
Definition is_blank (v : pyval) : bool :=
  match v with
  | VStr [] => true
  | VList [VStr []] => true
  | _ => false
  end.

Definition coerce (t : ctype) (v : pyval) : res (option pyval) :=
  match v with
  | VList [] => Ok None                      (* empty list, null not allowed: silently dropped *)
  | VList (VNone :: _) => Ok None
  | _ =>
    match t with
    | CStr => match v with
              | VNone => Ok (Some VNone)
              | VBool _ => Err ValueError
              | VStr _ => Ok (Some v)
              | _ => Err ValueError
              end
    | CInt => match v with
              | VNone => Ok (Some VNone)
              | VBool _ => Err ValueError
              | VInt _ => Ok (Some v)
              | VStr s => match py_int_z s with
                          | Ok z => Ok (Some (VInt z))
                          | Err _ => Err ValueError
                          | Unmodelled => Unmodelled
                          end
              | _ => Err ValueError
              end
    | CBool => match v with
               | VNone => Ok (Some VNone)
               | VBool _ => Ok (Some v)
               | _ => Err ValueError
               end
    | CStrList => match v with
                  | VNone => Err ValueError
                  | VStr s => Ok (Some (VList [VStr s]))
                  | VList l => if forallb is_vstr l then Ok (Some v) else Err E_DecodeError
                  | VDict _ => Ok (Some v)
                  | _ => Err E_DecodeError
                  end
    | CSpList => match v with
                 | VNone => Err ValueError
                 | VStr s => Ok (Some (VList (List.map VStr (split_c 32 s))))
                 | VList [VStr s] => Ok (Some (VList (List.map VStr (split_c 32 s))))
                 | VList l => if forallb is_vstr l then Ok (Some v) else Unmodelled
                 | _ => Unmodelled
                 end
    | CJwt => match v with
              | VNone => Ok (Some VNone)
              | VBool _ => Err ValueError
              | VStr _ => Ok (Some v)
              | VDict _ => Ok (Some v)
              | _ => Err ValueError
              end
    | COther => Unmodelled
    end
  end.

Fixpoint from_dict (spec : list pspec) (claims : dict) (acc : dict) : res dict :=
  match claims with
  | [] => Ok acc
  | (k, v) :: r =>
      if is_blank v then from_dict spec r acc
      else match find_spec k spec with
           | None => if existsb (N.eqb 35) k then Unmodelled      (* "name#lang" keys *)
                     else from_dict spec r (aset k v acc)
           | Some ps =>
               match coerce (ps_type ps) v with
               | Ok None => from_dict spec r acc
               | Ok (Some v') => from_dict spec r (aset k v' acc)
               | Err e => Err e
               | Unmodelled => Unmodelled
               end
           end
  end.

(* ---- Message.verify: required parameters must be present and truthy (bool-typed: present) ---- *)
Fixpoint check_required (spec : list pspec) (d : dict) : res unit :=
  match spec with
  | [] => Ok tt
  | ps :: r =>
      match assoc (ps_name ps) d with
      | None => if ps_required ps then Err E_MissingRequiredAttribute else check_required r d
      | Some v =>
          match ps_type ps with
          | CBool => check_required r d
          | _ => if py_truthy v then check_required r d
                 else if ps_required ps then Err E_MissingRequiredAttribute else check_required r d
          end
      end
  end.

(* Message.to_dict applies the declared serialiser: list_serializer raises on a non-list *)
Fixpoint to_dict_check (spec : list pspec) (d : dict) : res unit :=
  match d with
  | [] => Ok tt
  | (k, v) :: r =>
      match find_spec k spec with
      | Some ps => match ps_type ps with
                   | CStrList => match v with
                                 | VList _ => to_dict_check spec r
                                 | _ => Err ValueError
                                 end
                   | _ => to_dict_check spec r
                   end
      | None => to_dict_check spec r
      end
  end.

(* ---- the symbolic JWS and the key jar ---- *)
Inductive kty := KRsa | KEc | KOct.
Definition kty_eqb (a b : kty) : bool :=
  match a, b with KRsa, KRsa | KEc, KEc | KOct, KOct => true | _, _ => false end.

Record jar_entry := mkJE { je_owner : pystr; je_kty : kty; je_kid : pystr; je_key : nat }.
Notation jar := (list jar_entry).

(* an optional JWE around the JWS (nested JWT): header alg and enc, and the key the content was encrypted
   to (None = bytes that decrypt under no key).  Symbolically decryption is the identity: AEnc under w_key. *)
Record jwe_wrap := mkJwe { w_alg : pystr; w_enc : pystr; w_key : option nat }.

Record token := mkTok {
  t_alg : pystr;                 (* header alg of the JWS *)
  t_kid : option pystr;          (* header kid *)
  t_signer : option nat;         (* key number that produced the signature over this header and payload *)
  t_claims : dict;               (* JSON payload *)
  t_wrap : option jwe_wrap       (* delivered as a JWE around the JWS? *)
}.
Definition unwrap (t : token) : token := mkTok (t_alg t) (t_kid t) (t_signer t) (t_claims t) None.

(* cryptojwt: SIGNER_ALGS membership (jws.factory returns None for any other alg: "not a signed JWT") and
   jws.utils.alg2keytype.  The EC/OKP variants that are not generated are outside the fragment. *)
Definition alg2kty (alg : pystr) : option kty :=
  if str_eqb alg (PS "RS256") || str_eqb alg (PS "RS384") || str_eqb alg (PS "RS512")
     || str_eqb alg (PS "PS256") || str_eqb alg (PS "PS384") || str_eqb alg (PS "PS512") then Some KRsa
  else if str_eqb alg (PS "ES256") || str_eqb alg (PS "ES384") || str_eqb alg (PS "ES512") then Some KEc
  else if str_eqb alg (PS "HS256") || str_eqb alg (PS "HS384") || str_eqb alg (PS "HS512") then Some KOct
  else None.
Definition alg_unmodelled (alg : pystr) : bool :=
  str_eqb alg (PS "ES256K") || str_eqb alg (PS "EdDSA") || str_eqb alg (PS "Ed25519") || str_eqb alg (PS "Ed448").

(* the arguments of verify(kwargs) that matter *)
Record kwargs := mkKw {
  kw_iss : option pystr;
  kw_client_id : option pystr;
  kw_sigalg : option pystr;
  kw_allowed_sign_alg : option pystr;
  kw_allow_none : bool;
  kw_skew : option Z;
  kw_storage : option Z;
  kw_allow_missing_kid : bool;
  kw_nonce : option pystr;
  kw_jar : jar;
  kw_encalg : option pystr;      (* expected JWE alg (id_token_encrypted_response_alg) *)
  kw_encenc : option pystr;      (* expected JWE enc *)
  kw_dec : list nat              (* this client's own RSA decryption keys: keyjar.get_decrypt_key(owner="") *)
}.
Definition kw_plain (kw : kwargs) : kwargs :=
  mkKw (kw_iss kw) (kw_client_id kw) (kw_sigalg kw) (kw_allowed_sign_alg kw) (kw_allow_none kw) (kw_skew kw)
       (kw_storage kw) (kw_allow_missing_kid kw) (kw_nonce kw) (kw_jar kw) None None (kw_dec kw).

Definition kid_eff (t : token) : option pystr :=
  match t_kid t with Some [] => None | k => k end.

Definition jar_has_owner (j : jar) (o : pystr) : bool := existsb (fun e => str_eqb (je_owner e) o) j.
Definition owner_keys (j : jar) (o : pystr) (k : kty) : jar :=
  filter (fun e => str_eqb (je_owner e) o && kty_eqb (je_kty e) k) j.

(* KeyJar.get_jwt_verify_keys: whose keys are looked up — the token's own iss claim if it is truthy,
   otherwise the iss argument; Some [] = "no issuer, use my own keys"; None = outside the fragment *)
Definition key_issuer (kw : kwargs) (t : token) : option pystr :=
  match assoc (PS "iss") (t_claims t) with
  | Some (VStr (c :: s)) => Some (c :: s)
  | Some v => if py_truthy v then None else
                match kw_iss kw with Some (c :: s) => Some (c :: s) | _ => Some [] end
  | None => match kw_iss kw with Some (c :: s) => Some (c :: s) | _ => Some [] end
  end.

(* KeyJar.get_jwt_verify_keys + Message._gather_keys *)
Definition gather_keys (kw : kwargs) (t : token) (k : kty) : res jar :=
  let j := kw_jar kw in
  match key_issuer kw t with
  | None => Unmodelled            (* a truthy non-string iss reaches the key jar: outside the fragment *)
  | Some [] =>
      let ks := owner_keys j [] k in
      if match ks with [] => true | _ => false end then Err E_MissingSigningKey else Ok ks
  | Some iss =>
      if negb (jar_has_owner j iss) then Err E_IssuerNotFound else
      let own := owner_keys j iss k in
      let sel := match kid_eff t with
                 | Some kid => filter (fun e => str_eqb (je_kid e) kid) own
                 | None => match own with
                           | [] => []
                           | [x] => [x]
                           | _ => if kw_allow_missing_kid kw then own else []
                           end
                 end in
      let ks := (sel ++ (if kty_eqb k KOct then owner_keys j [] KOct else []))%list in
      if match ks with [] => true | _ => false end then Err E_MissingSigningKey else Ok ks
  end.

(* JWS.verify_compact: expected alg, pick_keys (kid filter), try every key *)
Definition verify_compact (kw : kwargs) (t : token) (ks : jar) : res unit :=
  let bad_alg := match kw_sigalg kw with
                 | Some (c :: s) => negb (str_eqb (c :: s) (t_alg t))
                 | _ => false
                 end in
  if bad_alg then Err E_SignerAlgError else
  let picked := match kid_eff t with
                | Some kid => filter (fun e => str_eqb (je_kid e) kid) ks
                | None => ks
                end in
  match picked with
  | [] => Err E_NoSuitableSigningKeys
  | _ => match t_signer t with
         | Some s => if existsb (fun e => Nat.eqb (je_key e) s) picked then Ok tt else Err E_BadSignature
         | None => Err E_BadSignature
         end
  end.

(* the key under which the signature was accepted (used by the soundness statement) *)
Definition sig_accepted (kw : kwargs) (t : token) : res unit :=
  match alg2kty (t_alg t) with
  | None => Unmodelled
  | Some k => ks <- gather_keys kw t k ;; verify_compact kw t ks
  end.
Definition is_jws_alg (alg : pystr) : bool :=
  str_eqb alg (PS "none") || match alg2kty alg with Some _ => true | None => false end.

(* ---- IdToken.verify (after the generic Message.verify) ---- *)
Definition idtoken_checks (kw : kwargs) (d : dict) (now : Z) : res unit :=
  (* iss *)
  _ <- match kw_iss kw, assoc (PS "iss") d with
       | Some i, Some v => if pyval_eqb (VStr i) v then Ok tt else Err E_IssuerMismatch
       | _, _ => Ok tt
       end ;;
  (* aud / azp *)
  _ <- match assoc (PS "aud") d with
       | None => Ok tt
       | Some aud =>
           _ <- match kw_client_id kw with
                | Some c => b <- py_in (VStr c) aud ;; if b then Ok tt else Err E_NotForMe
                | None => Ok tt
                end ;;
           n <- py_len aud ;;
           if Nat.ltb 1 n then
             match assoc (PS "azp") d with
             | Some azp => b <- py_in azp aud ;; if b then Ok tt else Err E_VerificationError
             | None => Err E_VerificationError
             end
           else Ok tt
       end ;;
  _ <- match assoc (PS "azp") d, kw_client_id kw with
       | Some azp, Some c => if pyval_eqb (VStr c) azp then Ok tt else Err E_NotForMe
       | _, _ => Ok tt
       end ;;
  let skew := match kw_skew kw with Some s => s | None => 0%Z end in
  let storage := match kw_storage kw with Some s => s | None => nonce_storage_time end in
  match assoc (PS "exp") d with
  | None => Err E_MissingRequiredAttribute
  | Some (VInt exp) =>
      if (exp <? now - skew)%Z then Err E_EXPError else
      match assoc (PS "iat") d with
      | None => Err E_MissingRequiredAttribute
      | Some (VInt iat) =>
          if (iat + storage <? now - skew)%Z then Err E_IATError
          else if (now + skew <? iat)%Z then Err E_IATError
          else if (exp <? iat)%Z then Err E_IATError
          else match kw_nonce kw, assoc (PS "nonce") d with
               | Some n, Some v => if pyval_eqb (VStr n) v then Ok tt else Err ValueError
               | Some n, None => Err E_MissingRequiredAttribute
               | None, _ => Ok tt
               end
      | Some _ => Err TypeError
      end
  | Some _ => Err TypeError
  end.

(* hash function name used for at_hash / c_hash: "HS" + alg[-3:] -> 256 / 384 / 512 *)
Definition hash_bits (alg : pystr) : pystr := List.rev (firstn 3 (List.rev alg)).

(* ---- the stages of verify_id_token that do not need the hash function ---- *)
(* jws.factory: a compact JWS whose alg is in SIGNER_ALGS, else "not a signed JWT" *)
Definition jws_gate (alg : pystr) : res unit :=
  if alg_unmodelled alg then Unmodelled else if is_jws_alg alg then Ok tt else Err ValueError.

(* alg == "none" only if sigalg == "none" was expected or allow_sign_alg_none; allowed_sign_alg equality.
   Result: is the token signed *)
Definition alg_policy (kw : kwargs) (alg : pystr) : res bool :=
  if str_eqb alg (PS "none") then
    if opt_str_eqb (kw_sigalg kw) (Some (PS "none")) then Ok false
    else if kw_allow_none kw then Ok false else Err E_UnsupportedAlgorithm
  else match kw_allowed_sign_alg kw with
       | Some a => if str_eqb alg a then Ok true else Err E_UnsupportedAlgorithm
       | None => Ok true
       end.

(* the iss claim of a signed token must name an issuer the key jar knows *)
Definition issuer_known (kw : kwargs) (t : token) : res unit :=
  match assoc (PS "iss") (t_claims t) with
  | None => Err E_MissingRequiredAttribute
  | Some (VStr s) => if jar_has_owner (kw_jar kw) s then Ok tt else Err ValueError
  | Some (VList _) | Some (VDict _) | Some (VObj _) => Err TypeError
  | Some _ => Err ValueError
  end.

(* verify_id_token's own look inside an encrypted ID Token: jwe.factory(token) and decrypt with the client's
   decryption keys.  RSA key-transport algorithms only; anything else is outside the fragment. *)
Definition jwe_alg_modelled (a : pystr) : bool :=
  str_eqb a (PS "RSA-OAEP") || str_eqb a (PS "RSA-OAEP-256") || str_eqb a (PS "RSA1_5").
Definition jwe_enc_modelled (e : pystr) : bool :=
  str_eqb e (PS "A128CBC-HS256") || str_eqb e (PS "A192CBC-HS384") || str_eqb e (PS "A256CBC-HS512")
  || str_eqb e (PS "A128GCM") || str_eqb e (PS "A192GCM") || str_eqb e (PS "A256GCM").
Definition decrypt_stage (kw : kwargs) (t : token) : res unit :=
  match t_wrap t with
  | None => Ok tt
  | Some w =>
      if negb (jwe_alg_modelled (w_alg w) && jwe_enc_modelled (w_enc w)) then Unmodelled else
      match kw_dec kw with
      | [] => Err E_NoSuitableDecryptionKey
      | ks => match w_key w with
              | Some k => if existsb (Nat.eqb k) ks then Ok tt else Err ValueError
              | None => Err ValueError
              end
      end
  end.

(* Message.from_jwt: jwe.factory(txt, alg=encalg, enc=encenc) compares the header of what was delivered
   (the JWE header, or the header of a plain JWS, which has no enc) with the expected values *)
Definition header_expect (expected : option pystr) (actual : option pystr) : res unit :=
  match expected, actual with
  | Some (x :: e), Some a => if str_eqb (x :: e) a then Ok tt else Err E_HeaderError
  | _, _ => Ok tt
  end.
Definition enc_expectation (kw : kwargs) (t : token) : res unit :=
  match t_wrap t with
  | None => header_expect (kw_encalg kw) (Some (t_alg t))
  | Some w => _ <- header_expect (kw_encalg kw) (Some (w_alg w)) ;; header_expect (kw_encenc kw) (Some (w_enc w))
  end.

Definition unmodelled_claims (d : dict) : res unit :=
  if has_key (PS "error_description") d || has_key (PS "birthdate") d then Unmodelled else Ok tt.

Section WithHash.
  (* left_hash(value, "HS<bits>") — supplied by the environment (hashlib); the theorems are parametric in it *)
  Variable lhash : pystr -> pystr -> pystr.

  Definition hash_check (d : dict) (alg : pystr) (claim : pystr) (value : option pystr) (bad : exc) : res unit :=
    match value with
    | None => Ok tt
    | Some v =>
        match assoc claim d with
        | None => Err E_MissingRequiredAttribute
        | Some h => if pyval_eqb h (VStr (lhash (hash_bits alg) v)) then Ok tt else Err bad
        end
    end.

  Definition hash_checks (signed check_hash : bool) (d : dict) (alg : pystr) (code atok : option pystr) : res unit :=
    if signed && check_hash then
      _ <- hash_check d alg (PS "at_hash") atok E_AtHashError ;;
      hash_check d alg (PS "c_hash") code E_CHashError
    else Ok tt.

  (* verify_id_token(msg, check_hash, kwargs): returns the verified, typed claims *)
  Definition verify_id_token (kw : kwargs) (check_hash : bool) (code atok : option pystr) (t : token) (now : Z)
    : res dict :=
    _ <- decrypt_stage kw t ;;
    _ <- jws_gate (t_alg t) ;;
    signed <- alg_policy kw (t_alg t) ;;
    _ <- (if signed : bool then issuer_known kw t else Ok tt) ;;
    _ <- enc_expectation kw t ;;
    _ <- (if signed : bool then sig_accepted kw t else Ok tt) ;;
    d <- from_dict idtoken_params (t_claims t) [] ;;
    _ <- check_required idtoken_params d ;;
    _ <- unmodelled_claims d ;;
    _ <- idtoken_checks kw d now ;;
    _ <- hash_checks signed check_hash d (t_alg t) code atok ;;
    _ <- to_dict_check idtoken_params d ;;
    Ok d.
End WithHash.

(* ---- the response messages that carry an ID Token ---- *)
(* r_params: every parameter as delivered (JSON values; the id_token parameter is an opaque string naming
   the JWS); r_idt: what that JWS is, symbolically *)
Record response := mkResp { r_params : dict; r_idt : option token }.

Definition verified_name (c : pystr) : pystr := (verified_prefix ++ c)%list.
(* clear_verified_claims: del msg["__verified_<claim>"] for the listed claims (keys of a dict are unique) *)
Definition is_verified_name (k : pystr) : bool :=
  existsb (fun c => str_eqb k (verified_name c)) claims_with_verified.
Definition strip_verified (d : dict) : dict := filter (fun kv => negb (is_verified_name (fst kv))) d.

Definition opt_param (d : dict) (k : pystr) : res (option pystr) :=
  match assoc k d with
  | None => Ok None
  | Some (VStr s) => Ok (Some s)
  | Some _ => Unmodelled
  end.

Definition param_matches (d : dict) (k : pystr) (expected : option pystr) : res unit :=
  match assoc k d, expected with
  | Some v, Some e => if pyval_eqb v (VStr e) then Ok tt else Err E_VerificationError
  | _, _ => Ok tt
  end.

Section WithHash2.
  Variable lhash : pystr -> pystr -> pystr.

  (* oidc.AuthorizationResponse.verify on the already deserialised parameters d *)
  Definition authz_response_verify (kw : kwargs) (d : dict) (idt : option token) (now : Z) : res dict :=
    _ <- check_required authz_resp_params d ;;
    _ <- (if has_key (PS "error_description") d || has_key (PS "aud") d then Unmodelled else Ok tt) ;;
    _ <- param_matches d (PS "client_id") (kw_client_id kw) ;;
    _ <- param_matches d (PS "iss") (kw_iss kw) ;;
    let d1 := strip_verified d in
    match assoc (PS "id_token") d1, idt with
    | None, _ => Ok d1
    | Some (VStr _), Some t =>
        code <- opt_param d1 (PS "code") ;;
        atok <- opt_param d1 (PS "access_token") ;;
        v <- verify_id_token lhash kw true code atok t now ;;
        Ok (aset (verified_name (PS "id_token")) (VDict v) d1)
    | Some _, _ => Unmodelled
    end.

  (* oidc.AccessTokenResponse.verify *)
  Definition token_response_verify (kw : kwargs) (d : dict) (idt : option token) (now : Z) : res dict :=
    _ <- check_required token_resp_params d ;;
    _ <- (if has_key (PS "error_description") d then Unmodelled else Ok tt) ;;
    let d1 := strip_verified d in
    match assoc (PS "id_token") d1, idt with
    | None, _ => Ok d1
    | Some (VStr _), Some t =>
        v <- verify_id_token lhash kw false None None t now ;;
        Ok (aset (verified_name (PS "id_token")) (VDict v) d1)
    | Some _, _ => Unmodelled
    end.
End WithHash2.

(* ---- comparison helpers for generated case files ---- *)
Fixpoint insert_sorted (kv : pystr * pyval) (l : dict) : dict :=
  match l with
  | [] => [kv]
  | x :: r => if (fix lt (a b : pystr) : bool :=
                    match a, b with
                    | [], [] => false | [], _ => true | _, [] => false
                    | c :: a', e :: b' => if (c <? e)%N then true else if (e <? c)%N then false else lt a' b'
                    end) (fst kv) (fst x) then kv :: l else x :: insert_sorted kv r
  end.
Definition sort_dict (d : dict) : dict := fold_right insert_sorted [] d.
Definition dict_eqb (a b : dict) : bool := pyval_eqb (VDict (sort_dict a)) (VDict (sort_dict b)).

(* finite hash table supplied by a case file: ((bits, value), digest) *)
Definition lhash_of (tbl : list (pystr * pystr * pystr)) (bits v : pystr) : pystr :=
  match find (fun e => str_eqb (fst (fst e)) bits && str_eqb (snd (fst e)) v) tbl with
  | Some e => snd e
  | None => PS "?unknown-hash?"
  end.

(* one message-API case: kwargs, check_hash, code, access_token, token, now, table, observed result *)
Definition msg_case := (kwargs * bool * option pystr * option pystr * token * Z * list (pystr * pystr * pystr) * res dict)%type.
Definition run_msg_case (c : msg_case) : res dict :=
  let '(kw, ch, code, atok, t, now, tbl, _) := c in verify_id_token (lhash_of tbl) kw ch code atok t now.
Definition chk_msg_case (c : msg_case) : bool :=
  let '(_, _, _, _, _, _, _, obs) := c in
  match run_msg_case c, obs with
  | Unmodelled, _ => true
  | r, o => res_eqb dict_eqb r o
  end.

(* one response-level message-API case: which class, kwargs, response, now, table, observed message dict *)
Definition resp_case := (bool * kwargs * response * Z * list (pystr * pystr * pystr) * res dict)%type.
Definition run_resp_case (c : resp_case) : res dict :=
  let '(is_authz, kw, r, now, tbl, _) := c in
  d <- from_dict (if is_authz : bool then authz_resp_params else token_resp_params) (r_params r) [] ;;
  if is_authz then authz_response_verify (lhash_of tbl) kw d (r_idt r) now
  else token_response_verify (lhash_of tbl) kw d (r_idt r) now.
Definition chk_resp_case (c : resp_case) : bool :=
  let '(_, _, _, _, _, obs) := c in
  match run_resp_case c, obs with
  | Unmodelled, _ => true
  | r, o => res_eqb dict_eqb r o
  end.
Definition unmodelled_resp_case (c : resp_case) : bool :=
  match run_resp_case c with Unmodelled => false | _ => true end.
