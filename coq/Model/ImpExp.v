(* Model/ImpExp.v — C13: idpyoidc.impexp.ImpExp.dump_attr / load_attr / dump / load over JSON-like values.

   Values are `pyval`.  An ImpExp instance is `VObj fields` (attribute -> value); a Message instance is
   `VObj [("__msg__", VStr qualified_class_name); ("dict", VDict content)]` (Message.to_dict/from_dict
   are the identity on `content`: C10's subject, assumed here).  `bytes` values are outside pyval: what
   load_attr makes of a "BYTES:..." string is represented by `VObj [("BYTES", VStr rest)]`
   (= base64.b64decode(rest) as bytes, or binascii.Error) — in either case not the str that was dumped.
   No proofs in this file. *)
From Verif Require Import Lib.Base Lib.PyStr Lib.ImpExpTy.

Definition s_bytes : pystr := [66; 89; 84; 69; 83; 58]%N.                        (* "BYTES:" *)
Definition s_upstream_get : pystr := [117;112;115;116;114;101;97;109;95;103;101;116]%N.   (* "upstream_get" *)
Definition s_class : pystr := [99; 108; 97; 115; 115]%N.                          (* "class" *)
Definition s_BYTES : pystr := [66; 89; 84; 69; 83]%N.
Definition s_msg : pystr := [95;95;109;115;103;95;95]%N.                           (* "__msg__" *)
Definition s_dict : pystr := [100;105;99;116]%N.                                   (* "dict" *)
Definition s_DICT_TYPE : pystr := [68;73;67;84;95;84;89;80;69]%N.                   (* "DICT_TYPE" *)

Fixpoint drop {A} (n : nat) (l : list A) : list A :=
  match n, l with O, _ => l | S n', [] => [] | S n', _ :: r => drop n' r end.

(* type2cls(v) — note isinstance(True, int): booleans are classified as 0 *)
Definition type2cls (v : pyval) : ptype :=
  match v with
  | VStr _ => PStr | VInt _ | VBool _ => PInt | VDict _ => PDict | VList _ => PList
  | VNone | VObj _ => PNone
  end.

(* dump_attr(type2cls(v), v) *)
Fixpoint dump_json (v : pyval) : res pyval :=
  match v with
  | VList l =>
      r <- (fix go (l : list pyval) : res (list pyval) :=
              match l with
              | [] => Ok []
              | x :: r => y <- dump_json x ;; ys <- go r ;; Ok (y :: ys)
              end) l ;;
      Ok (VList r)
  | VDict d =>
      r <- (fix go (d : list (pystr * pyval)) : res (list (pystr * pyval)) :=
              match d with
              | [] => Ok []
              | (k, x) :: r =>
                  if str_eqb k s_upstream_get then go r
                  else if str_eqb k s_class then
                    match x with
                    | VStr _ => ys <- go r ;; Ok ((k, x) :: ys)
                    | _ => Err AttributeError              (* fully_qualified_name(v) on a non-class *)
                    end
                  else y <- dump_json x ;; ys <- go r ;; Ok ((k, y) :: ys)
              end) d ;;
      Ok (VDict r)
  | _ => Ok v                   (* incl. objects nested in a list/dict: type2cls -> None -> val = item *)
  end.

Definition load_str (s : pystr) : pyval :=
  if starts_with s_bytes s then VObj [(s_BYTES, VStr (drop 6 s))] else VStr s.

(* load_attr(type2cls(v), v) *)
Fixpoint load_json (v : pyval) : res pyval :=
  match v with
  | VStr s => Ok (load_str s)
  | VList l =>
      r <- (fix go (l : list pyval) : res (list pyval) :=
              match l with
              | [] => Ok []
              | x :: r => y <- load_json x ;; ys <- go r ;; Ok (y :: ys)
              end) l ;;
      Ok (VList r)
  | VDict d =>
      r <- (fix go (d : list (pystr * pyval)) : res (list (pystr * pyval)) :=
              match d with
              | [] => Ok []
              | (k, x) :: r => y <- load_json x ;; ys <- go r ;; Ok ((k, y) :: ys)
              end) d ;;
      Ok (VDict r)
  | _ => Ok v
  end.

Definition is_msg (v : pyval) : option (pystr * list (pystr * pyval)) :=
  match v with
  | VObj [(a, VStr n); (b, VDict d)] => if str_eqb a s_msg && str_eqb b s_dict then Some (n, d) else None
  | _ => None
  end.
Definition mk_msg (n : pystr) (d : list (pystr * pyval)) : pyval := VObj [(s_msg, VStr n); (s_dict, VDict d)].

Fixpoint map_res {A B} (f : A -> res B) (l : list A) : res (list B) :=
  match l with [] => Ok [] | x :: r => y <- f x ;; ys <- map_res f r ;; Ok (y :: ys) end.

(* ImpExp.dump_attr(cls, item) for the type markers whose values live in pyval *)
Definition dump_attr (ty : ptype) (v : pyval) : res pyval :=
  match ty with
  | PNone | PInt | PStr | PBool => Ok v                       (* val = item *)
  | PDict => match v with
             | VDict _ => dump_json v
             | VObj _ => match is_msg v with Some (n, d) => Ok (VDict [(n, VDict d)]) | None => Unmodelled end
             | _ => Err AttributeError                          (* falls through to item.dump() *)
             end
  | PList => match v with                                        (* [] is a list: non-lists reach `cls[0]` *)
             | VList _ => dump_json v
             | VObj _ => match is_msg v with Some (n, d) => Ok (VDict [(n, VDict d)]) | None => Unmodelled end
             | VStr [] | VDict [] => Ok (VList [])
             | VStr _ | VDict _ => Err IndexError
             | _ => Err TypeError
             end
  | PDictType => match v with
                 | VDict _ => Ok v
                 | VObj _ => match is_msg v with Some _ => Err ValueError | None => Unmodelled end
                 | _ => Err ValueError
                 end
  | PMsg _ => match is_msg v with Some (n, d) => Ok (VDict [(n, VDict d)]) | None => Unmodelled end
  | PListOf PStr | PListOf PNone | PListOf PInt | PListOf PBool =>
      match v with VList _ => Ok v | _ => Unmodelled end
  | _ => Unmodelled
  end.

(* ImpExp.load_attr(cls, item) *)
Definition load_attr (ty : ptype) (v : pyval) : res pyval :=
  match ty with
  | PNone | PInt | PBool => Ok v
  | PStr => match v with VStr s => Ok (load_str s) | VObj _ => Unmodelled | _ => Err AttributeError end
  | PDict => match v with VDict _ => load_json v | VObj _ => Unmodelled | _ => Err AttributeError end
  | PList => match v with                    (* a list comprehension over item: str -> characters, dict -> keys *)
             | VList _ => load_json v
             | VStr s => Ok (VList (map (fun c => VStr [c]) s))
             | VDict d => Ok (VList (map (fun p => load_str (fst p)) d))
             | VInt _ | VBool _ | VNone => Err TypeError
             | VObj _ => Unmodelled
             end
  | PDictType => match v with
                 | VDict [(k, _)] => if str_eqb k s_DICT_TYPE then Unmodelled else Ok v
                 | VDict _ => Ok v
                 | VObj _ => Unmodelled
                 | _ => Err AttributeError
                 end
  | PMsg _ => match v with
              | VDict ((n, VDict d) :: _) => Ok (mk_msg n d)
              | _ => Unmodelled
              end
  | _ => Unmodelled
  end.

(* ---- object level: ImpExp.dump / ImpExp.load driven by a `parameter` table ---- *)
Notation fields := (list (pystr * pyval)).

Definition getattr (a : pystr) (o : fields) : option pyval :=
  match assoc a o with Some VNone | None => None | Some v => Some v end.

(* the first loop of dump(): attributes in `special` are skipped, None-valued ones are not exported *)
Fixpoint dump_fields (t : list (pystr * ptype)) (special : list pystr) (o : fields) : res fields :=
  match t with
  | [] => Ok []
  | (a, ty) :: r =>
      if str_in a special then dump_fields r special o
      else match getattr a o with
           | None => dump_fields r special o
           | Some v => x <- dump_attr ty v ;; xs <- dump_fields r special o ;; Ok ((a, x) :: xs)
           end
  end.

(* the first loop of load(): o0 is the freshly constructed instance (constructor defaults) *)
Fixpoint load_fields (t : list (pystr * ptype)) (special : list pystr) (o0 : fields) (d : fields) : res fields :=
  match t with
  | [] => Ok o0
  | (a, ty) :: r =>
      if str_in a special then load_fields r special o0 d
      else match assoc a d with
           | None => load_fields r special o0 d
           | Some x => v <- load_attr ty x ;; load_fields r special (aset a v o0) d
           end
  end.

(* ---- guards ---- *)
(* a JSON value that dump/load carry unchanged *)
Fixpoint json_ok (v : pyval) : bool :=
  match v with
  | VStr s => negb (starts_with s_bytes s)
  | VList l => (fix go (l : list pyval) : bool := match l with [] => true | x :: r => json_ok x && go r end) l
  | VDict d =>
      (fix go (d : list (pystr * pyval)) : bool :=
         match d with
         | [] => true
         | (k, x) :: r =>
             negb (str_eqb k s_upstream_get)
             && (if str_eqb k s_class then match x with VStr _ => true | _ => false end else true)
             && json_ok x && go r
         end) d
  | VObj _ => false
  | _ => true
  end.

(* a value of the right shape for its type marker, which the codec carries unchanged *)
Definition attr_ok (ty : ptype) (v : pyval) : bool :=
  match ty with
  | PNone | PInt | PBool => true
  | PStr => match v with VStr s => negb (starts_with s_bytes s) | _ => false end
  | PDict => match v with VDict _ => json_ok v | _ => false end
  | PList => match v with VList _ => json_ok v | _ => false end
  | PDictType => match v with
                 | VDict [(k, _)] => negb (str_eqb k s_DICT_TYPE)
                 | VDict _ => true
                 | _ => false
                 end
  | PMsg _ => match is_msg v with Some _ => true | None => false end
  | _ => false
  end.

Definition flat_ty (ty : ptype) : bool :=
  match ty with PNone | PInt | PStr | PBool | PDict | PList | PDictType | PMsg _ => true | _ => false end.

(* every exported attribute of o has a well-shaped value, and attributes that are not exported
   (None / absent) are None / absent on a freshly constructed instance too *)
Fixpoint obj_ok (t : list (pystr * ptype)) (special : list pystr) (o o0 : fields) : bool :=
  match t with
  | [] => true
  | (a, ty) :: r =>
      (if str_in a special then true
       else match getattr a o with
            | Some v => attr_ok ty v
            | None => match getattr a o0 with None => true | Some _ => false end
            end) && obj_ok r special o o0
  end.

Fixpoint nodup_keys {V} (t : list (pystr * V)) : bool :=
  match t with [] => true | (a, _) :: r => negb (has_key a r) && nodup_keys r end.

(* ---- C13_fields_covered: the state the session / token / RP logic reads ---- *)
Inductive kind := KInt | KStr | KBool | KJson | KMsgK | KSpecial | KObj | KAny.
Definition kind_ok (k : kind) (ty : ptype) : bool :=
  match k, ty with
  | KInt, (PInt | PNone) | KBool, (PBool | PInt | PNone) => true
  | KStr, (PStr | PNone) => true
  | KJson, (PDict | PList | PNone | PDictType) => true
  | KMsgK, PMsg _ => true
  | KObj, PCls _ => true
  | KAny, _ => true
  | _, _ => false
  end.

(* is the attribute carried by dump() AND load() of the class? *)
Definition covered (tabs : list (pystr * impexp_class)) (cls attr : pystr) (k : kind) : bool :=
  match assoc cls tabs with
  | None => false
  | Some c =>
      let inpar := match assoc attr (ic_parameter c) with Some ty => Some ty | None => None end in
      match assoc attr (ic_special c), k with
      | Some (d, l), KSpecial => (d || match inpar with Some _ => true | None => false end)
                                 && (l || match inpar with Some _ => true | None => false end)
      | Some _, _ => false
      | None, KSpecial => false
      | None, _ => match inpar with Some ty => kind_ok k ty | None => false end
      end
  end.

(* ---- correspondence cases ---- *)
Definition res_pyval_eqb := res_eqb pyval_eqb.
(* (type marker, value, dump_attr's answer) *)
Definition skip_unmodelled (m r : res pyval) : bool :=
  match m with Unmodelled => true | _ => res_pyval_eqb m r end.
Definition chk_dump_attr (c : ptype * pyval * res pyval) : bool :=
  let '(ty, v, r) := c in skip_unmodelled (dump_attr ty v) r.
Definition chk_load_attr (c : ptype * pyval * res pyval) : bool :=
  let '(ty, v, r) := c in skip_unmodelled (load_attr ty v) r.
Definition is_unmodelled_dump (c : ptype * pyval * res pyval) : bool :=
  let '(ty, v, _) := c in match dump_attr ty v with Unmodelled => true | _ => false end.
Definition is_unmodelled_load (c : ptype * pyval * res pyval) : bool :=
  let '(ty, v, _) := c in match load_attr ty v with Unmodelled => true | _ => false end.
Definition res_fields_eqb (a b : res fields) : bool :=
  res_eqb (fun x y => pyval_eqb (VDict x) (VDict y)) a b.
(* (class, attributes of the instance, its .dump()) against the regenerated table of the class *)
Definition chk_dump_obj (tabs : list (pystr * impexp_class)) (c : pystr * fields * res fields) : bool :=
  let '(cls, o, r) := c in
  match dump_fields (class_table tabs cls) (map fst (class_special tabs cls)) o with
  | Unmodelled => true
  | m => res_fields_eqb m r
  end.
(* (class, attributes of a fresh instance, dump, attributes after .load(dump)); attributes compare as a set *)
Definition fields_subset (a b : fields) : bool :=
  forallb (fun p => match assoc (fst p) b with Some v => pyval_eqb (snd p) v | None => false end) a.
Definition chk_load_obj (tabs : list (pystr * impexp_class)) (c : pystr * fields * fields * res fields) : bool :=
  let '(cls, o0, d, r) := c in
  match load_fields (class_table tabs cls) (map fst (class_special tabs cls)) o0 d, r with
  | Ok x, Ok y => fields_subset x y && fields_subset y x
  | Err e, Err f => exc_eqb e f
  | Unmodelled, _ => true
  | _, _ => false
  end.
Definition diag_dump_attr (c : ptype * pyval * res pyval) := let '(ty, v, _) := c in dump_attr ty v.
Definition diag_load_attr (c : ptype * pyval * res pyval) := let '(ty, v, _) := c in load_attr ty v.

(* ---- nested session objects: Grant.special_load_dump (issued_token, token_map), DLDict, Database ----
   An instance carries its class in the attribute "__class__" (the harness adds it); `fresh c` is what the
   constructor of class c produces before load() fills it. *)
Definition s_cls : pystr := [95;95;99;108;97;115;115;95;95]%N.                       (* "__class__" *)
Definition s_issued_token : pystr := [105;115;115;117;101;100;95;116;111;107;101;110]%N.   (* "issued_token" *)
Definition s_token_map : pystr := [116;111;107;101;110;95;109;97;112]%N.               (* "token_map" *)
Definition s_db : pystr := [100;98]%N.                                                 (* "db" *)
Definition s_crypt_config : pystr := [99;114;121;112;116;95;99;111;110;102;105;103]%N. (* "crypt_config" *)

Definition obj_class (o : fields) : option pystr :=
  match assoc s_cls o with Some (VStr c) => Some c | _ => None end.
Definition specials_of (tabs : list (pystr * impexp_class)) (c : pystr) : list pystr := map fst (class_special tabs c).

(* issued_token_dump: [{qualified_name(item): item.dump()}] *)
Definition tok_dump (tabs : list (pystr * impexp_class)) (t : pyval) : res pyval :=
  match t with
  | VObj f => match obj_class f with
              | Some c => d <- dump_fields (class_table tabs c) (specials_of tabs c) f ;; Ok (VDict [(c, VDict d)])
              | None => Unmodelled
              end
  | _ => Unmodelled
  end.
(* issued_token_load: importer(class_name)().load(item[class_name]) *)
Definition tok_load (tabs : list (pystr * impexp_class)) (fresh : pystr -> fields) (x : pyval) : res pyval :=
  match x with
  | VDict ((c, VDict d) :: _) => o <- load_fields (class_table tabs c) (specials_of tabs c) (fresh c) d ;; Ok (VObj o)
  | _ => Unmodelled
  end.

(* Grant.dump(): the parameter loop, then the special attributes when truthy *)
Definition grant_dump (tabs : list (pystr * impexp_class)) (g : fields) : res fields :=
  match obj_class g with
  | None => Unmodelled
  | Some c =>
      base <- dump_fields (class_table tabs c) (specials_of tabs c) g ;;
      it <- match getattr s_issued_token g with
            | Some (VList (x :: l)) => toks <- map_res (tok_dump tabs) (x :: l) ;; Ok [(s_issued_token, VList toks)]
            | Some (VList []) | None => Ok []
            | Some _ => Unmodelled
            end ;;
      tm <- match getattr s_token_map g with
            | Some (VDict (x :: d)) => Ok [(s_token_map, VDict (x :: d))]     (* class objects are named by the harness *)
            | Some (VDict []) | None => Ok []
            | Some _ => Unmodelled
            end ;;
      Ok (base ++ it ++ tm)
  end.
Definition grant_load (tabs : list (pystr * impexp_class)) (fresh : pystr -> fields) (c : pystr) (d : fields) : res fields :=
  base <- load_fields (class_table tabs c) (specials_of tabs c) (fresh c) d ;;
  o1 <- match assoc s_issued_token d with
        | Some (VList l) => toks <- map_res (tok_load tabs fresh) l ;; Ok (aset s_issued_token (VList toks) base)
        | None => Ok base
        | Some _ => Unmodelled
        end ;;
  match assoc s_token_map d with
  | Some v => Ok (aset s_token_map v o1)
  | None => Ok o1
  end.

(* two instances agree on everything their class exports through the parameter loop *)
Definition agree_on (t : list (pystr * ptype)) (sp : list pystr) (o o' : fields) : Prop :=
  forall a ty, In (a, ty) t -> str_in a sp = false -> getattr a o' = getattr a o.

Definition tok_ok (tabs : list (pystr * impexp_class)) (fresh : pystr -> fields) (t : pyval) : bool :=
  match t with
  | VObj f => match obj_class f with
              | Some c => nodup_keys (class_table tabs c) && obj_ok (class_table tabs c) (specials_of tabs c) f (fresh c)
              | None => false
              end
  | _ => false
  end.
Definition grant_ok (tabs : list (pystr * impexp_class)) (fresh : pystr -> fields) (g : fields) : bool :=
  match obj_class g with
  | None => false
  | Some c =>
      nodup_keys (class_table tabs c) && obj_ok (class_table tabs c) (specials_of tabs c) g (fresh c)
      && match getattr s_issued_token g with
         | Some (VList l) => forallb (tok_ok tabs fresh) l
         | None => true
         | Some _ => false
         end
      && match getattr s_token_map g with Some (VDict _) | None => true | Some _ => false end
  end.

(* (attributes incl. "__class__", with issued_token a list of token instances; Grant.dump()) *)
Definition chk_grant_dump (tabs : list (pystr * impexp_class)) (c : fields * res fields) : bool :=
  let '(g, r) := c in
  match grant_dump tabs g with Unmodelled => true | m => res_fields_eqb m r end.

(* ---- sharing inside the exported state (the session database as keys -> references) ----
   The live database files OBJECTS under keys; two keys can lead to one object: the mint helpers file a grant a second
   time under its (encrypted) session id, `set(unpack_session_key(session_id), grant)`.  DLDict.dump writes one document
   per KEY and DLDict.load builds one NEW object per key: the format has no way to say "the same object as under ...".
   Contents of an object are abstract here (a pyval: what the object-level theorems above carry across). *)
Definition loc := nat.
Record sdb := { sd_keys : list (pystr * loc); sd_heap : list (loc * pyval); sd_next : loc }.

Fixpoint nassoc {V} (l : loc) (h : list (loc * V)) : option V :=
  match h with [] => None | (l', v) :: r => if Nat.eqb l l' then Some v else nassoc l r end.

Definition sd_loc (s : sdb) (k : pystr) : option loc := assoc k (sd_keys s).
Definition sd_deref (s : sdb) (l : loc) : pyval := match nassoc l (sd_heap s) with Some v => v | None => VNone end.
(* what a reader that goes through key k finds *)
Definition sd_view (s : sdb) (k : pystr) : option pyval := option_map (sd_deref s) (sd_loc s k).
Definition same_object (s : sdb) (k1 k2 : pystr) : bool :=
  match sd_loc s k1, sd_loc s k2 with Some a, Some b => Nat.eqb a b | _, _ => false end.

(* DLDict.dump / DLDict.load *)
Definition sd_dump (s : sdb) : list (pystr * pyval) := map (fun p => (fst p, sd_deref s (snd p))) (sd_keys s).
Fixpoint sd_load_from (n : loc) (d : list (pystr * pyval)) : sdb :=
  match d with
  | [] => {| sd_keys := []; sd_heap := []; sd_next := n |}
  | (k, v) :: r => let s := sd_load_from (S n) r in
                   {| sd_keys := (k, n) :: sd_keys s; sd_heap := (n, v) :: sd_heap s; sd_next := sd_next s |}
  end.
Definition sd_load (d : list (pystr * pyval)) : sdb := sd_load_from O d.

Definition kdel {V} (k : pystr) (d : list (pystr * V)) : list (pystr * V) := filter (fun p => negb (str_eqb k (fst p))) d.

(* operations on the database: a change of the object filed under k, IN PLACE (revoke, register usage, mint: the new
   contents v); a read through k; filing the object of k a second time under k2; a new object under k; removal of k *)
Inductive sop := SUpd (k : pystr) (v : pyval) | SGet (k : pystr) | SFile (k k2 : pystr) | SNew (k : pystr) (v : pyval) | SDel (k : pystr).

Definition sd_step (s : sdb) (o : sop) : sdb * option pyval :=
  match o with
  | SGet k => (s, sd_view s k)
  | SUpd k v => match sd_loc s k with
                | Some l => ({| sd_keys := sd_keys s; sd_heap := (l, v) :: sd_heap s; sd_next := sd_next s |}, None)
                | None => (s, None)
                end
  | SFile k k2 => match sd_loc s k with
                  | Some l => ({| sd_keys := aset k2 l (sd_keys s); sd_heap := sd_heap s; sd_next := sd_next s |}, None)
                  | None => (s, None)
                  end
  | SNew k v => ({| sd_keys := aset k (sd_next s) (sd_keys s); sd_heap := (sd_next s, v) :: sd_heap s; sd_next := S (sd_next s) |}, None)
  | SDel k => ({| sd_keys := kdel k (sd_keys s); sd_heap := sd_heap s; sd_next := sd_next s |}, None)
  end.
Fixpoint sd_run (s : sdb) (ops : list sop) : list (option pyval) :=
  match ops with [] => [] | o :: r => let '(s', x) := sd_step s o in x :: sd_run s' r end.
Fixpoint sd_exec (s : sdb) (ops : list sop) : sdb :=
  match ops with [] => s | o :: r => sd_exec (fst (sd_step s o)) r end.

(* the keys the library's readers and writers use (K: the branch keys user / user;;client / user;;client;;grant that
   `decrypt_branch_id` yields); a second filing goes under a key outside K *)
Definition op_canon (K : pystr -> bool) (o : sop) : bool :=
  match o with
  | SUpd k _ | SGet k | SNew k _ | SDel k => K k
  | SFile k k2 => K k && negb (K k2)
  end.
(* no two keys of K lead to one object, and references stay below the allocation counter *)
Definition sd_canon (K : pystr -> bool) (s : sdb) : Prop :=
  (forall k1 k2 l, K k1 = true -> K k2 = true -> sd_loc s k1 = Some l -> sd_loc s k2 = Some l -> k1 = k2)
  /\ (forall k l, sd_loc s k = Some l -> (l < sd_next s)%nat).

(* a look-up by session id: `GrantManager.__getitem__` decrypts the id and walks the tree (tree = true); a reader that
   first tries the entry filed under the id itself (tree = false) is what the format cannot support *)
Definition sd_lookup (tree : bool) (s : sdb) (sidkey treekey : pystr) : option pyval :=
  if tree then sd_view s treekey
  else match sd_view s sidkey with Some v => Some v | None => sd_view s treekey end.

(* ---- correspondence: (database at the export as key -> object number, contents per object number, allocation counter;
        later steps = operations + the views of all listed keys observed afterwards on the original and on the restored
        provider + what session_manager[sid] hands out on each, for (sid key, tree key) pairs) ---- *)
Definition views (s : sdb) (ks : list pystr) : list (option pyval) := map (sd_view s) ks.
Definition opt_pyval_eqb (a b : option pyval) : bool :=
  match a, b with Some x, Some y => pyval_eqb x y | None, None => true | _, _ => false end.
Fixpoint list_eqb {A} (e : A -> A -> bool) (a b : list A) : bool :=
  match a, b with [] , [] => true | x :: a', y :: b' => e x y && list_eqb e a' b' | _, _ => false end.
Definition share_step := (list sop * bool * list pystr * list (option pyval) * list (option pyval)
                          * list (pystr * pystr) * list (option pyval) * list (option pyval))%type.
(* (operations of the step, is the restored twin exported and imported once more BEFORE the step, keys to look at,
    their views on the original / on the twin, (sid key, tree key) pairs, what session_manager[sid] hands out on each) *)
Fixpoint chk_share_steps (a b : sdb) (steps : list share_step) : bool :=
  match steps with
  | [] => true
  | (ops, reload, ks, va, vb, sids, la, lb) :: r =>
      let a' := sd_exec a ops in
      let b' := sd_exec (if reload then sd_load (sd_dump b) else b) ops in
      list_eqb opt_pyval_eqb (views a' ks) va && list_eqb opt_pyval_eqb (views b' ks) vb
      && list_eqb opt_pyval_eqb (map (fun p => sd_lookup true a' (fst p) (snd p)) sids) la
      && list_eqb opt_pyval_eqb (map (fun p => sd_lookup true b' (fst p) (snd p)) sids) lb
      && chk_share_steps a' b' r
  end.
Definition chk_share (c : sdb * list share_step) : bool :=
  let '(s, steps) := c in chk_share_steps s (sd_load (sd_dump s)) steps.
(* diagnosis: the model's views / look-ups after every step, original and twin *)
Fixpoint diag_share_steps (a b : sdb) (steps : list share_step) :=
  match steps with
  | [] => []
  | (ops, reload, ks, _, _, sids, _, _) :: r =>
      let a' := sd_exec a ops in
      let b' := sd_exec (if reload then sd_load (sd_dump b) else b) ops in
      (views a' ks, views b' ks, map (fun p => sd_lookup true b' (fst p) (snd p)) sids) :: diag_share_steps a' b' r
  end.
Definition diag_share (c : sdb * list share_step) :=
  let '(s, steps) := c in diag_share_steps s (sd_load (sd_dump s)) steps.

(* ---- operations after a restore: what "answers every later request as the original" means for ONE instance ----
   An operation is any function of the instance's attributes (answer + new attributes).  It `op_exported` when answer and
   new exported attributes are functions of the exported attributes alone (agree_on: same value under every attribute of
   the `parameter` table that the parameter loop carries).  Proofs/ImpExp_proofs.v: after dump -> load into a fresh
   instance EVERY sequence of such operations is answered as by the original (restore_equiv_history); an operation that
   reads an attribute outside the table is not covered, and the statement is false for it (restore_nonexported_refuted).
   The premise "reads only exported attributes" is tied to the code by the attribute census of the driver: for the
   state-store classes every attribute a live instance carries is in its regenerated table (chk_census below). *)
Definition op_exported {R : Type} (t : list (pystr * ptype)) (sp : list pystr) (step : fields -> fields * R) : Prop :=
  forall o o', agree_on t sp o o' ->
    snd (step o') = snd (step o) /\ agree_on t sp (fst (step o)) (fst (step o')).
Fixpoint run_steps {R : Type} (steps : list (fields -> fields * R)) (o : fields) : list R :=
  match steps with [] => [] | f :: r => let '(o', x) := f o in x :: run_steps r o' end.

(* ---- the relying party's state store: idpyoidc.client.current.Current ----
   _db : state -> record (a dict), _map : bound key (nonce, subject, session id, logout state) -> state. *)
Definition s__db : pystr := [95;100;98]%N.                                            (* "_db" *)
Definition s__map : pystr := [95;109;97;112]%N.                                       (* "_map" *)
Definition s_nonce : pystr := [110;111;110;99;101]%N.                                 (* "nonce" *)
Record cur := { c_db : list (pystr * pyval); c_map : list (pystr * pystr) }.
Definition cur_empty : cur := {| c_db := []; c_map := [] |}.

Inductive cop :=
| CSet (k : pystr) (v : list (pystr * pyval))        (* set(key, info) *)
| CUpd (k : pystr) (v : list (pystr * pyval))        (* update(key, info) *)
| CBind (fro to : pystr)                             (* bind_key *)
| CRemove (k : pystr)                                (* remove_state *)
| CBase (k : pystr)                                  (* get_base_key *)
| CGet (k : pystr)                                   (* get *)
| CKeys                                              (* keys() *)
| CSnap                                              (* the whole store, as exported *)
| CRestore.                                          (* dump -> load into a fresh instance; the original is discarded *)
Inductive cout := CUnit | CDictR (d : list (pystr * pyval)) | CStrR (s : pystr) | CKeysR (l : list pystr)
                | CStateR (db : list (pystr * pyval)) (m : list (pystr * pystr)) | CErrR (e : exc) | CUnmodelled.

Definition rec_nonce (db : list (pystr * pyval)) (st : pystr) : option pyval :=
  match assoc st db with Some (VDict r) => assoc s_nonce r | _ => None end.
Definition merge (cur0 info : list (pystr * pyval)) : list (pystr * pyval) :=
  fold_left (fun acc p => aset (fst p) (snd p) acc) info cur0.
Definition cur_fields (c : cur) : fields :=
  [(s__db, VDict (c_db c)); (s__map, VDict (map (fun p => (fst p, VStr (snd p))) (c_map c)))].
Definition cur_fresh : fields := [(s__db, VDict []); (s__map, VDict [])].
Fixpoint strs_of (d : list (pystr * pyval)) : option (list (pystr * pystr)) :=
  match d with
  | [] => Some []
  | (k, VStr s) :: r => match strs_of r with Some l => Some ((k, s) :: l) | None => None end
  | _ => None
  end.
Definition cur_of_fields (o : fields) : option cur :=
  match assoc s__db o, assoc s__map o with
  | Some (VDict d), Some (VDict m) => option_map (Build_cur d) (strs_of m)
  | _, _ => None
  end.
(* ImpExp.dump of the store, ImpExp.load into Current() - through the `parameter` table t of the class *)
Definition cur_restore (t : list (pystr * ptype)) (c : cur) : res cur :=
  D <- dump_fields t [] (cur_fields c) ;;
  o <- load_fields t [] cur_fresh D ;;
  match cur_of_fields o with Some c' => Ok c' | None => Unmodelled end.

Definition cur_step (t : list (pystr * ptype)) (c : cur) (o : cop) : cur * cout :=
  match o with
  | CSet k v => ({| c_db := aset k (VDict v) (c_db c); c_map := c_map c |}, CUnit)
  | CUpd k info =>
      match assoc k (c_db c) with
      | None => ({| c_db := aset k (VDict info) (c_db c); c_map := c_map c |}, CDictR info)
      | Some (VDict r) =>
          let info' := match assoc s_nonce r with
                       | Some n => match assoc s_nonce info with
                                   | Some n' => if pyval_eqb n' n then info else adel s_nonce info
                                   | None => info
                                   end
                       | None => info
                       end in
          let r' := merge r info' in
          ({| c_db := aset k (VDict r') (c_db c); c_map := c_map c |}, CDictR r')
      | Some _ => (c, CUnmodelled)
      end
  | CBind fro to =>
      let clash := match assoc fro (c_map c) with
                   | Some old => negb (str_eqb old to)
                                 && match rec_nonce (c_db c) old with Some (VStr n) => str_eqb n fro | _ => false end
                   | None => false
                   end in
      if clash then (c, CErrR ValueError)
      else ({| c_db := c_db c; c_map := aset fro to (c_map c) |}, CUnit)
  | CRemove k =>
      if has_key k (c_db c)
      then ({| c_db := adel k (c_db c); c_map := filter (fun p => negb (str_eqb (snd p) k)) (c_map c) |}, CUnit)
      else (c, CUnit)
  | CBase k => (c, match assoc k (c_map c) with Some s => CStrR s | None => CErrR KeyError end)
  | CGet k => (c, match assoc k (c_db c) with Some (VDict (x :: r)) => CDictR (x :: r) | _ => CErrR KeyError end)
  | CKeys => (c, CKeysR (map fst (c_db c)))
  | CSnap => (c, CStateR (c_db c) (c_map c))
  | CRestore => match cur_restore t c with Ok c' => (c', CUnit) | Err e => (c, CErrR e) | Unmodelled => (c, CUnmodelled) end
  end.
Fixpoint cur_run (t : list (pystr * ptype)) (c : cur) (ops : list cop) : list cout :=
  match ops with [] => [] | o :: r => let '(c', x) := cur_step t c o in x :: cur_run t c' r end.
Fixpoint cur_exec (t : list (pystr * ptype)) (c : cur) (ops : list cop) : cur :=
  match ops with [] => c | o :: r => cur_exec t (fst (cur_step t c o)) r end.

(* the same store with an auxiliary index (state -> the keys bound to it) that remove_state walks instead of the whole
   map and that is NOT in the `parameter` table: a restored instance starts with the fresh (empty) index *)
Record curi := { i_cur : cur; i_bound : list (pystr * list pystr) }.
Definition curi_empty : curi := {| i_cur := cur_empty; i_bound := [] |}.
Definition bound_of (b : list (pystr * list pystr)) (st : pystr) : list pystr :=
  match assoc st b with Some l => l | None => [] end.
Definition curi_step (t : list (pystr * ptype)) (ci : curi) (o : cop) : curi * cout :=
  match o with
  | CBind fro to =>
      let '(c', x) := cur_step t (i_cur ci) o in
      match x with
      | CUnit => ({| i_cur := c'; i_bound := aset to (bound_of (i_bound ci) to ++ [fro]) (i_bound ci) |}, x)
      | _ => (ci, x)
      end
  | CRemove k =>
      let c := i_cur ci in
      if has_key k (c_db c)
      then ({| i_cur := {| c_db := adel k (c_db c);
                           c_map := filter (fun p => negb (str_in (fst p) (bound_of (i_bound ci) k) && str_eqb (snd p) k)) (c_map c) |};
               i_bound := adel k (i_bound ci) |}, CUnit)
      else (ci, CUnit)
  | CRestore => match cur_restore t (i_cur ci) with
                | Ok c' => ({| i_cur := c'; i_bound := [] |}, CUnit)
                | Err e => (ci, CErrR e) | Unmodelled => (ci, CUnmodelled)
                end
  | _ => let '(c', x) := cur_step t (i_cur ci) o in ({| i_cur := c'; i_bound := i_bound ci |}, x)
  end.
Fixpoint curi_run (t : list (pystr * ptype)) (ci : curi) (ops : list cop) : list cout :=
  match ops with [] => [] | o :: r => let '(c', x) := curi_step t ci o in x :: curi_run t c' r end.

(* ---- correspondence: a history of calls on a real Current (incl. export -> import into Current()) with what each
        call answered ---- *)
Definition cout_eqb (a b : cout) : bool :=
  match a, b with
  | CUnit, CUnit => true
  | CDictR x, CDictR y => pyval_eqb (VDict x) (VDict y)
  | CStrR x, CStrR y => str_eqb x y
  | CKeysR x, CKeysR y => list_eqb str_eqb x y
  | CStateR d m, CStateR d' m' => pyval_eqb (VDict d) (VDict d') && list_eqb (fun p q => str_eqb (fst p) (fst q) && str_eqb (snd p) (snd q)) m m'
  | CErrR e, CErrR f => exc_eqb e f
  | _, _ => false
  end.
Fixpoint chk_cur_from (t : list (pystr * ptype)) (c : cur) (tr : list (cop * cout)) : bool :=
  match tr with
  | [] => true
  | (o, x) :: r => let '(c', y) := cur_step t c o in
                   match y with CUnmodelled => true | _ => cout_eqb y x && chk_cur_from t c' r end
  end.
Definition chk_cur (tabs : list (pystr * impexp_class)) (cls : pystr) (tr : list (cop * cout)) : bool :=
  chk_cur_from (class_table tabs cls) cur_empty tr.
Definition diag_cur (tabs : list (pystr * impexp_class)) (cls : pystr) (tr : list (cop * cout)) : list cout :=
  cur_run (class_table tabs cls) cur_empty (map fst tr).

(* ---- attribute census: (class, the attribute names a live instance of it carries) against the regenerated tables.
   For a class whose instances are pure state (closed = true: tokens, grants, tree nodes, the RP's store) every
   attribute must be carried by the parameter loop or a special load/dump function, be a constructor argument
   (init_args) or be listed as a transient. *)
Definition class_init_args (tabs : list (pystr * impexp_class)) (c : pystr) : list pystr :=
  match assoc c tabs with Some k => ic_init_args k | None => [] end.
Definition pair_in (c a : pystr) (l : list (pystr * pystr)) : bool :=
  existsb (fun p => str_eqb c (fst p) && str_eqb a (snd p)) l.
Definition census_attr_ok (tabs : list (pystr * impexp_class)) (transient : list (pystr * pystr)) (c a : pystr) : bool :=
  has_key a (class_table tabs c) || has_key a (class_special tabs c) || str_in a (class_init_args tabs c) || pair_in c a transient.
Definition chk_census (tabs : list (pystr * impexp_class)) (closed : list pystr) (transient : list (pystr * pystr))
    (c : pystr * list pystr) : bool :=
  let '(cls, attrs) := c in
  if str_in cls closed then has_key cls tabs && forallb (census_attr_ok tabs transient cls) attrs else has_key cls tabs.
Definition diag_census (tabs : list (pystr * impexp_class)) (closed : list pystr) (transient : list (pystr * pystr))
    (c : pystr * list pystr) : list pystr :=
  let '(cls, attrs) := c in filter (fun a => negb (census_attr_ok tabs transient cls a)) attrs.
