(* Model/ImpExpReq.v — C13_fields_covered: which state the session / token / client-authentication /
   registration / RP logic READS (hand-written from the code that reads it), to be found in the
   regenerated `parameter` / `special_load_dump` tables of the class that owns it.  No proofs. *)
From Coq Require Import String.
From Verif Require Import Lib.Base Lib.ImpExpTy Model.ImpExp.
Open Scope string_scope.

Definition c_Item := PS "idpyoidc.server.session.token.Item".
Definition c_SessionToken := PS "idpyoidc.server.session.token.SessionToken".
Definition c_AccessToken := PS "idpyoidc.server.session.token.AccessToken".
Definition c_AuthorizationCode := PS "idpyoidc.server.session.token.AuthorizationCode".
Definition c_RefreshToken := PS "idpyoidc.server.session.token.RefreshToken".
Definition c_IDToken := PS "idpyoidc.server.session.token.IDToken".
Definition c_Grant := PS "idpyoidc.server.session.grant.Grant".
Definition c_ExchangeGrant := PS "idpyoidc.server.session.grant.ExchangeGrant".
Definition c_NodeInfo := PS "idpyoidc.server.session.info.NodeInfo".
Definition c_UserSessionInfo := PS "idpyoidc.server.session.info.UserSessionInfo".
Definition c_ClientSessionInfo := PS "idpyoidc.server.session.info.ClientSessionInfo".
Definition c_Database := PS "idpyoidc.server.session.database.Database".
Definition c_GrantManager := PS "idpyoidc.server.session.grant_manager.GrantManager".
Definition c_SessionManager := PS "idpyoidc.server.session.manager.SessionManager".
Definition c_EndpointContext := PS "idpyoidc.server.endpoint_context.EndpointContext".
Definition c_Server := PS "idpyoidc.server.Server".
Definition c_Current := PS "idpyoidc.client.current.Current".
Definition c_ServiceContext := PS "idpyoidc.client.service_context.ServiceContext".
Definition c_Entity := PS "idpyoidc.client.entity.Entity".
Definition c_DLDict := PS "idpyoidc.item.DLDict".

(* Item.is_active / max_usage_reached / register_usage, Grant.mint_token *)
Definition item_fields : list (pystr * kind) :=
  [(PS "expires_at", KInt); (PS "issued_at", KInt); (PS "not_before", KInt); (PS "revoked", KBool);
   (PS "usage_rules", KJson); (PS "used", KInt)].
(* Grant.get_token / revoke_token / find_scope, token helpers, introspection, userinfo *)
Definition token_fields : list (pystr * kind) :=
  item_fields ++ [(PS "based_on", KStr); (PS "claims", KJson); (PS "id", KStr); (PS "name", KStr);
                  (PS "resources", KJson); (PS "scope", KJson); (PS "token_class", KStr); (PS "value", KStr)].
Definition grant_fields : list (pystr * kind) :=
  item_fields ++ [(PS "authentication_event", KMsgK); (PS "authorization_details", KJson);
                  (PS "authorization_request", KMsgK); (PS "claims", KJson); (PS "extra", KJson);
                  (PS "issued_token", KSpecial); (PS "resources", KJson); (PS "scope", KJson);
                  (PS "sub", KStr); (PS "token_map", KSpecial)].
Definition node_fields : list (pystr * kind) :=
  [(PS "subordinate", KJson); (PS "revoked", KBool); (PS "type", KStr); (PS "extra_args", KJson); (PS "id", KStr)].
Definition db_fields : list (pystr * kind) := [(PS "db", KObj); (PS "crypt_config", KJson)].

Definition with_class (c : pystr) (l : list (pystr * kind)) : list (pystr * pystr * kind) :=
  map (fun p => (c, fst p, snd p)) l.

Definition required_fields : list (pystr * pystr * kind) :=
  with_class c_Item item_fields
  ++ with_class c_SessionToken token_fields
  ++ with_class c_AuthorizationCode token_fields
  ++ with_class c_RefreshToken token_fields
  ++ with_class c_AccessToken (token_fields ++ [(PS "token_type", KStr)])
  ++ with_class c_IDToken (token_fields ++ [(PS "session_id", KStr)])
  ++ with_class c_Grant grant_fields
  ++ with_class c_ExchangeGrant (grant_fields ++ [(PS "exchange_request", KMsgK)])
  ++ with_class c_NodeInfo node_fields
  ++ with_class c_UserSessionInfo node_fields
  ++ with_class c_ClientSessionInfo node_fields
  ++ with_class c_Database db_fields
  ++ with_class c_GrantManager db_fields
  ++ with_class c_SessionManager db_fields
  ++ with_class c_DLDict [(PS "db", KJson)]
  (* client database, replay cache of client assertions, pushed requests, registration tokens, keys *)
  ++ with_class c_EndpointContext
       [(PS "cdb", KJson); (PS "jti_db", KJson); (PS "par_db", KJson); (PS "registration_access_token", KJson);
        (PS "session_manager", KObj); (PS "keyjar", KObj); (PS "issuer", KStr); (PS "provider_info", KJson)]
  ++ with_class c_Server [(PS "context", KObj)]
  (* the relying party: state / nonce bindings, issuer, registration, provider metadata, keys *)
  ++ with_class c_Current [(PS "_db", KJson); (PS "_map", KJson)]
  ++ with_class c_ServiceContext
       [(PS "cstate", KObj); (PS "keyjar", KObj); (PS "issuer", KStr); (PS "provider_info", KJson);
        (PS "registration_response", KJson); (PS "base_url", KStr); (PS "claims", KObj); (PS "hash_seed", KAny);
        (PS "iss_hash", KStr); (PS "config", KJson)]
  ++ with_class c_Entity [(PS "keyjar", KObj); (PS "entity_id", KStr)].

Definition fields_covered (tabs : list (pystr * impexp_class)) : bool :=
  forallb (fun r => let '(c, a, k) := r in covered tabs c a k) required_fields.

(* classes whose instances the object-level round trip theorem applies to: every attribute that is not
   handled by a special load/dump function has a marker the value codec covers, and no attribute is
   listed twice *)
Definition session_classes : list pystr :=
  [c_Item; c_SessionToken; c_AccessToken; c_AuthorizationCode; c_RefreshToken; c_IDToken; c_Grant; c_ExchangeGrant;
   c_NodeInfo; c_UserSessionInfo; c_ClientSessionInfo; c_Current].
Definition class_flat (tabs : list (pystr * impexp_class)) (c : pystr) : bool :=
  has_key c tabs
  && nodup_keys (class_table tabs c)
  && forallb (fun p => str_in (fst p) (map fst (class_special tabs c)) || flat_ty (snd p)) (class_table tabs c).

(* ---- attribute census (Model.ImpExp.chk_census): classes whose instances are pure state - every attribute a live
   instance carries must be exported - and the attributes that are knowingly not (each justified in the driver's
   ASSUMPTIONS): Grant.id is read only by the call that creates the grant (it becomes the last part of the branch key the
   grant is filed under, which IS exported); remember_token / remove_inactive_token are per-grant copies of the session
   manager's configuration, never changed after creation. *)
Definition census_closed : list pystr := session_classes ++ [c_DLDict].
Definition census_transient : list (pystr * pystr) :=
  [(c_Grant, PS "id"); (c_Grant, PS "remember_token"); (c_Grant, PS "remove_inactive_token");
   (c_ExchangeGrant, PS "id"); (c_ExchangeGrant, PS "remember_token"); (c_ExchangeGrant, PS "remove_inactive_token")].

(* what the SessionManager constructor takes from conf["session_params"] (session/manager.py __init__, endpoint_context.py
   set_remember_token): the subject minters, the clean-up switches, the node classes.  None of them is in the class's
   `parameter` table; EndpointContext.load builds the session manager anew (recorded finding
   restore-drops-session-manager-config; Props C13_restore_session_manager_config_refuted). *)
Definition session_manager_config_attrs : list pystr :=
  [PS "sub_func"; PS "remove_inactive_token"; PS "remember_token"; PS "node_type"; PS "node_info_class"].
