(* Model/Interop.v — C12: this library's relying party against this library's provider over the finite
   configuration space.  No proofs here.

   The per-dimension value tables are Gen/Supports.v, REGENERATED on every run from both halves of the
   library (client `_supports`, client_auth.CLIENT_AUTHN_METHOD, defaults.CC_METHOD / DEFAULT_RESPONSE_MODE,
   util.IMPLICIT_RESPONSE_TYPES; server endpoint `_supports`, client_authn.CLIENT_AUTHN_METHOD, the PKCE
   add-on's CC_METHOD, DEF_SIGN_ALG; cryptojwt's key family of every algorithm; behavioural probes of
   create_authn_response and StandAloneClient.get_access_and_id_token).

   `flow_outcome cfg inp` is a staged transcription of what decides whether one flow completes:

     RP   supported_to_preferred / preferred_to_registered (negotiation against the provider info),
          StandAloneClient._get_response_type / _get_response_mode, pick_redirect_uri, the callback URIs of
          Authorization._do_flow, the PKCE add-on, the PAR add-on's client authentication
     OP   Endpoint.parse_request (message verify() of the FRONT-CHANNEL request happens before a request_uri /
          pushed request is resolved), verify_response_type, the PKCE add-on, create_authn_response
          (ID Token signing key selection: JWT.pack looks among the provider's OWN keys), response_mode(),
          the token endpoint's client authentication, UserInfo.do_response (signing / encryption keys)

   Inputs that are not configuration dimensions of the property but decide outcomes on the current tree are
   explicit (`inp`): offline_access requested, length of the client secret, whether the relying party is
   configured with all response types or only the one it uses, whether the provider configuration states
   response_types_supported explicitly. *)
From Coq Require Import String.
From Verif Require Import Lib.Base Lib.PyStr Lib.InteropTy Gen.Supports.
Open Scope string_scope.

Inductive transport := TPlain | TRequest | TRequestUri | TPar.

(* ------------------------------------------------------------------ repairs of recorded findings
   One flag per recorded C12 finding that has a repair.  `false` = the library behaves as recorded in
   known_findings.txt; `true` = the library carries the repair.  The model, the limits, the witnesses of
   Props/C12.v and the driver's generator all follow the flags, so switching one line switches everything;
   the correspondence run decides whether the flag matches the tree under test. *)

(* hs-sign:id_token / hs-sign:userinfo - HS256/384/512 ID Tokens and userinfo responses are signed with the
   client's secret, looked up under the client id (IDToken.sign_encrypt, UserInfo.do_response).
   Repair: hs-sign-client-secret.diff *)
Definition repaired_hs_sign : bool := true.

(* idt-enc-not-applied - the provider encrypts the ID Token for a client that registered
   id_token_encrypted_response_alg (IDToken.sign_encrypt) and the relying party's verify_id_token looks
   inside an encrypted ID Token.
   Repair: idt-enc-applied.diff *)
Definition repaired_idt_enc : bool := true.

(* par-claims-not-parsed - the pushed authorization endpoint parses and stores the request with the
   authorization endpoint's request class, so a claims request stays a mapping.
   Repair: par-request-class.diff *)
Definition repaired_par_request_class : bool := true.

(* par-jwt-audience - the pushed authorization endpoint accepts a client assertion addressed to the issuer
   (allowed_targets gets the issuer, as RFC 9126 asks).
   Repair: par-issuer-audience.diff *)
Definition repaired_par_issuer_audience : bool := true.

(* byref-nonce-missing / byref-consent-missing - a request passed by request_uri / PAR is verified after the
   request object has been merged in, not on the front-channel stub.
   Repair: byref-verify-after-assembly.diff *)
Definition repaired_byref : bool := true.

(* idt-exp-unrecorded - a token minted at the authorization endpoint without a usage rule (the ID Token) gets
   the token handler's lifetime as expires_at.
   Repair: idt-exp-recorded.diff *)
Definition repaired_idt_exp : bool := true.

Record cfg := mkCfg {
  c_rt : pystr;                          (* response_type *)
  c_rm : option pystr;                   (* response_mode explicitly requested, or none *)
  c_auth : pystr;                        (* token_endpoint_auth_method the RP is configured with *)
  c_at_jwt : bool;                       (* JWT (true) or opaque access tokens *)
  c_rf_jwt : bool;                       (* JWT (true) or opaque refresh tokens *)
  c_idt_sig : pystr;                     (* id_token_signed_response_alg the RP is configured with *)
  c_idt_enc : option (pystr * pystr);    (* id_token_encrypted_response_alg / _enc *)
  c_ui_sig : option pystr;               (* userinfo_signed_response_alg; None = plain JSON *)
  c_ui_enc : option (pystr * pystr);     (* userinfo_encrypted_response_alg / _enc *)
  c_tr : transport;                      (* plain | request object by value | request_uri | PAR *)
  c_pkce : option pystr                  (* PKCE method, or no PKCE *)
}.

Record inp := mkInp {
  i_offline : bool;        (* the request asks for offline_access (the RP then adds prompt=consent) *)
  i_secret_len : N;        (* length of the client secret in bytes *)
  i_rp_all_rts : bool;     (* RP configured with every response type it supports / only with c_rt *)
  i_op_explicit : bool;    (* provider configuration states response_types_supported itself *)
  i_claims : bool          (* the request carries a `claims` request parameter *)
}.

Inductive place := RpInit | Par | AuthzParse | AuthzProcess | RpFinalize | TokenEp | UserinfoEp.
Inductive outcome := Completed | FailAt (p : place).

Definition place_eqb (a b : place) : bool :=
  match a, b with
  | RpInit, RpInit | Par, Par | AuthzParse, AuthzParse | AuthzProcess, AuthzProcess | RpFinalize, RpFinalize
  | TokenEp, TokenEp | UserinfoEp, UserinfoEp => true
  | _, _ => false
  end.
Definition outcome_eqb (a b : outcome) : bool :=
  match a, b with
  | Completed, Completed => true
  | FailAt p, FailAt q => place_eqb p q
  | _, _ => false
  end.

(* ------------------------------------------------------------------ small helpers *)
Definition words (s : pystr) : list pystr := split_c 32 s.
Definition has_word (w : string) (s : pystr) : bool := str_in (PS w) (words s).
Definition set_eqb (a b : list pystr) : bool :=
  forallb (fun x => str_in x b) a && forallb (fun x => str_in x a) b.
Definition is_some {A} (o : option A) : bool := match o with Some _ => true | None => false end.

(* supported_to_preferred: a preference list is cut down to what the provider advertises, when it
   advertises anything for that claim *)
Definition negotiate (pref adv : list pystr) : list pystr :=
  match adv with [] => pref | _ => filter (fun x => str_in x adv) pref end.
(* preferred_to_registered / array_or_singleton: a singleton claim registers the first surviving value *)
Definition registered1 (pref adv : list pystr) : option pystr := hd_error (negotiate pref adv).

(* ------------------------------------------------------------------ response types and modes *)
(* what the provider info says: the configured list, or - when the configuration is silent - the merge of the
   endpoints' `_supports`, in which the LAST endpoint wins (EndpointContext.supports: res.update per
   endpoint); the pushed-authorization endpoint is configured after the authorization endpoint. *)
(* The response-type dimension: every response type BOTH halves can be configured with - what the relying
   party's response-mode table / callback construction / get_access_and_id_token know, and
   create_authn_response handles on a real provider (both probed by the generator).  The `_supports`
   defaults (rp_response_types, op_response_types) are a subset. *)
Definition cfg_response_types : list pystr :=
  filter (fun t => str_in t op_configurable_response_types) rp_configurable_response_types.
Definition op_adv_rts (explicit : bool) : list pystr :=
  if explicit then cfg_response_types else op_par_response_types.
Definition rp_pref_rts (rt : pystr) (all : bool) : list pystr := if all then cfg_response_types else [rt].
Definition rp_use_rts (rt : pystr) (all explicit : bool) : list pystr :=
  negotiate (rp_pref_rts rt all) (op_adv_rts explicit).
Definition rp_use_modes : list pystr := negotiate rp_response_modes op_response_modes.

(* client Authorization._do_flow: which callback URIs (by response mode) the RP instance owns; computed from
   its CONFIGURED response types and response modes *)
Definition rp_callbacks (rts : list pystr) : list pystr :=
  (if str_in (PS "code") rts then [PS "query"] else [])
  ++ (if existsb (fun t => existsb (set_eqb (words t)) rp_implicit_response_types) rts then [PS "fragment"] else [])
  ++ (if str_in (PS "form_post") rp_response_modes then [PS "form_post"] else []).

(* StandAloneClient._get_response_mode *)
Definition rp_response_mode (rt : pystr) (rm : option pystr) : res (option pystr) :=
  match rm with
  | Some m =>
      if negb (match rp_use_modes with [] => true | _ => str_in m rp_use_modes end) then Err ValueError
      else match assoc rt rp_default_response_mode with
           | None => Err KeyError
           | Some d => Ok (if str_eqb d m then None else Some m)
           end
  | None =>
      match rp_use_modes with
      | [] => Ok None
      | first :: _ =>
          match assoc rt rp_default_response_mode with
          | None => Err KeyError
          | Some d => Ok (if str_in d rp_use_modes then None else Some first)
          end
      end
  end.

(* the response_mode parameter of the request that leaves the RP: what the caller asked for explicitly is
   written back over the computed one (request_args.update(req_args)) *)
Definition effective_rm (rm computed : option pystr) : option pystr :=
  match rm with Some m => Some m | None => computed end.

(* client utils.pick_redirect_uri (after the repair: a single URI, i.e. one callback slot) *)
Definition pick_redirect_uri (cbs : list pystr) (rt : pystr) (mode : option pystr) : res pystr :=
  match mode with
  | Some m =>
      if str_eqb m (PS "form_post") then
        if str_in (PS "form_post") cbs then Ok (PS "form_post")
        else if str_in (PS "query") cbs then Ok (PS "query") else Err KeyError
      else if str_in m cbs then Ok m else Err KeyError
  | None =>
      match assoc rt rp_default_response_mode with
      | None => Err ValueError
      | Some d => if str_in d cbs then Ok d else Err KeyError
      end
  end.

Definition rp_init_ok (rt : pystr) (rm : option pystr) (all explicit : bool) : bool :=
  match rp_use_rts rt all explicit with
  | [] => false                                   (* get_usage("response_types")[0] on None: TypeError *)
  | _ =>
      match rp_response_mode rt rm with
      | Ok computed => is_ok (pick_redirect_uri (rp_callbacks (rp_pref_rts rt all)) rt (effective_rm rm computed))
      | _ => false
      end
  end.

(* provider: verify_response_type against what was registered (the RP's negotiated response types) *)
Definition registered_rt_ok (rt : pystr) (all explicit : bool) : bool :=
  existsb (fun r => set_eqb (words r) (words rt)) (rp_use_rts rt all explicit).

(* provider: Authorization.response_mode() against create_authn_response's fragment_enc *)
Definition op_mode_ok (rt : pystr) (rm : option pystr) : bool :=
  match rp_response_mode rt rm with
  | Ok computed =>
      match effective_rm rm computed with
      | None => true
      | Some m =>
          if str_eqb m (PS "form_post") then true
          else if str_eqb m (PS "fragment") then
            match assoc rt op_fragment_enc with Some false => false | _ => true end
          else if str_eqb m (PS "query") then
            match assoc rt op_fragment_enc with Some true => false | _ => true end
          else false
      end
  | _ => true      (* the request never left the RP *)
  end.

(* ------------------------------------------------------------------ PKCE *)
Definition pkce_rp_ok (p : option pystr) : bool :=
  match p with None => true | Some m => str_in m rp_pkce_methods end.
Definition pkce_op_ok (p : option pystr) : bool :=
  match p with None => true | Some m => str_in m op_pkce_methods end.

(* ------------------------------------------------------------------ client authentication *)
Inductive audience := AudIssuer | AudEndpoint (name : pystr).
Definition audience_eqb (a b : audience) : bool :=
  match a, b with
  | AudIssuer, AudIssuer => true
  | AudEndpoint x, AudEndpoint y => str_eqb x y
  | _, _ => false
  end.
Definition is_jwt_method (m : pystr) : bool :=
  str_eqb m (PS "client_secret_jwt") || str_eqb m (PS "private_key_jwt").
(* client_auth._get_audience_and_algorithm: the token endpoint for the token endpoint, the issuer otherwise *)
Definition rp_assertion_aud (endpoint : pystr) : audience :=
  if str_eqb endpoint (PS "token") then AudEndpoint (PS "token") else AudIssuer.
(* Endpoint.allowed_target_uris with the default allowed_targets = [the endpoint itself] *)
Definition op_allowed_aud (endpoint : pystr) : list audience :=
  AudEndpoint endpoint ::
  (if repaired_par_issuer_audience && str_eqb endpoint (PS "pushed_authorization") then [AudIssuer] else []).
Definition aud_ok (endpoint : pystr) : bool :=
  existsb (audience_eqb (rp_assertion_aud endpoint)) (op_allowed_aud endpoint).

(* the method the RP really uses at the token endpoint: the registered one, or the service default when the
   negotiation left nothing (get_client_authn_method returns "" and Service falls back) *)
Definition effective_auth (auth : pystr) : pystr :=
  match registered1 [auth] op_token_auth_methods with Some m => m | None => rp_token_default_authn end.
Definition endpoint_auth_ok (endpoint : pystr) (allowed : list pystr) (m : pystr) : bool :=
  str_in m rp_client_authn_methods && str_in m op_client_authn_methods && str_in m allowed
  && (negb (is_jwt_method m) || aud_ok endpoint).
(* the relying party goes to the token endpoint exactly when get_access_and_id_token takes something from the
   token response (for "code token" and "code id_token token" it keeps what the authorization response carried) *)
Definition uses_token_endpoint (rt : pystr) : bool :=
  match assoc rt rp_artefact_sources with
  | Some (SrcToken, _) | Some (_, SrcToken) => true
  | _ => false
  end.
Definition token_auth_ok (rt auth : pystr) : bool :=
  negb (uses_token_endpoint rt) || endpoint_auth_ok (PS "token") op_token_auth_methods (effective_auth auth).
(* the harness configures the PAR add-on with the token-endpoint method when that is one of the secret / JWT
   methods and with client_secret_basic otherwise; the PAR endpoint allows the same four methods *)
Definition par_auth (auth : pystr) : pystr :=
  if str_in auth op_token_auth_methods then auth else PS "client_secret_basic".
Definition par_ok (tr : transport) (auth : pystr) : bool :=
  match tr with
  | TPar => endpoint_auth_ok (PS "pushed_authorization") op_token_auth_methods (par_auth auth)
  | _ => true
  end.

(* ------------------------------------------------------------------ the front-channel request *)
(* request_uri / PAR: only `request_uri` and the REQUIRED parameters stay in the front-channel request, and
   Endpoint.parse_request runs the message-level verify() on that stub before the reference is resolved *)
Definition is_stub (tr : transport) : bool :=
  match tr with TRequestUri | TPar => true | _ => false end.
Definition stub_ok (tr : transport) (rt : pystr) (offline : bool) : bool :=
  repaired_byref || negb (is_stub tr) || (negb (has_word "id_token" rt) && negb offline).

(* PAR: the pushed request is stored as an oauth2 AuthorizationRequest, whose schema has no `claims`
   entry, so the claims request stays the JSON TEXT it was pushed as; the authorization endpoint later
   treats it as a mapping and fails (server_error; a crash when the request names no response_mode) *)
Definition par_claims_ok (tr : transport) (claims : bool) : bool :=
  repaired_par_request_class || match tr with TPar => negb claims | _ => true end.

(* ------------------------------------------------------------------ signing and encryption keys *)
(* key families among the provider's OWN keys in the validated configuration; a client secret is filed under
   the client's id, where JWT.pack (issuer_id = "") does not look *)
Definition op_own_key_families : list keyfam := [KRsa; KEc; KOkp].
Definition sign_key_ok (alg : pystr) : bool :=
  match assoc alg sig_alg_family with
  | Some KOct => repaired_hs_sign      (* the client's secret, once it is looked up under the client id *)
  | Some f => existsb (keyfam_eqb f) op_own_key_families
  | None => false
  end.
Definition def_alg (what : string) : pystr :=
  match assoc (PS what) op_def_sign_alg with Some a => a | None => [] end.
Definition idt_alg (sig : pystr) : pystr :=
  match registered1 [sig] op_idt_sig_algs with Some a => a | None => def_alg "id_token" end.
Definition idt_authz_ok (rt sig : pystr) : bool :=
  negb (has_word "id_token" rt) || sign_key_ok (idt_alg sig).
Definition idt_token_ok (rt sig : pystr) : bool :=
  negb (uses_token_endpoint rt) || sign_key_ok (idt_alg sig).

(* the relying party checks the hashes of what arrives TOGETHER with an ID Token in the authorization response
   (oidc.AuthorizationResponse.verify -> verify_id_token(check_hash=True)); the provider decides in
   create_authn_response which of code / access_token it hands to the ID Token factory *)
Definition artefacts_op (rt : pystr) : list pystr :=
  match assoc rt op_artefacts with Some l => l | None => [] end.
Definition idt_hashes_required (rt : pystr) : list pystr :=
  if str_in (PS "id_token") (artefacts_op rt) then
    flat_map (fun a => match assoc a rp_idt_required_hash with Some h => [h] | None => [] end) (artefacts_op rt)
  else [].
Definition idt_hashes_provided (rt : pystr) : list pystr :=
  match assoc rt op_idt_hashes with Some l => l | None => [] end.
Definition idt_hashes_ok (rt : pystr) : bool :=
  forallb (fun h => str_in h (idt_hashes_provided rt)) (idt_hashes_required rt).

(* the relying party calls userinfo when it holds an access token *)
Definition needs_userinfo (rt : pystr) : bool :=
  match assoc rt rp_artefact_sources with
  | Some (SrcNone, _) | None => false
  | Some _ => true
  end.
Definition ui_sig_ok (rt : pystr) (sig : option pystr) : bool :=
  negb (needs_userinfo rt) ||
  match sig with
  | None => true
  | Some a => match registered1 [a] op_ui_sig_algs with Some r => sign_key_ok r | None => true end
  end.
Definition aes_len (n : N) : bool := N.eqb n 16 || N.eqb n 24 || N.eqb n 32.
(* encryption keys come from the RECEIVER: the RP publishes RSA and EC keys; for the AES key-wrap
   algorithms the key is the client secret, used as it is *)
Definition enc_key_ok (alg : pystr) (secret_len : N) : bool :=
  match assoc alg enc_alg_family with
  | Some KOct => aes_len secret_len
  | Some KRsa | Some KEc => true
  | _ => false
  end.
Definition ui_enc_registered (a e : pystr) : bool :=
  is_some (registered1 [a] op_ui_enc_algs) && is_some (registered1 [e] op_ui_enc_encs).
Definition ui_enc_ok (rt : pystr) (enc : option (pystr * pystr)) (secret_len : N) : bool :=
  negb (needs_userinfo rt) ||
  match enc with
  | None => true
  | Some (a, e) => negb (ui_enc_registered a e) || enc_key_ok a secret_len
  end.

(* the provider never encrypts ID Tokens: nothing sets encrypt=True on the way to IDToken.__call__ ... *)
Definition idt_encrypted (c : cfg) : bool := repaired_idt_enc && is_some (c_idt_enc c).
(* ... and a statically registered relying party enforces the id_token_encrypted_response_alg / _enc it registered
   when it verifies an ID Token (gather_verify_arguments: encalg / encenc), so the signed-only ID Token is
   rejected where it arrives: in the authorization response, or in the token response *)
Definition idt_enc_registered (enc : option (pystr * pystr)) : bool :=
  match enc with
  | Some (a, e) => is_some (registered1 [a] op_idt_enc_algs) && is_some (registered1 [e] op_idt_enc_encs)
  | None => false
  end.
Definition idt_enc_front_ok (rt : pystr) (enc : option (pystr * pystr)) : bool :=
  repaired_idt_enc || negb (idt_enc_registered enc && str_in (PS "id_token") (artefacts_op rt)).
Definition idt_enc_token_ok (rt : pystr) (enc : option (pystr * pystr)) : bool :=
  repaired_idt_enc || negb (idt_enc_registered enc && uses_token_endpoint rt).
(* once the provider does encrypt: the key comes from the receiver, and for the AES key-wrap algorithms it is
   the client secret used as it is (the same limit as for userinfo) *)
Definition idt_enc_alg_key_ok (enc : option (pystr * pystr)) (secret_len : N) : bool :=
  match enc with Some (a, _) => enc_key_ok a secret_len | None => true end.
Definition idt_enc_key_authz_ok (rt : pystr) (enc : option (pystr * pystr)) (secret_len : N) : bool :=
  negb (repaired_idt_enc && idt_enc_registered enc && str_in (PS "id_token") (artefacts_op rt)
        && negb (idt_enc_alg_key_ok enc secret_len)).
Definition idt_enc_key_token_ok (rt : pystr) (enc : option (pystr * pystr)) (secret_len : N) : bool :=
  negb (repaired_idt_enc && idt_enc_registered enc && uses_token_endpoint rt
        && negb (idt_enc_alg_key_ok enc secret_len)).

(* ------------------------------------------------------------------ the staged flow *)
Definition checks (c : cfg) (i : inp) : list (place * bool) :=
  [ (RpInit, rp_init_ok (c_rt c) (c_rm c) (i_rp_all_rts i) (i_op_explicit i));
    (RpInit, pkce_rp_ok (c_pkce c));
    (Par, par_ok (c_tr c) (c_auth c));
    (AuthzParse, stub_ok (c_tr c) (c_rt c) (i_offline i));
    (AuthzParse, registered_rt_ok (c_rt c) (i_rp_all_rts i) (i_op_explicit i));
    (AuthzParse, pkce_op_ok (c_pkce c));
    (AuthzProcess, par_claims_ok (c_tr c) (i_claims i));
    (AuthzProcess, idt_authz_ok (c_rt c) (c_idt_sig c));
    (AuthzProcess, idt_enc_key_authz_ok (c_rt c) (c_idt_enc c) (i_secret_len i));
    (AuthzProcess, op_mode_ok (c_rt c) (c_rm c));
    (RpFinalize, idt_hashes_ok (c_rt c));
    (RpFinalize, idt_enc_front_ok (c_rt c) (c_idt_enc c));
    (TokenEp, token_auth_ok (c_rt c) (c_auth c));
    (TokenEp, idt_token_ok (c_rt c) (c_idt_sig c));
    (TokenEp, idt_enc_key_token_ok (c_rt c) (c_idt_enc c) (i_secret_len i));
    (RpFinalize, idt_enc_token_ok (c_rt c) (c_idt_enc c));
    (UserinfoEp, ui_sig_ok (c_rt c) (c_ui_sig c));
    (UserinfoEp, ui_enc_ok (c_rt c) (c_ui_enc c) (i_secret_len i)) ].

Fixpoint first_fail (l : list (place * bool)) : outcome :=
  match l with
  | [] => Completed
  | (p, b) :: r => if b then first_fail r else FailAt p
  end.

Definition flow_outcome (c : cfg) (i : inp) : outcome := first_fail (checks c i).
Definition completes (c : cfg) (i : inp) : bool := outcome_eqb (flow_outcome c i) Completed.

(* ------------------------------------------------------------------ the named limits of the current tree *)
(* an explicit response_mode the provider refuses for the response type *)
Definition lim_mode (rt : pystr) (rm : option pystr) : bool :=
  match rm with
  | Some m => (str_eqb m (PS "fragment") && str_eqb rt (PS "code"))
              || (str_eqb m (PS "query") && negb (str_eqb rt (PS "code")))
  | None => false
  end.
(* the provider configuration is silent and the pushed-authorization endpoint's `_supports` shadows the
   authorization endpoint's response types *)
Definition lim_shadow (rt : pystr) (explicit : bool) : bool :=
  negb explicit && negb (str_in rt op_par_response_types).
(* HMAC-signed ID Tokens / userinfo: advertised by both halves, but the provider has no symmetric key of its own *)
Definition is_oct_sig (a : pystr) : bool :=
  match assoc a sig_alg_family with Some KOct => true | _ => false end.
(* ... whenever an ID Token is minted at all: at the authorization endpoint (id_token in the response type) or at
   the token endpoint (the relying party redeems the code) *)
Definition lim_hs_idt (rt sig : pystr) : bool :=
  negb repaired_hs_sign && is_oct_sig sig && (has_word "id_token" rt || uses_token_endpoint rt).
Definition lim_hs_ui (rt : pystr) (sig : option pystr) : bool :=
  negb repaired_hs_sign && needs_userinfo rt && match sig with Some a => is_oct_sig a | None => false end.
(* AES key wrap of userinfo with a client secret that is not 16, 24 or 32 bytes long *)
Definition lim_kw_secret (rt : pystr) (enc : option (pystr * pystr)) (secret_len : N) : bool :=
  needs_userinfo rt &&
  match enc with
  | Some (a, _) => match assoc a enc_alg_family with Some KOct => negb (aes_len secret_len) | _ => false end
  | None => false
  end.
(* request_uri / PAR: the stub in the front channel lacks nonce (needed for id_token) and prompt=consent
   (needed for offline_access) *)
Definition lim_byref_nonce (tr : transport) (rt : pystr) : bool :=
  negb repaired_byref && is_stub tr && has_word "id_token" rt.
Definition lim_byref_consent (tr : transport) (offline : bool) : bool :=
  negb repaired_byref && is_stub tr && offline.
(* PAR with a JWT client-authentication method: the RP addresses the assertion to the issuer, the endpoint
   accepts only its own URL *)
Definition lim_par_jwt (tr : transport) (auth : pystr) : bool :=
  negb repaired_par_issuer_audience && match tr with TPar => is_jwt_method auth | _ => false end.

(* a registered ID Token encryption: the provider does not apply it, the relying party insists on it *)
Definition lim_idt_enc (rt : pystr) (enc : option (pystr * pystr)) : bool :=
  negb repaired_idt_enc && is_some enc && (has_word "id_token" rt || uses_token_endpoint rt).
(* ... and once it is applied, the AES key-wrap algorithms meet the same secret-length limit as for userinfo *)
Definition lim_kw_idt (rt : pystr) (enc : option (pystr * pystr)) (secret_len : N) : bool :=
  repaired_idt_enc && (has_word "id_token" rt || uses_token_endpoint rt) &&
  match enc with
  | Some (a, _) => match assoc a enc_alg_family with Some KOct => negb (aes_len secret_len) | _ => false end
  | None => false
  end.

(* PAR with a claims request *)
Definition lim_par_claims (tr : transport) (claims : bool) : bool :=
  negb repaired_par_request_class && match tr with TPar => claims | _ => false end.

Definition limits (c : cfg) (i : inp) : bool :=
  lim_mode (c_rt c) (c_rm c) || lim_shadow (c_rt c) (i_op_explicit i)
  || lim_hs_idt (c_rt c) (c_idt_sig c) || lim_hs_ui (c_rt c) (c_ui_sig c)
  || lim_kw_secret (c_rt c) (c_ui_enc c) (i_secret_len i)
  || lim_byref_nonce (c_tr c) (c_rt c) || lim_byref_consent (c_tr c) (i_offline i)
  || lim_par_jwt (c_tr c) (c_auth c) || lim_par_claims (c_tr c) (i_claims i)
  || lim_idt_enc (c_rt c) (c_idt_enc c) || lim_kw_idt (c_rt c) (c_idt_enc c) (i_secret_len i).

(* ------------------------------------------------------------------ the configuration space *)
Definition in_opt (o : option pystr) (l : list pystr) : Prop :=
  match o with None => True | Some x => In x l end.
Definition in_opt2 (o : option (pystr * pystr)) (la le : list pystr) : Prop :=
  match o with None => True | Some (a, e) => In a la /\ In e le end.
(* every value the RELYING PARTY can be configured with, dimension by dimension (booleans and the transport
   range over their whole type) *)
Definition in_product (c : cfg) : Prop :=
  In (c_rt c) cfg_response_types /\ in_opt (c_rm c) rp_response_modes
  /\ In (c_auth c) rp_token_auth_methods
  /\ In (c_idt_sig c) rp_idt_sig_algs /\ in_opt2 (c_idt_enc c) rp_idt_enc_algs rp_idt_enc_encs
  /\ in_opt (c_ui_sig c) rp_ui_sig_algs /\ in_opt2 (c_ui_enc c) rp_ui_enc_algs rp_ui_enc_encs
  /\ in_opt (c_pkce c) rp_pkce_methods.

Definition opts (l : list pystr) : list (option pystr) := None :: map Some l.

(* ------------------------------------------------------------------ negotiation, dimension by dimension *)
Inductive dim := DResponseType | DResponseMode | DTokenAuth | DIdtSig | DIdtEncAlg | DIdtEncEnc
               | DUiSig | DUiEncAlg | DUiEncEnc | DReqObjSig | DPkce.
Definition all_dims : list dim :=
  [DResponseType; DResponseMode; DTokenAuth; DIdtSig; DIdtEncAlg; DIdtEncEnc; DUiSig; DUiEncAlg; DUiEncEnc;
   DReqObjSig; DPkce].
Definition rp_offers (d : dim) : list pystr :=
  match d with
  | DResponseType => cfg_response_types | DResponseMode => rp_response_modes
  | DTokenAuth => rp_token_auth_methods
  | DIdtSig => rp_idt_sig_algs | DIdtEncAlg => rp_idt_enc_algs | DIdtEncEnc => rp_idt_enc_encs
  | DUiSig => rp_ui_sig_algs | DUiEncAlg => rp_ui_enc_algs | DUiEncEnc => rp_ui_enc_encs
  | DReqObjSig => rp_reqobj_sig_algs | DPkce => rp_pkce_methods
  end.
(* what the provider advertises for the dimension (with response types stated explicitly) *)
Definition op_advertises (d : dim) : list pystr :=
  match d with
  | DResponseType => op_configurable_response_types | DResponseMode => op_response_modes
  | DTokenAuth => op_token_auth_methods
  | DIdtSig => op_idt_sig_algs | DIdtEncAlg => op_idt_enc_algs | DIdtEncEnc => op_idt_enc_encs
  | DUiSig => op_ui_sig_algs | DUiEncAlg => op_ui_enc_algs | DUiEncEnc => op_ui_enc_encs
  | DReqObjSig => op_reqobj_sig_algs | DPkce => op_pkce_advertised
  end.
(* what the provider's code accepts (for PKCE more than it advertises) *)
Definition op_accepts (d : dim) (v : pystr) : bool :=
  match d with
  | DPkce => str_in v op_pkce_methods
  | DTokenAuth => str_in v op_token_auth_methods && str_in v op_client_authn_methods
  | _ => str_in v (op_advertises d)
  end.
(* the value in force after the RP has matched its configuration against the provider info *)
Definition negotiated (d : dim) (v : pystr) : pystr :=
  match d with
  | DTokenAuth => effective_auth v
  | DPkce => v                      (* the PKCE add-on does not consult the provider info *)
  | _ => match registered1 [v] (op_advertises d) with Some r => r | None => v end
  end.
Definition dim_compatible (d : dim) : bool := forallb (fun v => op_accepts d (negotiated d v)) (rp_offers d).

(* ------------------------------------------------------------------ artefacts per response type *)
Definition artefacts_rp (rt : pystr) : list pystr :=       (* what the RP reads from the authorization response *)
  match assoc rt rp_artefact_sources with
  | Some (a, i) =>
      (match a with SrcAuthz => [PS "access_token"] | _ => [] end)
      ++ (match i with SrcAuthz => [PS "id_token"] | _ => [] end)
      ++ (match a, i with SrcToken, _ | _, SrcToken => [PS "code"] | _, _ => [] end)
  | None => []
  end.
Definition yields_id_token (rt : pystr) : bool :=
  match assoc rt rp_artefact_sources with Some (_, SrcNone) | None => false | Some _ => true end.
Definition artefacts_agree (rt : pystr) : bool :=
  is_some (assoc rt rp_artefact_sources) && is_some (assoc rt op_artefacts)
  && forallb (fun a => str_in a (artefacts_op rt)) (artefacts_rp rt) && idt_hashes_ok rt
  (* an ID Token reaches the relying party exactly when the response type names one or the code is redeemed *)
  && Bool.eqb (yields_id_token rt) (has_word "id_token" rt || uses_token_endpoint rt).

(* ------------------------------------------------------------------ views of one completed flow *)
(* One record is created at the authorization endpoint; every observation point shows a projection of it. *)
Record session := mkSession {
  s_client : pystr; s_sub : pystr; s_scope : list pystr; s_nonce : option pystr;
  s_at_exp : Z;            (* expires_at of the access token *)
  s_idt_exp : Z            (* exp of the ID Token *)
}.
Record view := mkView {
  v_client : option pystr; v_sub : option pystr; v_scope : option (list pystr);
  v_nonce : option pystr; v_at_exp : option Z; v_idt_exp : option Z
}.
(* the provider's session database.  The ID Token minted by the TOKEN endpoint is recorded with its expiry; the
   one minted by the AUTHORIZATION endpoint (Authorization.mint_token: no usage rule for id_token) keeps
   expires_at = 0 although the token itself says now + lifetime.  at / idt say where the relying party's access
   token and ID Token come from (rp_artefact_sources): SrcNone = the flow has none. *)
Definition has_src (x : src) : bool := match x with SrcNone => false | _ => true end.
Definition view_session (asrc isrc : src) (s : session) : view :=
  mkView (Some (s_client s)) (Some (s_sub s)) (Some (s_scope s)) (s_nonce s)
         (if has_src asrc then Some (s_at_exp s) else None)
         (match isrc with SrcToken => Some (s_idt_exp s) | SrcAuthz => Some (if repaired_idt_exp then s_idt_exp s else 0%Z) | SrcNone => None end).
(* the response that carries the access token (token response, or the authorization response of the implicit /
   hybrid types): scope and expires_in = expires_at - now; the view's expiry is now + expires_in *)
Definition expires_in (s : session) (now_op : Z) : Z := (s_at_exp s - now_op)%Z.
Definition view_token_response (s : session) (now_op : Z) : view :=
  mkView None None (Some (s_scope s)) None (Some (now_op + expires_in s now_op)%Z) None.
Definition view_jwt_access_token (s : session) : view :=
  mkView (Some (s_client s)) (Some (s_sub s)) (Some (s_scope s)) None (Some (s_at_exp s)) None.
Definition view_introspection (s : session) : view :=
  mkView (Some (s_client s)) (Some (s_sub s)) (Some (s_scope s)) None (Some (s_at_exp s)) None.
Definition view_userinfo (s : session) : view :=
  mkView None (Some (s_sub s)) None None None None.
Definition view_id_token (s : session) : view :=
  mkView (Some (s_client s)) (Some (s_sub s)) None (s_nonce s) None (Some (s_idt_exp s)).
(* the relying party: its own client id, the subject of the verified ID Token (or of userinfo), the nonce it
   sent, the scope of the response that carried the access token (or of the authorization response), and
   __expires_at = ITS clock + expires_in *)
Definition view_rp (asrc isrc : src) (s : session) (now_op now_rp : Z) : view :=
  mkView (Some (s_client s)) (Some (s_sub s)) (Some (s_scope s)) (s_nonce s)
         (if has_src asrc then Some (now_rp + expires_in s now_op)%Z else None)
         (if has_src isrc then Some (s_idt_exp s) else None).

(* a refresh (RefreshTokenHelper.process_request): the provider mints a new access token and a new ID Token for
   the SAME grant - client, subject, scope and nonce stay, the expiries are set anew from the provider's clock and
   the lifetimes - and answers with expires_in of the access token it just minted *)
Definition refresh_session (s : session) (r : Z * Z * Z) : session :=
  let '(now, at_life, idt_life) := r in
  mkSession (s_client s) (s_sub s) (s_scope s) (s_nonce s) (now + at_life)%Z (now + idt_life)%Z.
Definition refresh_chain (s : session) (l : list (Z * Z * Z)) : session := fold_left refresh_session l s.
Definition session_eqb (a b : session) : bool :=
  str_eqb (s_client a) (s_client b) && str_eqb (s_sub a) (s_sub b) && list_eqb str_eqb (s_scope a) (s_scope b)
  && option_eqb str_eqb (s_nonce a) (s_nonce b) && Z.eqb (s_at_exp a) (s_at_exp b) && Z.eqb (s_idt_exp a) (s_idt_exp b).

Definition opt_agree {A} (eqb : A -> A -> bool) (x y : option A) : bool :=
  match x, y with Some a, Some b => eqb a b | _, _ => true end.
Definition view_agree (a b : view) : bool :=
  opt_agree str_eqb (v_client a) (v_client b) && opt_agree str_eqb (v_sub a) (v_sub b)
  && opt_agree (list_eqb str_eqb) (v_scope a) (v_scope b) && opt_agree str_eqb (v_nonce a) (v_nonce b)
  && opt_agree Z.eqb (v_at_exp a) (v_at_exp b) && opt_agree Z.eqb (v_idt_exp a) (v_idt_exp b).
Fixpoint all_agree (l : list view) : bool :=
  match l with
  | [] => true
  | v :: r => forallb (view_agree v) r && all_agree r
  end.
Definition all_views (asrc isrc : src) (at_jwt : bool) (s : session) (now_op now_rp : Z) : list view :=
  [view_session asrc isrc s; view_rp asrc isrc s now_op now_rp]
  ++ (if has_src isrc then [view_id_token s] else [])
  ++ (if has_src asrc then [view_token_response s now_op; view_introspection s; view_userinfo s] else [])
  ++ (if has_src asrc && at_jwt then [view_jwt_access_token s] else []).
Definition forget_idt_exp (v : view) : view :=
  mkView (v_client v) (v_sub v) (v_scope v) (v_nonce v) (v_at_exp v) None.

Definition view_eqb (a b : view) : bool :=
  option_eqb str_eqb (v_client a) (v_client b) && option_eqb str_eqb (v_sub a) (v_sub b)
  && option_eqb (list_eqb str_eqb) (v_scope a) (v_scope b) && option_eqb str_eqb (v_nonce a) (v_nonce b)
  && option_eqb Z.eqb (v_at_exp a) (v_at_exp b) && option_eqb Z.eqb (v_idt_exp a) (v_idt_exp b).

(* ------------------------------------------------------------------ requested scope and granted scope *)
(* What a client may be granted (Scopes.get_allowed_scopes): the allowed_scopes of its record when the operator
   put them there, else every scope value the provider knows (the keys of its scope -> claims map; for the
   provider of this check that is the regenerated op_scopes). *)
Definition allowed_scopes_of (provider : list pystr) (client_allowed : option (list pystr)) : list pystr :=
  match client_allowed with Some a => a | None => provider end.
(* AuthzHandling.__call__ -> Scopes.filter_scopes: the granted scope is the REQUESTED values, in request order,
   that are allowed; anything else is dropped without an error as long as deny_unknown_scopes is off
   (op_deny_unknown_scopes, regenerated: check_unknown_scopes_policy).  It is written into the grant once, at
   the authorization endpoint, and every later step reads it from there. *)
Definition filter_scopes (provider : list pystr) (client_allowed : option (list pystr)) (requested : list pystr)
  : list pystr :=
  filter (fun s => str_in s (allowed_scopes_of provider client_allowed)) requested.
Definition granted_scope (client_allowed : option (list pystr)) (requested : list pystr) : list pystr :=
  filter_scopes op_scopes client_allowed requested.
Definition subset (a b : list pystr) : bool := forallb (fun x => str_in x b) a.
(* the record the authorization endpoint creates for a request (sub: C18) *)
Definition grant_session (client sub : pystr) (client_allowed : option (list pystr)) (requested : list pystr)
           (nonce : option pystr) (now at_life idt_life : Z) : session :=
  mkSession client sub (granted_scope client_allowed requested) nonce (now + at_life)%Z (now + idt_life)%Z.

(* A refresh request may state a scope (this library's relying party always does: it sends the scope it has on
   record, or the narrower one its caller asks for).  RefreshTokenHelper.post_parse_request refuses a stated scope
   that is not within the scope the refresh token stands for; process_request mints the new access token, ID Token
   and refresh token for the stated scope, else for the scope the refresh token stands for, and the response
   states that scope.  The grant itself keeps the scope it was given at the authorization endpoint.
   `stands_for` is the originally granted scope for a refresh token minted by the code exchange and for the one
   minted by the refresh that used such a token (Grant.find_scope of the PARENT of the presented refresh token) -
   the two rounds the driver makes. *)
Definition refresh_scope (stands_for : list pystr) (stated : option (list pystr)) : option (list pystr) :=
  match stated with
  | None => Some stands_for
  | Some n => if subset n stands_for then Some n else None
  end.
(* the record every view of the refreshed tokens projects: as refresh_session, for the scope of THIS refresh *)
Definition refresh_session_scoped (s : session) (r : Z * Z * Z) (sc : list pystr) : session :=
  let s' := refresh_session s r in
  mkSession (s_client s') (s_sub s') sc (s_nonce s') (s_at_exp s') (s_idt_exp s').

(* ------------------------------------------------------------------ generated-case checkers *)
(* one flow: configuration, inputs, the observed outcome *)
Definition chk_flow (k : cfg * inp * outcome) : bool :=
  let '(c, i, o) := k in outcome_eqb (flow_outcome c i) o.
Definition diag_flow (k : cfg * inp * outcome) : outcome * list (place * bool) :=
  let '(c, i, o) := k in (flow_outcome c i, checks c i).

(* the views of a completed flow: the session record as the provider holds it, the two clocks, and every
   observed view, each compared with the model's projection *)
Record views_case := mkViewsCase {
  k_at : src; k_idt : src; k_at_jwt : bool; k_session : session; k_now_op : Z; k_now_rp : Z;
  k_op_session : view;
  k_token_response : option view; k_introspection : option view; k_userinfo : option view; k_id_token : option view;
  k_rp : view; k_jwt : option view
}.
Definition diag_views (k : views_case) : list (string * view) :=
  let s := k_session k in
  [("op_session", view_session (k_at k) (k_idt k) s); ("token_response", view_token_response s (k_now_op k));
   ("introspection", view_introspection s); ("userinfo", view_userinfo s); ("id_token", view_id_token s);
   ("rp", view_rp (k_at k) (k_idt k) s (k_now_op k) (k_now_rp k)); ("jwt", view_jwt_access_token s)].
(* present exactly when expected, and then equal to the model's projection *)
Definition exp_view_eqb (expected : bool) (m : view) (o : option view) : bool :=
  match o with Some v => expected && view_eqb m v | None => negb expected end.
Definition opt_view_eqb (m : view) (o : option view) : bool :=
  match o with Some v => view_eqb m v | None => true end.
Definition chk_views (k : views_case) : bool :=
  let s := k_session k in
  let asrc := has_src (k_at k) in
  view_eqb (view_session (k_at k) (k_idt k) s) (k_op_session k)
  && exp_view_eqb asrc (view_token_response s (k_now_op k)) (k_token_response k)
  && (if asrc then opt_view_eqb (view_introspection s) (k_introspection k) else negb (is_some (k_introspection k)))
  && exp_view_eqb asrc (view_userinfo s) (k_userinfo k)
  && exp_view_eqb (has_src (k_idt k)) (view_id_token s) (k_id_token k)
  && view_eqb (view_rp (k_at k) (k_idt k) s (k_now_op k) (k_now_rp k)) (k_rp k)
  && exp_view_eqb (asrc && k_at_jwt k) (view_jwt_access_token s) (k_jwt k).

(* one refresh round: the session record before the round, (provider clock at the refresh, access-token lifetime,
   ID Token lifetime), and the views observed after it; the record the provider holds afterwards must be the
   refreshed record and every view a projection of it *)
Definition chk_refresh (k : session * (Z * Z * Z) * views_case) : bool :=
  let '(prev, r, vc) := k in
  session_eqb (refresh_session prev r) (k_session vc) && chk_views vc.
Definition diag_refresh (k : session * (Z * Z * Z) * views_case) : session * list (string * view) :=
  let '(prev, r, vc) := k in (refresh_session prev r, diag_views vc).

(* ------------------------------------------------------------------ requested vs granted: checkers *)
Definition opt_scope (o : option view) : option (list pystr) :=
  match o with Some v => v_scope v | None => None end.
(* every scope statement the driver could read for one token set *)
Definition observed_scopes (k : views_case) : list (option (list pystr)) :=
  [v_scope (k_op_session k); v_scope (k_rp k); opt_scope (k_token_response k); opt_scope (k_introspection k);
   opt_scope (k_jwt k); opt_scope (k_id_token k); opt_scope (k_userinfo k)].
Definition scope_is (g : list pystr) (o : option (list pystr)) : bool :=
  match o with Some l => list_eqb str_eqb l g | None => true end.
(* one completed flow: the client's allowed_scopes (None = its record has none), the scope the relying party asked
   for, further scope statements outside the views (authorization response, the access token's own record), the
   views.  The provider's record holds granted_scope of the two, every view states exactly it, and it is within the
   requested scope.  Lists are sorted by the driver (filter keeps the order of the request). *)
Definition chk_grant (k : option (list pystr) * list pystr * list (list pystr) * views_case) : bool :=
  let '(al, req, extra, vc) := k in
  let g := granted_scope al req in
  list_eqb str_eqb (s_scope (k_session vc)) g
  && forallb (scope_is g) (observed_scopes vc) && forallb (fun l => list_eqb str_eqb l g) extra
  && subset g req.
Definition diag_grant (k : option (list pystr) * list pystr * list (list pystr) * views_case)
  : list pystr * list (option (list pystr)) * list (list pystr) :=
  let '(al, req, extra, vc) := k in (granted_scope al req, observed_scopes vc, extra).

(* one refresh round with the scope the refresh REQUEST stated (read off the wire): allowed_scopes and requested scope
   of the flow, the scope the grant holds after the round, the token-level record before the round, (clock,
   lifetimes), the stated scope, the views after the round (k_session: the record of the refreshed access token). *)
Definition chk_refresh_scoped
  (k : option (list pystr) * list pystr * list pystr * session * (Z * Z * Z) * option (list pystr) * views_case) : bool :=
  let '(al, req, grant_after, prev, r, stated, vc) := k in
  let g := granted_scope al req in
  list_eqb str_eqb grant_after g
  && match refresh_scope g stated with
     | Some sc => session_eqb (refresh_session_scoped prev r sc) (k_session vc) && chk_views vc
                  && forallb (scope_is sc) (observed_scopes vc)
     | None => false
     end.
Definition diag_refresh_scoped
  (k : option (list pystr) * list pystr * list pystr * session * (Z * Z * Z) * option (list pystr) * views_case)
  : list pystr * option (list pystr) * list (option (list pystr)) :=
  let '(al, req, grant_after, prev, r, stated, vc) := k in
  (granted_scope al req, refresh_scope (granted_scope al req) stated, observed_scopes vc).
