(* Model/InteropLifetime.v — C12, the LIFETIME dimension of the views (an extension of Model/Interop.v).

   Model/Interop.v takes the lifetimes of a flow as given numbers (at_life, idt_life).  Here they are functions of the
   CONFIGURATION, and the provider is an INSTANCE that serves many flows of several clients one after the other:

     * the provider configures a token handler per token class with a lifetime (token_handler_args);
     * the provider-wide usage rules (authz grant_config) may state `expires_in` for a token class, or state none;
     * the operator may give a CLIENT its own rule (cdb[client]["token_usage_rules"]), which is laid over the
       provider-wide one (AuthzHandling.usage_rules);
     * the rule in force for (client, class) is copied into the grant at the authorization endpoint; minting a token
       takes the rule's expires_in, else the HANDLER's lifetime - once for the session record
       (TokenEndpointHelper._mint_token / Authorization.mint_token: expires_at, from which the response's expires_in,
       the relying party's __expires_at and introspection's exp follow) and once more INSIDE the handler for the
       exp / iat claims of a JWT-formatted token (JWTToken.__call__);
     * the handler objects live as long as the instance: every flow of every client goes through the same two objects.

   `step` runs one minting event (a flow, or a refresh round) on an instance and returns the instance afterwards and
   every view of the expiry of the access token and the refresh token it minted; `run` runs a sequence.  The driver
   evaluates `chk_lifetimes` on every sequence of events it drove on ONE real provider instance. *)
From Coq Require Import String.
From Verif Require Import Lib.Base Lib.PyStr Model.Interop.

Inductive tclass := TAccess | TRefresh.

(* the provider: handler lifetimes; expires_in of the provider-wide usage rule of the class (None: states none) *)
Record prov_life := mkProvLife {
  p_handler_at : Z; p_handler_rf : Z;
  p_rule_at : option Z; p_rule_rf : option Z
}.
(* a client record: expires_in of the client's own usage rule of the class (None: the record has no such rule) *)
Record client_life := mkClientLife { cl_id : pystr; cl_rule_at : option Z; cl_rule_rf : option Z }.

Definition first_some (a b : option Z) : option Z := match a with Some _ => a | None => b end.
(* AuthzHandling.usage_rules (client_id): the provider-wide rule updated with the client's *)
Definition effective_rule (p : prov_life) (c : client_life) (k : tclass) : option Z :=
  match k with
  | TAccess => first_some (cl_rule_at c) (p_rule_at p)
  | TRefresh => first_some (cl_rule_rf c) (p_rule_rf p)
  end.
Definition handler_lifetime (p : prov_life) (k : tclass) : Z :=
  match k with TAccess => p_handler_at p | TRefresh => p_handler_rf p end.
(* the lifetime of a token of class k minted for client c: a function of the configuration alone *)
Definition lifetime (p : prov_life) (c : client_life) (k : tclass) : Z :=
  match effective_rule p c k with Some e => e | None => handler_lifetime p k end.

(* a token handler: an object configured once with a lifetime.  Asked for a token under a rule it stamps the rule's
   expires_in, else ITS lifetime, into the token - and is afterwards the object it was before. *)
Record handler := mkHandler { h_lifetime : Z }.
Definition rule_or (rule : option Z) (h : handler) : Z := match rule with Some e => e | None => h_lifetime h end.
Definition handler_stamp (h : handler) (rule : option Z) : handler * Z := (h, rule_or rule h).
(* the session bookkeeping outside the handler reads the same two places *)
Definition session_life (h : handler) (rule : option Z) : Z := rule_or rule h.

(* a provider instance: its two handler objects and what it has minted so far (client, clock, lifetime) *)
Record instance := mkInstance { i_at : handler; i_rf : handler; i_minted : list (pystr * Z * Z) }.
Definition fresh (p : prov_life) : instance :=
  mkInstance (mkHandler (p_handler_at p)) (mkHandler (p_handler_rf p)) [].

(* one minting event: a flow of a client (access token, perhaps a refresh token), or one of its refresh rounds *)
Record event := mkEvent {
  e_client : client_life;
  e_now_op : Z;              (* the provider's clock when it minted and answered *)
  e_now_rp : Z;              (* the relying party's clock when the answer arrived *)
  e_at_jwt : bool; e_rf_jwt : bool;
  e_has_rf : bool;           (* a refresh token was issued *)
  e_rf_asked : bool          (* the relying party asked the introspection endpoint about the refresh token too *)
}.
(* every view of the expiry: (issued, expires) pairs where the view states both *)
Record lviews := mkLviews {
  lv_response : option Z;                 (* expires_in of the response that carried the access token *)
  lv_rp : option Z;                       (* the relying party's __expires_at *)
  lv_session : option (Z * Z);            (* provider session: issued_at, expires_at of the access token *)
  lv_jwt : option (Z * Z);                (* iat, exp INSIDE a JWT-formatted access token *)
  lv_introspection : option (Z * Z);      (* iat, exp reported by introspection *)
  lv_rf_session : option (Z * Z);
  lv_rf_jwt : option (Z * Z);
  lv_rf_introspection : option (Z * Z)
}.

Definition step (p : prov_life) (i : instance) (e : event) : instance * lviews :=
  let ra := effective_rule p (e_client e) TAccess in
  let rr := effective_rule p (e_client e) TRefresh in
  let now := e_now_op e in
  let '(ha, ja) := handler_stamp (i_at i) ra in
  let '(hr, jr) := if e_has_rf e then handler_stamp (i_rf i) rr else (i_rf i, 0%Z) in
  let sa := session_life (i_at i) ra in
  let sr := session_life (i_rf i) rr in
  (mkInstance ha hr ((cl_id (e_client e), now, sa) :: i_minted i),
   mkLviews (Some sa) (Some (e_now_rp e + sa)%Z) (Some (now, (now + sa)%Z))
            (if e_at_jwt e then Some (now, (now + ja)%Z) else None)
            (Some (now, (now + sa)%Z))
            (if e_has_rf e then Some (now, (now + sr)%Z) else None)
            (if e_has_rf e && e_rf_jwt e then Some (now, (now + jr)%Z) else None)
            (if e_has_rf e && e_rf_asked e then Some (now, (now + sr)%Z) else None)).

Fixpoint run (p : prov_life) (i : instance) (es : list event) : list lviews :=
  match es with
  | [] => []
  | e :: r => let '(i', v) := step p i e in v :: run p i' r
  end.
Fixpoint run_state (p : prov_life) (i : instance) (es : list event) : instance :=
  match es with
  | [] => i
  | e :: r => run_state p (fst (step p i e)) r
  end.
(* the flow alone, on an instance that has served nobody yet *)
Definition alone (p : prov_life) (e : event) : lviews := snd (step p (fresh p) e).

(* ---- the views as lifetimes *)
Definition span (o : option (Z * Z)) : option Z := match o with Some (a, b) => Some (b - a)%Z | None => None end.
Definition start (o : option (Z * Z)) : option Z := match o with Some (a, _) => Some a | None => None end.
Definition at_lifetimes (now_rp : Z) (v : lviews) : list (option Z) :=
  [lv_response v; match lv_rp v with Some x => Some (x - now_rp)%Z | None => None end;
   span (lv_session v); span (lv_jwt v); span (lv_introspection v)].
Definition rf_lifetimes (v : lviews) : list (option Z) :=
  [span (lv_rf_session v); span (lv_rf_jwt v); span (lv_rf_introspection v)].
Definition starts (v : lviews) : list (option Z) :=
  [start (lv_session v); start (lv_jwt v); start (lv_introspection v);
   start (lv_rf_session v); start (lv_rf_jwt v); start (lv_rf_introspection v)].
Definition all_are (x : Z) (l : list (option Z)) : bool :=
  forallb (fun o => match o with Some y => Z.eqb y x | None => true end) l.
(* every view that states something states the same *)
Fixpoint agree_z (l : list (option Z)) : bool :=
  match l with
  | [] => true
  | None :: r => agree_z r
  | Some x :: r => all_are x r && agree_z r
  end.
Definition lviews_agree (now_rp : Z) (v : lviews) : bool :=
  agree_z (at_lifetimes now_rp v) && agree_z (rf_lifetimes v) && agree_z (starts v).

(* ---- generated-case checker: the provider configuration of ONE instance, and the events driven on it in order,
        each with the views the driver read *)
Definition pair_eqb (a b : Z * Z) : bool := Z.eqb (fst a) (fst b) && Z.eqb (snd a) (snd b).
Definition lviews_eqb (a b : lviews) : bool :=
  option_eqb Z.eqb (lv_response a) (lv_response b) && option_eqb Z.eqb (lv_rp a) (lv_rp b)
  && option_eqb pair_eqb (lv_session a) (lv_session b) && option_eqb pair_eqb (lv_jwt a) (lv_jwt b)
  && option_eqb pair_eqb (lv_introspection a) (lv_introspection b)
  && option_eqb pair_eqb (lv_rf_session a) (lv_rf_session b) && option_eqb pair_eqb (lv_rf_jwt a) (lv_rf_jwt b)
  && option_eqb pair_eqb (lv_rf_introspection a) (lv_rf_introspection b).
Definition chk_lifetimes (k : prov_life * list (event * lviews)) : bool :=
  let '(p, l) := k in
  list_eqb lviews_eqb (run p (fresh p) (map fst l)) (map snd l)
  && forallb (fun ev => lviews_agree (e_now_rp (fst ev)) (snd ev)) l.
Definition diag_lifetimes (k : prov_life * list (event * lviews)) : list lviews :=
  let '(p, l) := k in run p (fresh p) (map fst l).
