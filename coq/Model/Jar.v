(* Model/Jar.v — request objects (JAR: by value, by request_uri) and pushed authorization requests (PAR).

   Hand-written, total, executable transcription of
     idpyoidc.message.oauth2.AuthorizationRequest.verify / PushedAuthorizationRequest.verify / merge,
     idpyoidc.message.oidc.AuthorizationRequest.verify (the checks after the merge),
     idpyoidc.message.Message.from_jwt / _gather_keys  (alg none => no verification; an encrypted wrapper is
       opened first and what is inside is verified as a JWS or, when it is not one, read as JSON: open_wrapper),
     cryptojwt KeyJar.get_jwt_verify_keys / JWS.verify_compact (idealised: keys are numbers, a signature is
       a symbolic term Sig k (header alg, claims); see Lib/Crypto.v),
     idpyoidc.server.client_authn.verify_client restricted to RequestParam / PublicAuthn / NoneAuthn,
     idpyoidc.server.endpoint.Endpoint.parse_request / verify_request / do_post_parse_request,
     idpyoidc.server.oauth2.authorization.Authorization._do_request_uri / _post_parse_request /
       AllowedAlgorithms / get_uri (exact-match fragment),
     idpyoidc.server.oauth2.pushed_authorization.PushedAuthorization._do_request_uri / process_request,
   and the PAR store machine  Authz | Push | Tick  with an explicit clock.
   Tied to the code by harness/drv_C16.py (correspondence on every run).  No proofs here. *)
From Coq Require Import String.
From Verif Require Import Lib.Base.
From Verif Require Import Lib.PyStr.
From Verif Require Import Lib.Crypto.
Open Scope string_scope.

(* ------------------------------------------------------------------ parameters *)
(* a parameter value after Message.from_dict: a string, or a list of strings (scope, response_type, ...) *)
Inductive pv := PS_ (s : pystr) | PL_ (l : list pystr).
Definition pv_eqb (a b : pv) : bool :=
  match a, b with
  | PS_ x, PS_ y => str_eqb x y
  | PL_ x, PL_ y => list_eqb str_eqb x y
  | _, _ => false
  end.
Definition params := list (pystr * pv).     (* a Python dict, insertion order *)
Definition binding_eqb (a b : pystr * pv) : bool := str_eqb (fst a) (fst b) && pv_eqb (snd a) (snd b).
Definition params_eqb (a b : params) : bool := list_eqb binding_eqb a b.
(* same set of bindings (keys are unique in a dict) *)
Definition params_sub (a b : params) : bool :=
  forallb (fun kv => match assoc (fst kv) b with Some v => pv_eqb (snd kv) v | None => false end) a.
Definition params_equiv (a b : params) : bool :=
  Nat.eqb (List.length a) (List.length b) && params_sub a b && params_sub b a.

Definition k_client_id := PS "client_id".
Definition k_request := PS "request".
Definition k_request_uri := PS "request_uri".
Definition k_redirect_uri := PS "redirect_uri".
Definition k_response_type := PS "response_type".
Definition k_scope := PS "scope".
Definition k_state := PS "state".
Definition k_iss := PS "iss".
Definition k_authenticated := PS "authenticated".
Definition k_nonce := PS "nonce".
Definition k_prompt := PS "prompt".
Definition k_id_token_hint := PS "id_token_hint".
Definition s_none := PS "none".
Definition s_true := PS "True".
Definition s_openid := PS "openid".
Definition s_offline := PS "offline_access".
Definition s_id_token := PS "id_token".
Definition s_urn := PS "urn:uuid:".
Definition s_rs256 := PS "RS256".

Definition get_s (k : pystr) (p : params) : option pystr :=
  match assoc k p with Some (PS_ s) => Some s | _ => None end.
(* dict.update(other) *)
Definition update (d other : params) : params :=
  fold_left (fun acc kv => aset (fst kv) (snd kv) acc) other d.
(* strict merge: drop every parameter that does not appear in the object *)
Definition restrict (d obj : params) : params :=
  filter (fun kv => has_key (fst kv) obj) d.

(* ------------------------------------------------------------------ keys, algorithms, wire objects *)
Inductive kty := KRsa | KEc | KOct.
Definition kty_eqb (a b : kty) : bool :=
  match a, b with KRsa, KRsa | KEc, KEc | KOct, KOct => true | _, _ => false end.
Inductive algk := AlgNone | AlgK (k : kty) | AlgUnknown.
(* cryptojwt.jws.utils.alg2keytype restricted to the families used; header "none" is exact in from_jwt *)
Definition alg_kind (a : pystr) : algk :=
  if str_eqb a s_none then AlgNone
  else if starts_with (PS "RS") a || starts_with (PS "PS") a then AlgK KRsa
  else if starts_with (PS "HS") a then AlgK KOct
  else if starts_with (PS "ES") a then AlgK KEc
  else AlgUnknown.

(* what the signature bytes are: a genuine signature by private key s_key over (header with s_alg, s_claims) *)
Record signed := { s_key : nat; s_alg : pystr; s_claims : params }.
(* the encrypted wrapper: a compact JWE.  JOpens = addressed to an encryption key of the provider and intact;
   JNoKey = addressed to a key the provider does not have; JDamaged = truncated / altered (decryption raises).
   j_cty_jwt = the JWE header says cty "JWT" (any letter case): only cryptojwt's JWT.unpack (RequestParam) looks at it.
   j_alg / j_enc = the key-management and content-encryption algorithms of the header (never consulted: see enc_gate) *)
Inductive jwe_state := JOpens | JNoKey | JDamaged.
Record jwe_wrap := { j_alg : pystr; j_enc : pystr; j_cty_jwt : bool; j_state : jwe_state }.
(* the plaintext of a wrapper: a compact JWS | claims as plain JSON (nobody signed them) | anything else *)
Inductive inner :=
| IJws (alg : pystr) (claims : params) (sg : option signed)
| IJson (claims : params)
| IOther.
Inductive wobj :=
| WBad                                                   (* not a compact JWS at all *)
| WObj (alg : pystr) (claims : params) (sg : option signed)
| WEnc (h : jwe_wrap) (i : inner).                       (* a JWE around [i] *)

(* Message.from_jwt, first half: decrypt with the provider's keys, then look at the plaintext: a JWS is verified
   like one that came without wrapper; plaintext that is not a JWS is parsed as JSON and its claims are used as they
   are: an UNSIGNED object (3d11751: judged like one that says alg "none").  A wrapper that does not open, and
   plaintext that is neither, are refused.  Encryption adds no authority: everything downstream sees open_wrapper w. *)
Definition unwrapped (i : inner) : wobj :=
  match i with
  | IJws a c s => WObj a c s
  | IJson c => WObj s_none c None
  | IOther => WBad
  end.
Definition open_wrapper (w : wobj) : wobj :=
  match w with
  | WEnc h i => match j_state h with JOpens => unwrapped i | _ => WBad end
  | _ => w
  end.
Definition is_wrapped (w : wobj) : bool := match w with WEnc _ _ => true | _ => false end.
(* the verified object has no JWS header at all *)
Definition bare_json (w : wobj) : bool := match w with WEnc _ (IJson _) => true | _ => false end.

(* symbolic term of a signature (for the Dolev-Yao statement): Sig k (alg, claims) *)
Definition pv_term (v : pv) : term :=
  match v with
  | PS_ s => Pair (Atom (PS "s")) (Atom s)
  | PL_ l => Pair (Atom (PS "l")) (fold_right (fun s t => Pair (Atom s) t) (Atom []) l)
  end.
Definition claims_term (c : params) : term :=
  fold_right (fun kv t => Pair (Pair (Atom (fst kv)) (pv_term (snd kv))) t) (Atom []) c.
Definition sig_term (k : nat) (alg : pystr) (c : params) : term := Sig k (Pair (Atom alg) (claims_term c)).
Definition wobj_sig_term (w : wobj) : option term :=
  match open_wrapper w with
  | WObj _ _ (Some s) => Some (sig_term (s_key s) (s_alg s) (s_claims s))
  | _ => None
  end.

(* asymmetric keys carry a kid in the header (the kid of the signing key); oct keys do not *)
Definition kid_of (sg : option signed) : option nat :=
  match sg with
  | Some s => match alg_kind (s_alg s) with AlgK KOct => None | AlgK _ => Some (s_key s) | _ => None end
  | None => None
  end.

(* ------------------------------------------------------------------ configuration *)
Inductive regalg := RAbsent | RStr (s : pystr) | RList (l : list pystr).
Record client := {
  c_id : pystr;
  c_reg : regalg;                         (* request_object_signing_alg *)
  c_redirect : list pystr;                (* redirect_uris (bases, no query) *)
  c_request_uris : option (list pystr);   (* request_uris *)
  c_rtypes : list (list pystr);           (* response_types_supported, each split on space *)
  c_enc_alg : option pystr;               (* request_object_encryption_alg *)
  c_enc_enc : option pystr }.             (* request_object_encryption_enc *)
Inductive meth := MReqParam | MPublic | MNoneM.
Inductive hook := HDoRequestUri | HParRequestUri | HPostParse | HOther.
Record cfg := {
  oidc : bool;
  has_par : bool;
  methods : list meth;                    (* usable client-authn methods of the authorization endpoint, in order *)
  methods_configured : bool;              (* endpoint.client_authn_method non-empty *)
  hooks : list hook;                      (* authorization endpoint post_parse_request, as observed *)
  par_hooks : list hook;                  (* pushed authorization endpoint post_parse_request *)
  prov_algs : list pystr;                 (* request_object_signing_alg_values_supported *)
  ru_supported : bool;                    (* request_uri_parameter_supported is not False *)
  ttl : Z;
  jar : list (pystr * list (kty * nat));  (* key jar: issuer -> signature keys; "" = the provider's own *)
  clients : list client;
  prov_enc_algs : option (list pystr);    (* provider_info.get("request_object_encryption_alg_values_supported") *)
  prov_enc_encs : option (list pystr) }.  (* provider_info.get("request_object_encryption_enc_values_supported") *)

Fixpoint find_client (cs : list client) (cid : pystr) : option client :=
  match cs with [] => None | c :: r => if str_eqb cid (c_id c) then Some c else find_client r cid end.
Definition keys_of (j : list (pystr * list (kty * nat))) (iss : pystr) (k : kty) : option (list nat) :=
  match assoc iss j with
  | None => None
  | Some ks => Some (List.map snd (filter (fun e => kty_eqb (fst e) k) ks))
  end.
Definition own_keys (j : list (pystr * list (kty * nat))) (k : kty) : list nat :=
  match keys_of j [] k with Some l => l | None => [] end.

(* AllowedAlgorithms.__call__ (after 4a9cf52: a registered str is compared by name) *)
Definition allowed (g : cfg) (c : client) (alg : pystr) : bool :=
  match c_reg c with
  | RAbsent => str_in alg (prov_algs g)
  | RStr s => str_eqb alg s
  | RList l => str_in alg l
  end.

(* ------------------------------------------------------------------ verification of a JWS *)
Inductive vres := VOk (k : nat) | VNoSuitable | VBadSig.
(* JWS.verify_compact: pick_keys (kid filter) then try every picked key *)
Definition try_verify (cands : list nat) (alg : pystr) (claims : params) (sg : option signed) : vres :=
  let picked := match kid_of sg with Some k => filter (Nat.eqb k) cands | None => cands end in
  match picked with
  | [] => VNoSuitable
  | _ => match sg with
         | Some s => if existsb (Nat.eqb (s_key s)) picked && str_eqb (s_alg s) alg && params_eqb (s_claims s) claims
                     then VOk (s_key s) else VBadSig
         | None => VBadSig
         end
  end.
(* KeyJar.get_jwt_verify_keys: issuer = payload iss, else kwargs issuer, else own keys.
   None = IssuerNotFound *)
Definition lookup_keys (g : cfg) (iss : option pystr) (k : kty) (kid : option nat) : option (list nat) :=
  match iss with
  | Some i =>
      match keys_of (jar g) i k with
      | None => None
      | Some ks =>
          let sel := match kid with
                     | Some n => filter (Nat.eqb n) ks
                     | None => match ks with [x] => [x] | _ => [] end
                     end in
          Some (List.app sel (match k with KOct => own_keys (jar g) KOct | _ => [] end))
      end
  | None => Some (own_keys (jar g) k)
  end.
Definition iss_for (claims : params) (fallback : option pystr) : option pystr :=
  match assoc k_iss claims with
  | Some (PS_ (c :: s)) => Some (c :: s)
  | Some (PS_ []) => fallback
  | Some (PL_ _) => fallback      (* not generated *)
  | None => fallback
  end.

Record vreq := { v_alg : pystr; v_claims : params; v_key : option nat }.
Inductive fres :=
| FOk (v : vreq) | FMalformed | FUnmodelled
| FIssuerNotFound | FMissingKey | FNoSuitable | FBadSig.

(* objects that carry a nested request / request_uri / id_token_hint / prompt are outside the modelled fragment *)
Fixpoint nodup_keys (c : params) : bool :=
  match c with [] => true | kv :: r => negb (has_key (fst kv) r) && nodup_keys r end.
Definition claims_modelled (c : params) : bool :=
  nodup_keys c && negb (has_key k_request c) && negb (has_key k_request_uri c) && negb (has_key k_id_token_hint c)
  && negb (has_key k_prompt c) && negb (has_key k_authenticated c).

(* Message.from_jwt *)
Definition from_jwt (g : cfg) (fallback : option pystr) (w : wobj) : fres :=
  match open_wrapper w with
  | WBad => FMalformed
  | WEnc _ _ => FMalformed          (* open_wrapper never answers this: one layer is opened, a JWE inside is IOther *)
  | WObj alg claims sg =>
      if negb (claims_modelled claims) then FUnmodelled else
      match alg_kind alg with
      | AlgUnknown => FUnmodelled
      | AlgNone => FOk {| v_alg := alg; v_claims := claims; v_key := None |}
      | AlgK k =>
          match lookup_keys g (iss_for claims fallback) k (kid_of sg) with
          | None => FIssuerNotFound
          | Some [] => FMissingKey
          | Some cands =>
              match try_verify cands alg claims sg with
              | VOk n => FOk {| v_alg := alg; v_claims := claims; v_key := Some n |}
              | VNoSuitable => FNoSuitable
              | VBadSig => FBadSig
              end
          end
      end
  end.

(* ------------------------------------------------------------------ requests, outcomes, state *)
Record req := { r_params : params; r_vr : option vreq }.
Inductive outcome :=
| Acc (r : req)
| ErrResp (code desc : N) (st : option pv)    (* an error message is returned *)
| Exc (tag : N)                               (* an exception leaves parse_request *)
| AnyRefusal                                  (* malformed object: refused, exception class not modelled *)
| OUnmodelled.

(* exception tags (harness/srv_c16.py EXC_TAG) *)
Definition x_cae : N := 1.      Definition x_unknown_client : N := 2.   Definition x_unauthorized : N := 3.
Definition x_missing_key : N := 4.  Definition x_no_suitable : N := 5.  Definition x_bad_sig : N := 6.
Definition x_value : N := 7.    Definition x_service : N := 8.          Definition x_key : N := 9.
Definition x_expired : N := 12. Definition x_unresolved : N := 13.      Definition x_unregistered_uri : N := 14.
Definition x_alg : N := 15.     Definition x_issuer_nf : N := 16.
Definition x_missing_attr : N := 17.  Definition x_missing_value : N := 18.
Definition x_attr : N := 11.    Definition x_type : N := 19.
(* error codes / descriptions *)
Definition e_invalid_request : N := 1.  Definition e_unauthorized_client : N := 2.
Definition d_alg : N := 1.  Definition d_rtype : N := 2.  Definition d_redirect : N := 3.  Definition d_unknown : N := 4.
Definition d_missing : N := 5.  Definition d_openid : N := 6.  Definition d_param : N := 7.  Definition d_rt_missing : N := 8.
Definition d_belongs : N := 10.  Definition d_par_ru : N := 11.

Record entry := { e_req : req; e_exp : Z }.
Record state := { par_db : list (pystr * entry); now : Z }.
Definition docs := list (pystr * wobj).       (* what the stub httpc serves: url -> document *)

(* ------------------------------------------------------------------ client authentication (authorization endpoint) *)
Inductive rpres := RpContinue | RpRaise | RpIdent (cid : pystr) | RpAny | RpUnmodelled.
(* RequestParam._verify: JWT(keyjar).unpack(request["request"]) then client_id = iss *)
Definition request_param_plain (g : cfg) (w : wobj) : rpres :=
  match w with
  | WBad => RpAny
  | WEnc _ _ => RpContinue
  | WObj alg claims sg =>
      match alg_kind alg with
      | AlgUnknown => RpUnmodelled
      | AlgNone => RpContinue                     (* SignerAlgError: none not allowed *)
      | AlgK k =>
          match lookup_keys g (iss_for claims None) k (kid_of sg) with
          | None => RpContinue                    (* IssuerNotFound *)
          | Some cands =>
              match try_verify cands alg claims sg with
              | VOk _ => match assoc k_iss claims with
                         | Some (PS_ i) => RpIdent i
                         | Some (PL_ _) => RpUnmodelled
                         | None => RpContinue      (* KeyError 'iss' *)
                         end
              | VNoSuitable => RpContinue
              | VBadSig => RpRaise                (* BadSignature -> ClientAuthenticationError *)
              end
          end
      end
  end.

(* cryptojwt JWT.unpack of a JWE: decrypt (any failure is an exception the method loop skips over); a header
   cty "JWT" => the plaintext is verified as a JWS like an unwrapped one (plaintext that is not a JWS: `raise
   Exception()`, skipped); any other / no cty => the plaintext is read as JSON and, when it is JSON, comes back as
   plain claims WITHOUT a signature header (a JWS is not JSON: the raw text comes back).  f092826: what comes back
   without `jws_header` has not been authenticated by anybody: RequestParam._verify raises ValueError, the method
   gives up and verify_client goes on with the next method - exactly as for the other unsigned rows (alg "none",
   no suitable key).  No identity ever comes from claims nobody signed. *)
Definition request_param (g : cfg) (w : wobj) : rpres :=
  match w with
  | WEnc h i =>
      match j_state h with
      | JOpens =>
          if j_cty_jwt h then
            match i with IJws a c s => request_param_plain g (WObj a c s) | _ => RpContinue end
          else RpContinue
      | _ => RpContinue
      end
  | _ => request_param_plain g w
  end.

Inductive authn :=
| AIdent (cid : pystr) (m : meth) | ANothing | ANoCid | ARaise (tag : N) | AAny | AUnmodelled.
Definition finish (g : cfg) (cid : pystr) (m : meth) : authn :=
  match find_client (clients g) cid with Some _ => AIdent cid m | None => ARaise x_unknown_client end.
Fixpoint authn_loop (g : cfg) (ms : list meth) (p : params) (w : option wobj) : authn :=
  match ms with
  | [] => ANothing
  | MReqParam :: r =>
      if has_key k_request p then
        match w with
        | None => AUnmodelled
        | Some w' => match request_param g w' with
                     | RpContinue => authn_loop g r p w
                     | RpRaise => ARaise x_cae
                     | RpIdent i => finish g i MReqParam
                     | RpAny => AAny
                     | RpUnmodelled => AUnmodelled
                     end
        end
      else authn_loop g r p w
  | MPublic :: r =>
      match assoc k_client_id p with
      | Some (PS_ c) => finish g c MPublic
      | Some (PL_ _) => AUnmodelled
      | None => authn_loop g r p w
      end
  | MNoneM :: r =>
      match assoc k_client_id p with
      | Some (PS_ c) => finish g c MNoneM
      | Some (PL_ _) => AUnmodelled
      | None => ANoCid
      end
  end.

(* ------------------------------------------------------------------ Message.verify: required parameters *)
Definition required (is_oidc : bool) : list pystr :=
  if is_oidc then [k_response_type; k_client_id; k_scope; k_redirect_uri] else [k_response_type; k_client_id].
Definition missing_required (is_oidc : bool) (p : params) : bool :=
  existsb (fun k => negb (has_key k p)) (required is_oidc).

Definition in_pv (s : pystr) (v : option pv) : bool :=
  match v with Some (PL_ l) => str_in s l | Some (PS_ x) => contains s x | None => false end.

(* from_jwt failures inside request.verify(), seen through Endpoint.verify_request *)
Definition fres_exc_verify (f : fres) : outcome :=
  match f with
  | FOk _ => OUnmodelled
  | FMalformed => AnyRefusal
  | FUnmodelled => OUnmodelled
  | FIssuerNotFound => Exc x_value            (* error_cls(error=<exception>) raises ValueError *)
  | FMissingKey => Exc x_missing_key
  | FNoSuitable => Exc x_no_suitable
  | FBadSig => Exc x_bad_sig
  end.

(* the parameters that take the value-dependent checks outside the modelled fragment *)
Definition outer_modelled (p : params) : bool :=
  negb (has_key k_id_token_hint p) && negb (has_key k_prompt p).

(* the `request` parameter: from_jwt, then merge (strict: drop what the object does not carry; lax: keep) and
   remember the verified object.  oauth2.AuthorizationRequest.verify (strict) / PushedAuthorizationRequest.verify (lax) *)
Definition merge_obj (strict : bool) (g : cfg) (p : params) (w : option wobj) : outcome :=
  match assoc k_request p with
  | Some (PS_ _) =>
      match w with
      | None => OUnmodelled
      | Some w' => match from_jwt g None w' with
                   | FOk v => Acc {| r_params := update (if strict then restrict p (v_claims v) else p) (v_claims v);
                                     r_vr := Some v |}
                   | f => fres_exc_verify f
                   end
      end
  | Some (PL_ _) => OUnmodelled
  | None => Acc {| r_params := p; r_vr := None |}
  end.

(* oidc.AuthorizationRequest.verify: the checks after the merge *)
Definition oidc_checks (r : req) : outcome :=
  let q := r_params r in
  match assoc k_response_type q with
  | None => ErrResp e_invalid_request d_missing None
  | Some rt =>
      if in_pv s_id_token (Some rt) then OUnmodelled          (* nonce rules: not modelled *)
      else if negb (in_pv s_openid (assoc k_scope q)) then ErrResp e_invalid_request d_openid None
      else if in_pv s_offline (assoc k_scope q) then OUnmodelled
      else Acc r
  end.

(* oauth2/oidc AuthorizationRequest.verify as called from Endpoint.verify_request *)
Definition verify_authz (g : cfg) (p : params) (w : option wobj) : outcome :=
  if negb (outer_modelled p) then OUnmodelled else
  if missing_required (oidc g) p then ErrResp e_invalid_request d_missing None else
  match merge_obj true g p w with
  | Acc r => if oidc g then oidc_checks r else Acc r
  | o => o
  end.

(* ------------------------------------------------------------------ post_parse_request hooks *)
Definition err_state (r : req) : option pv :=
  match assoc k_state (r_params r) with
  | Some (PS_ []) => None | Some (PL_ []) => None
  | x => x
  end.

(* 153df1e: once the request object fetched from a request_uri has been merged in, the assembled request is verified
   as a whole (Endpoint.verify_request with resolved=True): required parameters, then the OIDC checks *)
Definition reverify (g : cfg) (m : req) : outcome :=
  if missing_required (oidc g) (r_params m) then ErrResp e_invalid_request d_missing None
  else if oidc g then oidc_checks m else Acc m.

(* the two AllowedAlgorithms calls _do_request_uri makes when the fetched object came in a JWE: both are given a
   value of the JWS header ("alg", then "enc": there is none), never the JWE header, so no wrapped object passes:
   registered request_object_encryption_alg (else the provider's supported set; absent: `in None` is a TypeError)
   must contain the SIGNING algorithm, and then nothing contains None.  By value and pushed, the registered
   request_object_encryption_alg / _enc are not consulted at all (from_jwt is called without encalg / encenc). *)
Definition enc_gate (g : cfg) (c : client) (alg : pystr) : N :=
  match (match c_enc_alg c with Some s => Some [s] | None => prov_enc_algs g end) with
  | None => x_type
  | Some l =>
      if negb (str_in alg l) then x_alg
      else match (match c_enc_enc c with Some s => Some [s] | None => prov_enc_encs g end) with
           | None => x_type
           | Some _ => x_alg
           end
  end.

(* Authorization._do_request_uri; returns the new state, the outcome and the urn that was redeemed *)
Definition do_request_uri (g : cfg) (d : docs) (st : state) (r : req) (cid : option pystr)
  : state * outcome * option pystr :=
  match assoc k_request_uri (r_params r) with
  | None => (st, Acc r, None)
  | Some (PL_ _) => (st, OUnmodelled, None)
  | Some (PS_ []) => (st, Acc r, None)
  | Some (PS_ ru) =>
      if has_par g && starts_with s_urn ru then
        match assoc ru (par_db st) with
        | Some e =>
            let st' := {| par_db := adel ru (par_db st); now := now st |} in    (* one time usage *)
            if (e_exp e <? now st)%Z then (st', Exc x_expired, None)
            else (st', Acc (e_req e), Some ru)
        | None => (st, Exc x_unresolved, None)
        end
      else if negb (ru_supported g) then (st, Exc x_service, None)
      else
        match match cid with Some c => find_client (clients g) c | None => None end with
        | None => (st, Exc x_key, None)                                            (* context.cdb[client_id] *)
        | Some c =>
            let base := match split_c 35 ru with b :: _ => b | [] => ru end in
            let registered_ok := match c_request_uris c with
                                 | Some (x :: l) => str_in base (x :: l)
                                 | _ => true
                                 end in
            if negb registered_ok then (st, Exc x_unregistered_uri, None) else
            match assoc ru d with
            | None => (st, Exc x_service, None)                                    (* status != 200 *)
            | Some w =>
                match from_jwt g cid w with
                | FOk v =>
                    if bare_json w then (st, Exc x_attr, None)          (* _ver_request.jws_header is None *)
                    else if negb (allowed g c (v_alg v)) then (st, Exc x_alg, None)
                    else if is_wrapped w then (st, Exc (enc_gate g c (v_alg v)), None)
                    else (st, reverify g {| r_params := update (r_params r) (v_claims v); r_vr := Some v |}, None)
                | FMalformed => (st, AnyRefusal, None)
                | FUnmodelled => (st, OUnmodelled, None)
                | FIssuerNotFound => (st, Exc x_issuer_nf, None)
                | FMissingKey => (st, Exc x_missing_key, None)
                | FNoSuitable => (st, Exc x_no_suitable, None)
                | FBadSig => (st, Exc x_bad_sig, None)
                end
            end
        end
  end.

(* the object speaks for the identified client only (8cf932d) *)
Definition belongs (cid : pystr) (r : req) (v : vreq) : bool :=
  let signed := negb (str_eqb (v_alg v) s_none) in
  match assoc k_client_id (v_claims v) with None => true | Some x => pv_eqb x (PS_ cid) end
  && match assoc k_client_id (r_params r) with None => true | Some x => pv_eqb x (PS_ cid) end
  && match assoc k_iss (v_claims v) with None => negb signed | Some x => pv_eqb x (PS_ cid) end.

Definition set_eqb (a b : list pystr) : bool :=
  forallb (fun x => str_in x b) a && forallb (fun x => str_in x a) b.

(* redirect URIs are compared as opaque strings; anything urllib would treat specially is not modelled *)
Definition simple_uri_char (c : N) : bool :=
  ((48 <=? c) && (c <=? 58) || (65 <=? c) && (c <=? 90) || (97 <=? c) && (c <=? 122)
   || (c =? 47) || (c =? 46) || (c =? 95) || (c =? 45))%N.
Definition simple_uri (u : pystr) : bool :=
  forallb simple_uri_char u && starts_with (PS "https://") u
  && negb (contains (PS ":") (skipn 8 u)) && negb (Nat.eqb (List.length u) 8)
  && negb (starts_with (PS "/") (skipn 8 u)).

(* get_uri(context, request, "redirect_uri", endpoint_type) *)
Definition get_uri (g : cfg) (r : req) : pystr + outcome :=
  match assoc k_redirect_uri (r_params r) with
  | Some (PS_ u) =>
      match get_s k_client_id (r_params r) with
      | None => inr (Exc x_unknown_client)                        (* "No client_id provided" *)
      | Some c =>
          match find_client (clients g) c with
          | None => inr (Exc x_key)
          | Some ci =>
              if negb (simple_uri u && forallb simple_uri (c_redirect ci)) then inr OUnmodelled
              else match c_redirect ci with
                   | [] => if oidc g then inr (ErrResp e_invalid_request d_redirect (err_state r)) else inl u
                   | l => if str_in u l then inl u else inr (ErrResp e_invalid_request d_redirect (err_state r))
                   end
          end
      end
  | Some (PL_ _) => inr OUnmodelled
  | None =>
      match assoc k_client_id (r_params r) with
      | None => inr (Exc x_key)
      | Some (PL_ _) => inr OUnmodelled
      | Some (PS_ c) =>
          match find_client (clients g) c with
          | None => inr (Exc x_unknown_client)
          | Some ci => match c_redirect ci with
                       | [u] => inl u
                       | _ => inr (ErrResp e_invalid_request d_param (err_state r))
                       end
          end
      end
  end.

(* Authorization._post_parse_request *)
Definition post_parse (g : cfg) (r : req) (cid : option pystr) : outcome :=
  match r_params r with
  | [] => ErrResp e_invalid_request 9 None
  | _ =>
  match match cid with Some c => match find_client (clients g) c with Some ci => Some (c, ci) | None => None end
                     | None => None end with
  | None => if has_key k_client_id (r_params r)
            then ErrResp e_unauthorized_client d_unknown (err_state r) else Exc x_key
  | Some (c, ci) =>
      let own := match r_vr r with Some v => belongs c r v | None => true end in
      if negb own then ErrResp e_invalid_request d_belongs (err_state r) else
      let alg_ok := match r_vr r with Some v => allowed g ci (v_alg v) | None => true end in
      if negb alg_ok then ErrResp e_invalid_request d_alg (err_state r) else
      match assoc k_response_type (r_params r) with
      | None => Exc x_key
      | Some (PS_ _) => OUnmodelled
      | Some (PL_ rt) =>
          let registered := match c_rtypes ci with [] => [[PS "code"]] | l => l end in
          if negb (existsb (set_eqb rt) registered) then ErrResp e_invalid_request d_rtype (err_state r) else
          match get_uri g r with
          | inl u => Acc {| r_params := aset k_redirect_uri (PS_ u) (r_params r); r_vr := r_vr r |}
          | inr o => o
          end
      end
  end
  end.

(* PushedAuthorization._do_request_uri (df3f9f0) *)
Definition par_request_uri (r : req) : outcome :=
  match assoc k_request_uri (r_params r) with
  | None => Acc r
  | Some (PS_ []) => Acc r
  | Some (PL_ []) => Acc r
  | Some _ => ErrResp e_invalid_request d_par_ru (err_state r)
  end.

(* Endpoint.do_post_parse_request *)
Fixpoint run_hooks (g : cfg) (d : docs) (hs : list hook) (st : state) (r : req) (cid : option pystr)
  (via : option pystr) : state * outcome * option pystr :=
  match hs with
  | [] => (st, Acc r, via)
  | h :: rest =>
      match h with
      | HDoRequestUri =>
          let '(st', o, v) := do_request_uri g d st r cid in
          let via' := match v with Some _ => v | None => via end in
          match o with Acc r' => run_hooks g d rest st' r' cid via' | _ => (st', o, None) end
      | HParRequestUri =>
          match par_request_uri r with Acc r' => run_hooks g d rest st r' cid via | o => (st, o, None) end
      | HPostParse =>
          match post_parse g r cid with Acc r' => run_hooks g d rest st r' cid via | o => (st, o, None) end
      | HOther => (st, OUnmodelled, None)
      end
  end.

(* ------------------------------------------------------------------ the authorization endpoint: parse_request *)
Definition authz_parse (g : cfg) (d : docs) (st : state) (outer : params) (w : option wobj)
  : state * outcome * option pystr :=
  let ident :=
    match authn_loop g (methods g) outer w with
    | AIdent c m =>
        let p1 := aset k_client_id (PS_ c) outer in
        inl (match m with MReqParam => aset k_authenticated (PS_ s_true) p1 | _ => p1 end, Some c)
    | ANothing => if methods_configured g then inr (Exc x_unauthorized) else inl (outer, get_s k_client_id outer)
    | ANoCid => inl (outer, None)
    | ARaise t => inr (Exc t)
    | AAny => inr AnyRefusal
    | AUnmodelled => inr OUnmodelled
    end in
  match ident with
  | inr o => (st, o, None)
  | inl (p, cid) =>
      match verify_authz g p w with
      | Acc r => run_hooks g d (hooks g) st r cid None
      | o => (st, o, None)
      end
  end.

(* ------------------------------------------------------------------ the pushed authorization endpoint *)
(* parse_request with valid credentials of [pusher]: PushedAuthorizationRequest.verify = lax merge *)
Definition par_parse (g : cfg) (st : state) (pusher : pystr) (body : params) (w : option wobj) : outcome :=
  match find_client (clients g) pusher with
  | None => OUnmodelled
  | Some _ =>
      if negb (outer_modelled body) then OUnmodelled else
      let p := aset k_authenticated (PS_ s_true) (aset k_client_id (PS_ pusher) body) in
      let merged := merge_obj false g p w in
      match merged with
      | Acc r =>
          if missing_required false (r_params r) then ErrResp e_invalid_request d_missing None
          else let '(_, o, _) := run_hooks g [] (par_hooks g) st r (Some pusher) None in o
      | o => o
      end
  end.

Inductive pushres := PUrn (expires_in : Z) | PStoredExc (tag : N) | PExc (tag : N) | PNone | PUnmodelled.
(* process_request: AuthorizationRequest(request).verify() = strict merge again; store under the urn *)
(* 2492cd8: the request is parsed with the authorization endpoint's class, so an OIDC provider applies the OIDC
   checks at push time (they raise: process_request does not turn them into error responses) *)
Definition par_class_checks (g : cfg) (s : req) : option N :=
  if negb (oidc g) then None else
  if negb (has_key k_client_id (r_params s)) then Some x_key else      (* args["opponent_id"] = self["client_id"] after the strict merge *)
  match oidc_checks s with
  | Acc _ => None
  | ErrResp _ dd _ => Some (if (dd =? d_openid)%N then x_missing_value else x_missing_attr)
  | _ => Some 0%N          (* outside the modelled fragment; par_process answers PUnmodelled *)
  end.
Definition par_process (g : cfg) (st : state) (r : req) (w : option wobj) (urn : pystr) : state * pushres :=
  if oidc g && missing_required true (r_params r) then (st, PExc x_missing_attr) else
  let stored := merge_obj true g (r_params r) w in
  match stored with
  | Acc s =>
      match par_class_checks g s with
      | Some 0%N => (st, PUnmodelled)
      | Some t => (st, PExc t)
      | None =>
      let st' := {| par_db := aset urn {| e_req := s; e_exp := now st + ttl g |} (par_db st); now := now st |} in
      if has_key k_redirect_uri (r_params s) then (st', PUrn (ttl g)) else (st', PStoredExc x_key)
      end
  | Exc t => (st, PExc t)
  | AnyRefusal => (st, PExc 0)
  | _ => (st, PUnmodelled)
  end.

(* ------------------------------------------------------------------ the machine *)
Inductive op :=
| OAuthz (outer : params) (w : option wobj)                          (* authorization endpoint parse_request *)
| OPush (pusher : pystr) (body : params) (w : option wobj) (urn : pystr)   (* PAR: parse + process; urn as drawn *)
| OTick (dt : Z).

Inductive result :=
| RAuthz (o : outcome) (via : option pystr)
| RPush (o : outcome) (p : pushres)
| RTick.

Definition step (g : cfg) (d : docs) (st : state) (o : op) : state * result :=
  match o with
  | OAuthz outer w => let '(st', out, via) := authz_parse g d st outer w in (st', RAuthz out via)
  | OPush pusher body w urn =>
      match par_parse g st pusher body w with
      | Acc r => let '(st', p) := par_process g st r w urn in (st', RPush (Acc r) p)
      | out => (st, RPush out PNone)
      end
  | OTick dt => ({| par_db := par_db st; now := now st + dt |}, RTick)
  end.

Fixpoint run (g : cfg) (d : docs) (st : state) (ops : list op) : list (state * result) :=
  match ops with
  | [] => []
  | o :: rest => let '(st', r) := step g d st o in (st', r) :: run g d st' rest
  end.

Definition init (t0 : Z) : state := {| par_db := []; now := t0 |}.

(* ------------------------------------------------------------------ vocabulary of the statements in Props/C16.v *)
Definition pushed_urn (o : op) : list pystr := match o with OPush _ _ _ u => [u] | _ => [] end.
Definition pushed_urns (ops : list op) : list pystr := flat_map pushed_urn ops.
(* the request_uri through which a pushed request was redeemed (the authorization request was accepted) *)
Definition redeemed_of (r : result) : list pystr := match r with RAuthz (Acc _) (Some u) => [u] | _ => [] end.
Definition redeemed (l : list (state * result)) : list pystr := flat_map (fun sr => redeemed_of (snd sr)) l.
Definition tick_ok (o : op) : Prop := match o with OTick dt => (0 <= dt)%Z | _ => True end.

(* ghost history: (request_uri issued, time of the push, lifetime announced) of every push that stored a request *)
Definition hist := list (pystr * Z * Z).
Definition hist_after (g : cfg) (st : state) (o : op) (r : result) (h : hist) : hist :=
  match o, r with
  | OPush _ _ _ u, RPush (Acc _) (PUrn e) => (u, now st, e) :: h
  | OPush _ _ _ u, RPush (Acc _) (PStoredExc _) => (u, now st, ttl g) :: h
  | _, _ => h
  end.
Fixpoint run_h (g : cfg) (d : docs) (st : state) (h : hist) (ops : list op) : list (state * result * hist) :=
  match ops with
  | [] => []
  | o :: rest => let '(st', r) := step g d st o in
                 let h' := hist_after g st o r h in
                 (st', r, h') :: run_h g d st' h' rest
  end.
(* the state of the provider after a history of operations *)
Definition state_after (g : cfg) (d : docs) (t0 : Z) (pre : list op) : state :=
  fold_left (fun st o => fst (step g d st o)) pre (init t0).
(* a wrapper that opens onto JSON claims (whatever its cty header says), or onto a JWS and says cty "JWT" in its
   header.  (RequestParam reads a wrapper WITHOUT cty "JWT" around a JWS as raw text and gives up, where it would
   identify the signer of the bare JWS: the wrapper then carries LESS authority than its content.) *)
Definition opens_on_claims (w : wobj) : Prop :=
  match w with
  | WEnc h i => j_state h = JOpens /\
                match i with IJson _ => True | IJws _ _ _ => j_cty_jwt h = true | IOther => False end
  | _ => True
  end.

(* ------------------------------------------------------------------ dynamic client registration: how a client's
   request_object_signing_alg gets into the client database (idpyoidc.server.oidc.registration.Registration:
   filter_client_request / match_claim, then do_client_registration copies what is left into the record).
   Only the part C16 depends on is transcribed: everything else about the request (redirect URIs, sector, ...) is
   C19's subject and enters as the flag rq_ok and the ready-made rest of the record rq_rest. *)
Record regreq := {
  rq_alg : option pystr;       (* request_object_signing_alg the client asks for (None: it does not say) *)
  rq_ok : bool;                (* the rest of the request is acceptable *)
  rq_rest : client }.          (* the record the provider builds (id it assigned, redirect URIs, ...); c_reg ignored *)
(* match_claim for a single-valued claim: a value the provider advertises is kept, any other value is dropped and the
   registration goes on without it (the response then lacks the parameter: the provider's supported set applies).
   The provider's OWN signing keys play no part: request objects are verified with the client's keys. *)
Definition negotiate (g : cfg) (a : option pystr) : regalg :=
  match a with
  | Some x => if str_in x (prov_algs g) then RStr x else RAbsent
  | None => RAbsent
  end.
Definition with_reg (c : client) (r : regalg) : client :=
  {| c_id := c_id c; c_reg := r; c_redirect := c_redirect c; c_request_uris := c_request_uris c; c_rtypes := c_rtypes c;
     c_enc_alg := c_enc_alg c; c_enc_enc := c_enc_enc c |}.
(* cdb[client_id] = record: a new key of the client database *)
Definition add_client (g : cfg) (ci : client) : cfg :=
  {| oidc := oidc g; has_par := has_par g; methods := methods g; methods_configured := methods_configured g;
     hooks := hooks g; par_hooks := par_hooks g; prov_algs := prov_algs g; ru_supported := ru_supported g; ttl := ttl g;
     jar := jar g; clients := (clients g ++ [ci])%list; prov_enc_algs := prov_enc_algs g; prov_enc_encs := prov_enc_encs g |}.
(* RegStored g' ci: 201; g' = the provider afterwards, ci = the record stored = what the registration response echoes
   and the registration-read endpoint returns.  RegRefused: an error response; the provider is as before. *)
Inductive regres := RegRefused | RegStored (g' : cfg) (ci : client) | RegUnmodelled.
Definition register (g : cfg) (rq : regreq) : regres :=
  if negb (rq_ok rq) then RegRefused else
  match c_id (rq_rest rq) with
  | [] => RegUnmodelled
  | _ =>
      match find_client (clients g) (c_id (rq_rest rq)) with
      | Some _ => RegUnmodelled          (* the id generator only hands out ids that are not in use *)
      | None => let ci := with_reg (rq_rest rq) (negotiate g (rq_alg rq)) in RegStored (add_client g ci) ci
      end
  end.
