(* Model/JarCheck.v — what the C16 harness observes on the real endpoints, and the trace checker that
   re-computes the model's answer (Model/Jar.v) and compares.  Evaluated by vm_compute over generated cases. *)
From Coq Require Import String.
From Verif Require Import Lib.Base.
From Verif Require Import Lib.PyStr.
From Verif Require Import Lib.Crypto.
From Verif Require Import Model.Jar.
Open Scope string_scope.

(* observed outcome of a parse_request *)
Inductive obs_out :=
| BAcc (vr : bool) (p : params)            (* a request came back: __verified_request present?, parameters *)
| BErr (code desc : N) (st : option pv)    (* an error response came back *)
| BExc (tag : N).                          (* an exception was raised *)
Inductive obs_push := BUrn (expires_in : Z) | BPExc (tag : N) | BPNone.
Inductive obs :=
| BAuthz (o : obs_out) (keys : list pystr)                                     (* + par_db keys afterwards *)
| BPush (o : obs_out) (p : obs_push) (stored : option (bool * params * Z)) (keys : list pystr)
| BTick.

Definition opt_pv_eqb (a b : option pv) : bool := option_eqb pv_eqb a b.
Definition is_some {A} (o : option A) : bool := match o with Some _ => true | None => false end.

Definition out_matches (m : outcome) (b : obs_out) : bool :=
  match m, b with
  | Acc r, BAcc vr p => Bool.eqb (is_some (r_vr r)) vr && params_equiv (r_params r) p
  | ErrResp c d s, BErr c' d' s' => (c =? c')%N && (d =? d')%N && opt_pv_eqb s s'
  | Exc t, BExc t' => (t =? t')%N
  | AnyRefusal, BErr _ _ _ => true
  | AnyRefusal, BExc _ => true
  | _, _ => false
  end.
Definition push_matches (m : pushres) (b : obs_push) : bool :=
  match m, b with
  | PUrn e, BUrn e' => (e =? e')%Z
  | PStoredExc t, BPExc t' => (t =? t')%N
  | PExc t, BPExc t' => (t =? t')%N || (t =? 0)%N
  | PNone, BPNone => true
  | _, _ => false
  end.
Definition keys_match (st : state) (keys : list pystr) : bool :=
  set_eqb (List.map fst (par_db st)) keys && Nat.eqb (List.length (par_db st)) (List.length keys).

(* the theorems of Props/C16.v assume the last hook is _post_parse_request and no client has an empty id *)
Definition cfg_wf (g : cfg) : bool :=
  match List.rev (hooks g) with HPostParse :: _ => true | _ => false end
  && forallb (fun c => match c_id c with [] => false | _ => true end) (clients g)
  && forallb (fun h => match h with HOther => false | _ => true end) (hooks g)
  && forallb (fun h => match h with HOther => false | _ => true end) (par_hooks g).

Definition result_matches (st0 st' : state) (op_ : op) (m : result) (b : obs) : bool :=
  match m, b with
  | RAuthz o _, BAuthz o' keys => out_matches o o' && keys_match st' keys
  | RPush o p, BPush o' p' stored keys =>
      out_matches o o' && push_matches p p' && keys_match st' keys
      && match op_, stored with
         | OPush _ _ _ urn, Some (vr, ps, remaining) =>
             match assoc urn (par_db st') with
             | Some e => Bool.eqb (is_some (r_vr (e_req e))) vr && params_equiv (r_params (e_req e)) ps
                         && (e_exp e - now st' =? remaining)%Z
             | None => false
             end
         | OPush _ _ _ urn, None => match p with PUrn _ | PStoredExc _ => false | _ => true end
         | _, _ => false
         end
  | RTick, BTick => true
  | _, _ => false
  end.

Fixpoint check_trace (g : cfg) (d : docs) (st : state) (tr : list (op * obs)) : bool :=
  match tr with
  | [] => true
  | (o, b) :: rest =>
      let '(st', r) := step g d st o in
      result_matches st st' o r b && check_trace g d st' rest
  end.

Definition jcase := (cfg * docs * Z * list (op * obs))%type.
Definition chk_case (c : jcase) : bool :=
  let '(g, d, t0, tr) := c in cfg_wf g && check_trace g d (init t0) tr.

(* diagnostics: the model's results along the trace *)
Definition model_results (c : jcase) : list result :=
  let '(g, d, t0, tr) := c in List.map snd (run g d (init t0) (List.map fst tr)).

(* ---- short names for the strings that recur in generated case files (harness/drv_C16.py CONST) *)
Definition k_aud := PS "aud".
Definition s_c1 := PS "client_1".
Definition s_c2 := PS "client_2".
Definition s_r1 := PS "https://client_1.example.com/cb".
Definition s_r2 := PS "https://client_2.example.com/cb".
Definition s_email := PS "email".
Definition s_code := PS "code".
Definition s_op := PS "https://example.com/".
Definition s_jws := PS "<JWS>".
Definition s_es256 := PS "ES256".
Definition s_hs256 := PS "HS256".
Definition s_rs384 := PS "RS384".
Definition s_in0 := PS "in0".
Definition s_out0 := PS "out0".
Definition s_doc0 := PS "https://client_1.example.com/ro/0".
(* a genuine, untampered object: the signature covers exactly the header algorithm and the claims that travel *)
Definition wgen (alg : pystr) (claims : params) (k : nat) : wobj :=
  WObj alg claims (Some {| s_key := k; s_alg := alg; s_claims := claims |}).
Definition wsig (alg : pystr) (claims : params) (k : nat) (salg : pystr) (sclaims : params) : wobj :=
  WObj alg claims (Some {| s_key := k; s_alg := salg; s_claims := sclaims |}).
(* wrapped objects: header (alg, enc, cty = JWT?, what decryption does) around a JWS / bare JSON claims / other text *)
Definition s_rsa_oaep := PS "RSA-OAEP".
Definition s_ecdh_es := PS "ECDH-ES".
Definition s_a256gcm := PS "A256GCM".
Definition s_a128gcm := PS "A128GCM".
Definition jhdr (alg enc : pystr) (cty : bool) (st : jwe_state) : jwe_wrap :=
  {| j_alg := alg; j_enc := enc; j_cty_jwt := cty; j_state := st |}.
Definition inner_of (w : wobj) : inner :=
  match w with WObj a c s => IJws a c s | _ => IOther end.
Definition wenc (h : jwe_wrap) (w : wobj) : wobj := WEnc h (inner_of w).
Definition wencj (h : jwe_wrap) (claims : params) : wobj := WEnc h (IJson claims).

(* ---- compact cases: the static part of the observed configuration (key jar, redirect URIs and response types
   of the clients) is given once per shard, the variable part per case *)
Definition cfgvar := (bool * bool * list meth * bool * list hook * list hook * option (list pystr) * bool * Z
                      * list (pystr * regalg * option (list pystr) * option pystr * option pystr)
                      * option (list pystr) * option (list pystr))%type.
Definition ccase := (cfgvar * docs * Z * list (op * obs))%type.
Definition cbase := list (pystr * list pystr * list (list pystr)).
Fixpoint find_base (b : cbase) (cid : pystr) : list pystr * list (list pystr) :=
  match b with
  | [] => ([], [])
  | (c, red, rts) :: r => if str_eqb cid c then (red, rts) else find_base r cid
  end.
Definition expand (j : list (pystr * list (kty * nat))) (b : cbase) (dp : list pystr) (v : cfgvar) : cfg :=
  let '(o, hp, ms, mc, hs, phs, pa, rus, t, cl, pea, pee) := v in
  {| oidc := o; has_par := hp; methods := ms; methods_configured := mc; hooks := hs; par_hooks := phs;
     prov_algs := match pa with Some l => l | None => dp end; ru_supported := rus; ttl := t; jar := j;
     clients := List.map (fun e => let '(cid, reg, rus', ea, ee) := e in
                                   let '(red, rts) := find_base b cid in
                                   {| c_id := cid; c_reg := reg; c_redirect := red; c_request_uris := rus'; c_rtypes := rts;
                                      c_enc_alg := ea; c_enc_enc := ee |}) cl;
     prov_enc_algs := pea; prov_enc_encs := pee |}.
Definition chk_compact (j : list (pystr * list (kty * nat))) (b : cbase) (dp : list pystr) (c : ccase) : bool :=
  let '(v, d, t0, tr) := c in chk_case (expand j b dp v, d, t0, tr).
Definition diag_compact (j : list (pystr * list (kty * nat))) (b : cbase) (dp : list pystr) (c : ccase) : list result :=
  let '(v, d, t0, tr) := c in model_results (expand j b dp v, d, t0, tr).

(* ---- a concrete configuration and requests for the non-vacuity examples of Props/C16.v *)
Definition ex_jar : list (pystr * list (kty * nat)) :=
  [([], [(KRsa, 9%nat); (KEc, 10%nat)]);
   (s_c1, [(KOct, 2%nat); (KRsa, 0%nat); (KEc, 1%nat)]);
   (s_c2, [(KOct, 5%nat); (KRsa, 3%nat); (KEc, 4%nat)])].
Definition ex_client (cid red : pystr) (reg : regalg) : client :=
  {| c_id := cid; c_reg := reg; c_redirect := [red]; c_request_uris := None; c_rtypes := [[s_code]];
     c_enc_alg := None; c_enc_enc := None |}.
Definition ex_cfg (is_oidc : bool) (reg1 : regalg) : cfg :=
  {| oidc := is_oidc; has_par := true; methods := [MReqParam; MPublic; MNoneM]; methods_configured := false;
     hooks := if is_oidc then [HDoRequestUri; HPostParse; HDoRequestUri; HPostParse] else [HDoRequestUri; HPostParse];
     par_hooks := [HParRequestUri; HPostParse; HPostParse];
     prov_algs := [s_rs256; s_es256; s_hs256]; ru_supported := true; ttl := 10; jar := ex_jar;
     clients := [ex_client s_c1 s_r1 reg1; ex_client s_c2 s_r2 RAbsent];
     prov_enc_algs := None; prov_enc_encs := None |}.
(* the same provider with another set of usable client-authentication methods at the authorization endpoint *)
Definition ex_cfg_m (is_oidc : bool) (reg1 : regalg) (ms : list meth) : cfg :=
  let g := ex_cfg is_oidc reg1 in
  {| oidc := oidc g; has_par := has_par g; methods := ms; methods_configured := true; hooks := hooks g;
     par_hooks := par_hooks g; prov_algs := prov_algs g; ru_supported := ru_supported g; ttl := ttl g; jar := jar g;
     clients := clients g; prov_enc_algs := prov_enc_algs g; prov_enc_encs := prov_enc_encs g |}.
Definition ex_hdr : jwe_wrap := jhdr s_rsa_oaep s_a256gcm false JOpens.
Definition ex_outer : params :=
  [(k_client_id, PS_ s_c1); (k_redirect_uri, PS_ s_r1); (k_scope, PL_ [s_openid]); (k_state, PS_ s_out0);
   (k_response_type, PL_ [s_code])].
Definition ex_claims (cid red : pystr) : params :=
  [(k_client_id, PS_ cid); (k_redirect_uri, PS_ red); (k_scope, PL_ [s_openid; s_email]); (k_state, PS_ s_in0);
   (k_response_type, PL_ [s_code]); (k_iss, PS_ cid)].
Definition ex_by_value : params := List.app ex_outer [(k_request, PS_ s_jws)].
Definition ex_urn : pystr := PS "urn:uuid:1".
Definition ex_by_uri (u : pystr) : params := List.app ex_outer [(k_request_uri, PS_ u)].
(* an issued request_uri with a letter in it, and other spellings of it (never issued) *)
Definition ex_urn_a : pystr := PS "urn:uuid:a1".
Definition ex_spellings : list pystr :=
  [PS "urn:uuid:A1"; PS "URN:UUID:a1"; PS "Urn:Uuid:a1"; PS " urn:uuid:a1"; PS "urn:uuid:a1 "; PS "urn:uuid:a1#x";
   PS "urn:uuid:a1?x=1"; PS "urn%3Auuid%3Aa1"; PS "urn:uuid:%611"].

(* the object's parameters took effect: accepted, verified object attached, state is the object's *)
Definition took_effect (o : outcome) : bool :=
  match o with
  | Acc r => is_some (r_vr r) && opt_pv_eqb (assoc k_state (r_params r)) (Some (PS_ s_in0))
  | _ => false
  end.
Definition refused (o : outcome) : bool :=
  match o with ErrResp _ _ _ | Exc _ | AnyRefusal => true | _ => false end.
Definition outcome_of (x : state * outcome * option pystr) : outcome := snd (fst x).
Definition authz_results (l : list (state * result)) : list (outcome * option pystr) :=
  flat_map (fun sr => match snd sr with RAuthz o v => [(o, v)] | _ => [] end) l.

(* ---- registration + request-object traces: client_d registers through the real registration endpoint, then the
   trace runs on the provider AS THE MODEL says it is afterwards (not as observed) *)
Inductive obs_reg :=
| BRefused                                     (* an error came back, the client database has no new entry *)
| BStored (echo stored read : regalg).         (* 201: request_object_signing_alg in the response / in the client
                                                  database / returned by the registration-read endpoint *)
Definition regalg_eqb (a b : regalg) : bool :=
  match a, b with
  | RAbsent, RAbsent => true
  | RStr x, RStr y => str_eqb x y
  | RList x, RList y => list_eqb str_eqb x y
  | _, _ => false
  end.
(* (assigned client_id, requested algorithm, rest acceptable?, request_uris) *)
Definition regq := (pystr * option pystr * bool * option (list pystr))%type.
Definition rcase := (cfgvar * regq * obs_reg * docs * Z * list (op * obs))%type.
Definition regreq_of (b : cbase) (q : regq) : regreq :=
  let '(cid, alg, ok, rus) := q in
  let '(red, rts) := find_base b cid in
  {| rq_alg := alg; rq_ok := ok;
     rq_rest := {| c_id := cid; c_reg := RAbsent; c_redirect := red; c_request_uris := rus; c_rtypes := rts;
                   c_enc_alg := None; c_enc_enc := None |} |}.
Definition chk_reg_compact (j : list (pystr * list (kty * nat))) (b : cbase) (dp : list pystr) (c : rcase) : bool :=
  let '(v, q, ro, d, t0, tr) := c in
  let g := expand j b dp v in
  match register g (regreq_of b q), ro with
  | RegRefused, BRefused => chk_case (g, d, t0, tr)
  | RegStored g' ci, BStored e s r =>
      regalg_eqb (c_reg ci) e && regalg_eqb (c_reg ci) s && regalg_eqb (c_reg ci) r && chk_case (g', d, t0, tr)
  | _, _ => false
  end.
Definition diag_reg_compact (j : list (pystr * list (kty * nat))) (b : cbase) (dp : list pystr) (c : rcase)
  : option regalg * list result :=
  let '(v, q, ro, d, t0, tr) := c in
  let g := expand j b dp v in
  match register g (regreq_of b q) with
  | RegStored g' ci => (Some (c_reg ci), model_results (g', d, t0, tr))
  | _ => (None, model_results (g, d, t0, tr))
  end.

Definition s_cd := PS "client_d".
Definition s_rd := PS "https://client_d.example.com/cb".
Definition s_es384 := PS "ES384".
Definition s_es512 := PS "ES512".
Definition s_rs512 := PS "RS512".
Definition s_ps256 := PS "PS256".
Definition s_ps384 := PS "PS384".
Definition s_ps512 := PS "PS512".
Definition s_hs384 := PS "HS384".
Definition s_hs512 := PS "HS512".
Definition s_ind := PS "ind".
Definition s_outd := PS "outd".
(* the example provider before client_d registers: the key jar already holds the keys client_d will register (an RSA
   key 12, a P-256 key 13, its secret 14, a P-384 key 15); the provider's OWN keys are an RSA and a P-256 key only *)
Definition ex_cfg_r (prov : list pystr) : cfg :=
  let g := ex_cfg true RAbsent in
  {| oidc := oidc g; has_par := has_par g; methods := methods g; methods_configured := methods_configured g; hooks := hooks g;
     par_hooks := par_hooks g; prov_algs := prov; ru_supported := ru_supported g; ttl := ttl g;
     jar := (ex_jar ++ [(s_cd, [(KRsa, 12%nat); (KEc, 13%nat); (KEc, 15%nat); (KOct, 14%nat)])])%list;
     clients := clients g; prov_enc_algs := prov_enc_algs g; prov_enc_encs := prov_enc_encs g |}.
Definition ex_regreq (alg : option pystr) : regreq :=
  {| rq_alg := alg; rq_ok := true; rq_rest := ex_client s_cd s_rd RAbsent |}.
Definition ex_outer_d : params :=
  [(k_client_id, PS_ s_cd); (k_redirect_uri, PS_ s_rd); (k_scope, PL_ [s_openid]); (k_state, PS_ s_out0);
   (k_response_type, PL_ [s_code]); (k_request, PS_ s_jws)].
(* what the provider answers, after the registration, to client_d's objects signed ES384 (P-384 key) / RS256 (its RSA key) /
   HS256 (its secret) / not at all: did the object's parameters take effect? *)
Definition ex_after_registration (prov : list pystr) (alg : option pystr) : option (regalg * list bool) :=
  match register (ex_cfg_r prov) (ex_regreq alg) with
  | RegStored g' ci =>
      Some (c_reg ci,
            List.map (fun w => took_effect (outcome_of (authz_parse g' [] (init 0) ex_outer_d (Some w))))
              [wgen s_es384 (ex_claims s_cd s_rd) 15; wgen s_rs256 (ex_claims s_cd s_rd) 12;
               wgen s_hs256 (ex_claims s_cd s_rd) 14; WObj s_none (ex_claims s_cd s_rd) None])
  | _ => None
  end.
(* many static parts in one case file: each case names its key jar / client base / default provider set by position *)
Definition chk_reg_multi (js : list (list (pystr * list (kty * nat)))) (bs : list cbase) (dps : list (list pystr))
  (c : (nat * nat * nat) * rcase) : bool :=
  let '(ji, bi, di) := fst c in
  match nth_error js ji, nth_error bs bi, nth_error dps di with
  | Some j, Some b, Some dp => chk_reg_compact j b dp (snd c)
  | _, _, _ => false
  end.
Definition diag_reg_multi (js : list (list (pystr * list (kty * nat)))) (bs : list cbase) (dps : list (list pystr))
  (c : (nat * nat * nat) * rcase) : option regalg * list result :=
  let '(ji, bi, di) := fst c in
  match nth_error js ji, nth_error bs bi, nth_error dps di with
  | Some j, Some b, Some dp => diag_reg_compact j b dp (snd c)
  | _, _, _ => (None, [])
  end.
