(* Model/JarReg.v — registration HISTORIES under one client id, for property C16: which key material verifies a
   request object after a client id has been registered more than once.

   idpyoidc.server.oidc.registration.Registration.client_registration_setup, the part C16 depends on:
     - the record of the id in the client database is REPLACED by the record built from this request
       (`_cinfo = {"client_id": ..., "client_salt": ...}`, then the request's members): nothing of an earlier
       registration survives, in particular not its request_object_signing_alg;
     - what the key jar holds under the id "belongs to the registration that is being replaced": the entry is deleted,
       `load_keys(client_id, jwks_uri=, jwks=)` files the keys THIS request brings (none, when it has neither member),
       and `add_symmetric(client_id, client_secret)` files the secret that was just issued;
     - a refused registration rolls both back (`_rollback`).
   So the keys permitted for a client are a function of the LATEST accepted registration under its id only.
   The first registration of an id (new_id=True) is the same step: there is nothing to replace.

   Key numbers are the harness's ground truth (harness/srv_c16.py keynum): every key / every issued secret has its own. *)
From Coq Require Import String.
From Verif Require Import Lib.Base.
From Verif Require Import Lib.PyStr.
From Verif Require Import Lib.Crypto.
From Verif Require Import Model.Jar.
From Verif Require Import Model.JarCheck.

Definition jar_t := list (pystr * list (kty * nat)).

(* what one registration brings: the public keys of its jwks / the document at its jwks_uri (as far as they are of a
   modelled key type), and the client_secret the provider issues for it *)
Record regmat := { m_keys : list (kty * nat); m_secret : nat }.
Definition material (m : regmat) : list (kty * nat) := (m_keys m ++ [(KOct, m_secret m)])%list.

(* del keyjar[cid] ; then a fresh issuer entry with the material of this registration *)
Definition jar_del (j : jar_t) (cid : pystr) : jar_t := filter (fun e => negb (str_eqb cid (fst e))) j.
Definition jar_put (j : jar_t) (cid : pystr) (ks : list (kty * nat)) : jar_t := (jar_del j cid ++ [(cid, ks)])%list.
(* cdb[cid] = record *)
Definition cl_put (cs : list client) (ci : client) : list client :=
  (filter (fun c => negb (str_eqb (c_id ci) (c_id c))) cs ++ [ci])%list.
Definition put_client (g : cfg) (ci : client) (ks : list (kty * nat)) : cfg :=
  {| oidc := oidc g; has_par := has_par g; methods := methods g; methods_configured := methods_configured g;
     hooks := hooks g; par_hooks := par_hooks g; prov_algs := prov_algs g; ru_supported := ru_supported g; ttl := ttl g;
     jar := jar_put (jar g) (c_id ci) ks; clients := cl_put (clients g) ci;
     prov_enc_algs := prov_enc_algs g; prov_enc_encs := prov_enc_encs g |}.

Record regstep := { rs_rq : regreq; rs_mat : regmat }.
Definition step_id (s : regstep) : pystr := c_id (rq_rest (rs_rq s)).
Definition accepted (s : regstep) : bool :=
  rq_ok (rs_rq s) && match step_id s with [] => false | _ => true end.

(* one registration under an id, new or in use *)
Definition reregister (g : cfg) (s : regstep) : regres :=
  if negb (rq_ok (rs_rq s)) then RegRefused else
  match step_id s with
  | [] => RegUnmodelled
  | _ => let ci := with_reg (rq_rest (rs_rq s)) (negotiate g (rq_alg (rs_rq s))) in
         RegStored (put_client g ci (material (rs_mat s))) ci
  end.

(* the provider after a history of registrations (refused ones leave it as it was) *)
Fixpoint after (g : cfg) (h : list regstep) : cfg :=
  match h with
  | [] => g
  | s :: r => match reregister g s with RegStored g' _ => after g' r | _ => after g r end
  end.

(* the registration in force for an id: the latest accepted one under it *)
Fixpoint latest_from (h : list regstep) (cid : pystr) (cur : option regstep) : option regstep :=
  match h with
  | [] => cur
  | s :: r => latest_from r cid (if accepted s && str_eqb cid (step_id s) then Some s else cur)
  end.
Definition latest (h : list regstep) (cid : pystr) : option regstep := latest_from h cid None.

(* key numbers brought by the accepted registrations under cid, in order (for stating "superseded") *)
Definition brought (h : list regstep) (cid : pystr) : list (kty * nat) :=
  flat_map (fun s => if accepted s && str_eqb cid (step_id s) then material (rs_mat s) else []) h.

(* ------------------------------------------------------------------ evaluated on the harness's histories *)
Definition pair_eqb (a b : kty * nat) : bool := kty_eqb (fst a) (fst b) && Nat.eqb (snd a) (snd b).
Definition keyset_eqb (a b : list (kty * nat)) : bool :=
  forallb (fun x => existsb (pair_eqb x) b) a && forallb (fun x => existsb (pair_eqb x) a) b.
Definition entry_matches (j : jar_t) (cid : pystr) (o : option (list (kty * nat))) : bool :=
  match assoc cid j, o with
  | None, None => true
  | Some a, Some b => keyset_eqb a b
  | _, _ => false
  end.

(* one observed registration: request, keys brought, number of the secret issued, what the response / client database /
   read endpoint say, the key jar entry of the id afterwards *)
Definition hstep := (regq * list (kty * nat) * nat * obs_reg * option (list (kty * nat)))%type.
Definition hcase := (cfgvar * list hstep * docs * Z * list (op * obs))%type.
Definition regstep_of (b : cbase) (x : hstep) : regstep :=
  let '(q, ks, sec, _, _) := x in {| rs_rq := regreq_of b q; rs_mat := {| m_keys := ks; m_secret := sec |} |}.

Fixpoint chk_steps (b : cbase) (g : cfg) (l : list hstep) : bool * cfg :=
  match l with
  | [] => (true, g)
  | x :: r =>
      let s := regstep_of b x in
      let '(_, _, _, ro, je) := x in
      match reregister g s, ro with
      | RegRefused, BRefused =>
          let '(ok, g2) := chk_steps b g r in (entry_matches (jar g) (step_id s) je && ok, g2)
      | RegStored g' ci, BStored e st rd =>
          let '(ok, g2) := chk_steps b g' r in
          (regalg_eqb (c_reg ci) e && regalg_eqb (c_reg ci) st && regalg_eqb (c_reg ci) rd
           && entry_matches (jar g') (step_id s) je && ok, g2)
      | _, _ => (false, g)
      end
  end.
Definition chk_hist (j : jar_t) (b : cbase) (dp : list pystr) (c : hcase) : bool :=
  let '(v, l, d, t0, tr) := c in
  let '(ok, g') := chk_steps b (expand j b dp v) l in
  ok && chk_case (g', d, t0, tr).
Definition diag_hist (j : jar_t) (b : cbase) (dp : list pystr) (c : hcase)
  : bool * option (list (kty * nat)) * list regalg * list result :=
  let '(v, l, d, t0, tr) := c in
  let '(ok, g') := chk_steps b (expand j b dp v) l in
  (ok, assoc s_cd (jar g'), List.map c_reg (clients g'), model_results (g', d, t0, tr)).
Definition chk_hist_multi (js : list jar_t) (bs : list cbase) (dps : list (list pystr)) (c : (nat * nat * nat) * hcase) : bool :=
  let '(ji, bi, di) := fst c in
  match nth_error js ji, nth_error bs bi, nth_error dps di with
  | Some j, Some b, Some dp => chk_hist j b dp (snd c)
  | _, _, _ => false
  end.
Definition diag_hist_multi (js : list jar_t) (bs : list cbase) (dps : list (list pystr)) (c : (nat * nat * nat) * hcase) :=
  let '(ji, bi, di) := fst c in
  match nth_error js ji, nth_error bs bi, nth_error dps di with
  | Some j, Some b, Some dp => Some (diag_hist j b dp (snd c))
  | _, _, _ => None
  end.

(* ------------------------------------------------------------------ a concrete history for Props/C16.v
   client_d registers an RSA key 12 and a P-256 key 13 and is issued secret 14; registers again with no key material
   (secret 20); a third registration brings the RSA key 18 (secret 26).  The provider before: ex_cfg, whose key jar does
   not know client_d. *)
Definition ex_step (alg : option pystr) (ok : bool) (ks : list (kty * nat)) (sec : nat) : regstep :=
  {| rs_rq := {| rq_alg := alg; rq_ok := ok; rq_rest := ex_client s_cd s_rd RAbsent |};
     rs_mat := {| m_keys := ks; m_secret := sec |} |}.
Definition ex_hist : list regstep :=
  [ex_step (Some s_rs256) true [(KRsa, 12%nat); (KEc, 13%nat)] 14; ex_step None true [] 20;
   ex_step None false [(KRsa, 24%nat)] 99; ex_step None true [(KRsa, 18%nat)] 26].
(* did client_d's object signed alg under key k take effect, by value, at provider g? *)
Definition ex_effect (g : cfg) (alg : pystr) (k : nat) : bool :=
  took_effect (outcome_of (authz_parse g [] (init 0) ex_outer_d (Some (wgen alg (ex_claims s_cd s_rd) k)))).
