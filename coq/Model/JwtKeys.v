(* Model/JwtKeys.v — which key verifies a JWT token of the provider: idpyoidc.server.token.jwt_token.JWTToken.get_payload.
   cryptojwt's JWT.unpack looks the verification keys up in the key jar under the issuer the token NAMES (its iss
   claim); the handler pins the algorithm (allowed_sign_algs=[self.alg]) and, since 785ab74, the issuer (the payload's
   iss must be the provider).  The key jar is what registration fills: the provider's own keys, every confidential
   client's secret as a symmetric key and every key a client registered, each under its owner's identifier.
   Hand-written; tied to the code by harness/drv_C04.py (genuine and re-signed tokens presented to the real handlers). *)
From Coq Require Import String List Bool Arith.
From Verif Require Import Lib.Base Lib.PyStr Lib.Crypto.
Import ListNotations.
Open Scope string_scope.

(* key families: an HMAC secret, or an asymmetric key of family f (0 = RSA, 1 = EC P-256, ...) *)
Inductive kkind := KSym | KAsym (fam : nat).
Definition kkind_eqb (a b : kkind) : bool :=
  match a, b with KSym, KSym => true | KAsym x, KAsym y => Nat.eqb x y | _, _ => false end.
(* algorithms by number; what family of key each takes.  none = no key at all *)
Inductive jalg := AlgNone | AlgHS (n : nat) | AlgAsym (fam n : nat).
Definition jalg_eqb (a b : jalg) : bool :=
  match a, b with
  | AlgNone, AlgNone => true
  | AlgHS x, AlgHS y => Nat.eqb x y
  | AlgAsym f x, AlgAsym g y => Nat.eqb f g && Nat.eqb x y
  | _, _ => false
  end.

Record jarkey := mkJarkey { jk_owner : pystr; jk_num : nat; jk_kind : kkind }.
Definition jar := list jarkey.
Definition jar_has (j : jar) (owner : pystr) (k : nat) (kind : kkind) : bool :=
  existsb (fun e => str_eqb (jk_owner e) owner && Nat.eqb (jk_num e) k && kkind_eqb (jk_kind e) kind) j.

(* a compact JWS as far as verification sees it: header alg, the iss claim (if any), the signed body *)
Record jtok := mkJtok { j_alg : jalg; j_iss : option pystr; j_body : term }.

(* JWT.unpack with allowed_sign_algs = [pinned], then the issuer pin of get_payload *)
Definition jwt_verify (pin_issuer : bool) (j : jar) (issuer : pystr) (pinned : jalg) (t : jtok) : option term :=
  if negb (jalg_eqb (j_alg t) pinned) then None else
  match j_iss t with
  | None => None                                  (* no iss claim: no keys to look up (and not the provider's) *)
  | Some i =>
      if pin_issuer && negb (str_eqb i issuer) then None else
      match j_alg t, j_body t with
      | AlgAsym f _, Sig k m => if jar_has j i k (KAsym f) then Some m else None
      | AlgHS _, Mac k m => if jar_has j i k KSym then Some m else None
      | _, _ => None
      end
  end.

(* ---- correspondence: (pin, jar, issuer, handler alg, token, did the real handler's get_payload succeed) ---- *)
Definition chk_jwt_keys (c : jar * pystr * jalg * jtok * bool) : bool :=
  let '(j, issuer, pinned, t, accepted) := c in
  Bool.eqb (match jwt_verify true j issuer pinned t with Some _ => true | None => false end) accepted.
