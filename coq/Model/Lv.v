(* Model/Lv.v — idpyoidc.server.util.lv_pack / lv_unpack (length:value framing), and the
   session-key codec of idpyoidc.server.session.database.Database (branch_key / unpack_branch_key).
   Hand-written, executable; tied to the code by harness/drv_C14.py (correspondence on every run). *)
From Verif Require Import Lib.Base Lib.PyStr.
Open Scope N_scope.

Definition colon : N := 58.
Definition semi : N := 59.

(* def lv_pack( *args): "".join("{}:{}".format(len(a), a) for a in args) *)
Definition pack1 (a : pystr) : pystr := str_of_nat (length a) ++ colon :: a.
Definition lv_pack (l : list pystr) : pystr := flat_map pack1 l.

(* def lv_unpack(txt):
       res = []
       while txt:
           l, v = txt.split(":", 1)      # ValueError when there is no colon
           res.append(v[: int(l)])       # ValueError when l is not an int literal
           txt = v[int(l) :]
       return res
   The loop is fuelled by the length of the text: every iteration removes at least the
   colon, so length+1 iterations always suffice (lemma unpack_fuel_enough in Proofs/Lv_proofs.v
   is not needed for the theorems: OutOfFuel is an explicit error value). *)
Fixpoint unpack_loop (fuel : nat) (txt : pystr) : res (list pystr) :=
  match txt with
  | [] => Ok []
  | _ => match fuel with
         | O => Err OutOfFuel
         | S f => match split1_c colon txt with
                  | None => Err ValueError
                  | Some (l, v) =>
                      n <- py_int l ;;
                      r <- unpack_loop f (slice_from n v) ;;
                      Ok (slice_to n v :: r)
                  end
         end
  end.
Definition lv_unpack (txt : pystr) : res (list pystr) := unpack_loop (S (length txt)) txt.

(* DIVIDER = ";;"
   def branch_key( *args):
       for arg in args[:-1]:
           if arg.endswith(DIVIDER[0]): raise ValueError
       for arg in args:
           if DIVIDER in arg: raise ValueError
       return DIVIDER.join(args)
   def unpack_branch_key(key): return key.split(DIVIDER) *)
Definition divider : pystr := [semi; semi].
Definition branch_key (args : list pystr) : res pystr :=
  if negb (forallb (fun x => negb (last_is semi x)) (removelast args)) then Err ValueError
  else if negb (forallb (no_cc semi semi) args) then Err ValueError
  else Ok (join divider args).
Definition unpack_branch_key (key : pystr) : list pystr := split_cc semi semi key.

(* ---- checkers used by generated correspondence case files ---- *)
Definition res_list_str_eqb := res_eqb (list_eqb str_eqb).
Definition chk_lv_unpack (c : pystr * res (list pystr)) : bool := res_list_str_eqb (lv_unpack (fst c)) (snd c).
Definition chk_lv_pack (c : list pystr * pystr) : bool := str_eqb (lv_pack (fst c)) (snd c).
Definition chk_branch_key (c : list pystr * res pystr) : bool := res_eqb str_eqb (branch_key (fst c)) (snd c).
Definition chk_unpack_branch_key (c : pystr * list pystr) : bool :=
  list_eqb str_eqb (unpack_branch_key (fst c)) (snd c).
Definition chk_py_int (c : pystr * res Z) : bool := res_eqb Z.eqb (py_int (fst c)) (snd c).

(* ---- session identifiers: Database.encrypted_branch_id / decrypt_branch_id without the Fernet layer:
   plaintext = lv_pack(rnd, branch_key( *path), "");  path = unpack_branch_key(lv_unpack(plain)[1]).
   The empty last item is there because of the encrypter (cryptojwt's FernetEncrypter): it pads the text with
   blanks before encrypting and strips trailing blanks after decrypting, so what comes back is the plaintext up
   to trailing blanks (through_encrypter).  A plaintext that ends in the key would lose the blanks the key ends
   in (sid_plain_legacy, the framing before the repair; such identifiers still decode). ---- *)
Definition blank : N := 32.
Definition sid_plain (rnd : pystr) (path : list pystr) : res pystr :=
  k <- branch_key path ;; Ok (lv_pack [rnd; k; []]).
Definition sid_plain_legacy (rnd : pystr) (path : list pystr) : res pystr :=
  k <- branch_key path ;; Ok (lv_pack [rnd; k]).
(* bytes.rstrip(b" ") *)
Fixpoint rstrip_blanks (s : pystr) : pystr :=
  match s with
  | [] => []
  | c :: r => match rstrip_blanks r with
              | [] => if N.eqb c blank then [] else [c]
              | r' => c :: r'
              end
  end.
(* encrypt pads with n blanks (whatever n), decrypt strips every trailing blank *)
Definition through_encrypter (n : nat) (t : pystr) : pystr := rstrip_blanks (t ++ repeat blank n).
Definition sid_path (plain : pystr) : res (list pystr) :=
  l <- lv_unpack plain ;;
  match l with _ :: k :: _ => Ok (unpack_branch_key k) | _ => Err IndexError end.
Definition chk_sid (c : pystr * list pystr * pystr) : bool :=
  let '(rnd, path, plain) := c in
  res_eqb str_eqb (sid_plain rnd path) (Ok plain) && res_list_str_eqb (sid_path plain) (Ok path).
