(* Model/Msg.v — idpyoidc.message.Message: construction (c_default + from_dict + _add_value coercion),
   to_dict, to_urlencoded / from_urlencoded, the generic verify(), and the cross-parameter rules of
   oidc.AuthorizationRequest.verify.  Hand-written, total, executable; generic in the class schema
   (`mclass`, Lib/MsgSchema.v) so that the same functions run over every row of the regenerated
   table Gen/Schema.v.  Tied to /repo by harness/drv_C10.py and harness/drv_C11.py.

   A message is its `_dict` : list (pystr * pyval) in insertion order.
   Modelled parameter kinds (the "fragment"): str / int / bool scalars without (de)serializer,
   [str] with list_serializer/list_deserializer, [str] with sp_sep_list_serializer/..deserializer;
   parameters outside the schema ("extras") and language-tagged keys.  Everything else (nested
   Message objects as parameter values, JSON-text kinds, bespoke deserializers, a "*" entry in c_param)
   evaluates to Unmodelled.  Also here: the nested-message deserializer helper deserialize_from_one_of
   (one_of: which wire format a nested value is read as) and the verify() of the two oauth2 classes that
   unpack and merge a signed request object (jar_verify / par_verify).  No proofs in this file. *)
From Coq Require Import String.
From Verif Require Import Lib.Base Lib.PyStr Lib.Urlenc Lib.Utf8 Lib.Qs Lib.MsgSchema.
Open Scope N_scope.

Notation msg := (list (pystr * pyval)).

(* ---- exceptions of idpyoidc.exception, as refusal tags ---- *)
Definition EMissingRequired : exc := Refused 1.   (* MissingRequiredAttribute *)
Definition ENotAllowed : exc := Refused 2.        (* NotAllowedValue *)
Definition EDecode : exc := Refused 3.            (* DecodeError *)
Definition ETooMany : exc := Refused 4.           (* TooManyValues *)
Definition EFormat : exc := Refused 5.            (* FormatError *)
Definition EMissingValue : exc := Refused 6.      (* MissingRequiredValue *)
Definition EInvalidRequest : exc := Refused 7.    (* InvalidRequest *)

Definition sp : N := 32.
Definition hash : N := 35.
Definition star : pystr := [42].

(* ---- small Python helpers over pyval ---- *)
Definition is_str (v : pyval) : bool := match v with VStr _ => true | _ => false end.
Definition is_obj (v : pyval) : bool := match v with VObj _ => true | _ => false end.
Definition str_of (v : pyval) : pystr := match v with VStr s => s | _ => [] end.
Definition strs (l : list pyval) : list pystr := List.map str_of l.

(* a == b for the values that occur in c_allowed_values tests (bool is an int in Python) *)
Definition py_eq (a b : pyval) : bool :=
  match a, b with
  | VBool x, VInt y | VInt y, VBool x => Z.eqb (if x then 1 else 0) y
  | _, _ => pyval_eqb a b
  end.
Definition py_in (v : pyval) (l : list pyval) : bool := existsb (py_eq v) l.

(* val in ["", [""]] *)
Definition is_blank (v : pyval) : bool :=
  match v with
  | VStr [] => true
  | VList [VStr []] => true
  | _ => false
  end.

Definition map_res {A B} (f : A -> res B) : list A -> res (list B) :=
  fix go (l : list A) : res (list B) :=
    match l with
    | [] => Ok []
    | a :: r => b <- f a ;; r' <- go r ;; Ok (b :: r')
    end.

(* ---- schema lookup: exact key, else the part before '#' (language tag) ---- *)
Definition lang_base (k : pystr) : pystr := hd [] (split_c hash k).
Definition has_star (c : mclass) : bool :=
  match find_param star (c_params c) with Some _ => true | None => false end.
Definition lookup (c : mclass) (k : pystr) : option param :=
  match find_param k (c_params c) with
  | Some p => Some p
  | None => find_param (lang_base k) (c_params c)
  end.

(* ================================ _add_value (sformat = "dict") ================================ *)

(* deserializer called with sformat="dict"; Err = the exception raised inside it *)
Definition deser_dict (d : deser_id) (v : pyval) : res pyval :=
  match d with
  | DList => match v with VStr _ => Ok (VList [v]) | VObj _ => Unmodelled | _ => Ok v end
  | DSpSep =>
      match v with
      | VStr s => Ok (VList (List.map VStr (split_c sp s)))
      | VList [VStr s] => Ok (VList (List.map VStr (split_c sp s)))
      | VList [VObj _] => Unmodelled
      | VList [_] => Err AttributeError                      (* x.split on a non-str *)
      | VObj _ => Unmodelled
      | _ => Ok v
      end
  | _ => Unmodelled
  end.
(* `except Exception as exc: raise DecodeError` around a deserializer call *)
Definition wrap_decode {A} (r : res A) : res A :=
  match r with Err _ => Err EDecode | _ => r end.

(* result: Ok None = nothing stored, Ok (Some w) = self._dict[key] = w *)
Definition add_value (p : param) (v : pyval) : res (option pyval) :=
  let null := p_null p in
  let early :=
    match v with
    | VList [] => negb null
    | VList (VNone :: _) => negb null
    | _ => false
    end in
  if early then Ok None else
  match p_ty p with
  | PList t =>
      match v with
      | VNone => if null then Ok (Some VNone) else Err ValueError
      | VObj _ => Unmodelled
      | _ =>
        match t with
        | TStr =>
            match v with
            | VStr _ =>
                match p_deser p with
                | DNone => Unmodelled                       (* setattr(self, skey, [val]) *)
                | d => w <- wrap_decode (deser_dict d v) ;; Ok (Some w)
                end
            | VList _ =>
                w <- (match p_deser p with DNone => Ok v | d => wrap_decode (deser_dict d v) end) ;;
                match w with
                | VList items =>
                    if existsb is_obj items then Unmodelled
                    else if forallb is_str items then Ok (Some w) else Err EDecode
                | _ => Unmodelled
                end
            | VDict _ =>
                match p_deser p with
                | DNone => Err EDecode                      (* None(val) -> TypeError -> DecodeError *)
                | d => w <- wrap_decode (deser_dict d v) ;; Ok (Some w)
                end
            | _ => Err EDecode
            end
        | _ => Unmodelled
        end
      end
  | PScalar t =>
      match v with
      | VNone => Ok (Some VNone)
      | VObj _ => Unmodelled
      | VBool _ => match t with
                   | TBool => Ok (Some v)
                   | TAny | TOpaqueTy _ => Unmodelled
                   | _ => Err ValueError
                   end
      | _ =>
        match p_deser p with
        | DNone =>
            match t with
            | TStr => match v with VStr _ => Ok (Some v) | _ => Err ValueError end
            | TInt =>
                match v with
                | VInt _ => Ok (Some v)
                | VStr s => match py_int s with
                            | Ok z => Ok (Some (VInt z))
                            | Err _ => Err ValueError
                            | Unmodelled => Unmodelled
                            end
                | _ => Err ValueError                        (* int([..]) / int({..}): TypeError -> ValueError *)
                end
            | TBool => Err ValueError
            | TDict => match v with VDict _ => Ok (Some v) | _ => Err ValueError end
            | TMsg cls =>
                if str_eqb cls (PS "idpyoidc.message.Message")
                then match v with VDict _ | VStr _ => Ok (Some v) | _ => Err ValueError end
                else Err ValueError
            | TAny | TOpaqueTy _ => Unmodelled
            end
        | _ =>
            (* a value that already has the declared type is stored without calling the deserializer *)
            match t, v with
            | TStr, VStr _ | TInt, VInt _ | TDict, VDict _ => Ok (Some v)
            | _, _ => Unmodelled
            end
        end
      end
  end.

(* ================================ from_dict / construction ================================ *)
(* one iteration of the loop in from_dict: None = nothing stored for this key *)
Definition from_dict_step (c : mclass) (k : pystr) (v : pyval) : res (option pyval) :=
  if is_blank v then Ok None
  else match lookup c k with
       | None => Ok (Some v)
       | Some p => add_value p v
       end.
Definition store (k : pystr) (a : option pyval) (m : msg) : msg :=
  match a with None => m | Some w => aset k w m end.
Fixpoint from_dict_go (c : mclass) (d : msg) (m : msg) : res msg :=
  match d with
  | [] => Ok m
  | (k, v) :: r => a <- from_dict_step c k v ;; from_dict_go c r (store k a m)
  end.
(* m.from_dict(d) for an existing message m *)
Definition from_dict (c : mclass) (d : msg) (m : msg) : res msg :=
  if has_star c then Unmodelled else from_dict_go c d m.
(* Cls( **d )  =  c_default.copy() then from_dict(d) *)
Definition construct (c : mclass) (d : msg) : res msg := from_dict c d (c_default c).

(* ================================ to_dict ================================ *)
Definition ser_dict (s : ser_id) (v : pyval) : res pyval :=
  match s with
  | SNone => Ok v
  | SList =>
      match v with
      | VStr _ => Ok (VList [v])
      | VList _ => Ok v
      | VObj _ => Unmodelled
      | _ => Err ValueError
      end
  | SSpSep =>
      match v with
      | VStr _ => Ok v
      | VList l => if existsb is_obj l then Unmodelled
                   else if forallb is_str l then Ok (VStr (join [sp] (strs l))) else Err TypeError
      | VDict d => Ok (VStr (join [sp] (List.map fst d)))    (* " ".join(dict) joins the keys *)
      | VObj _ => Unmodelled
      | _ => Err TypeError
      end
  | _ => Unmodelled
  end.
Definition holds_message (v : pyval) : bool :=
  match v with VObj _ => true | VList (VObj _ :: _) => true | _ => false end.
Definition to_dict_entry (c : mclass) (kv : pystr * pyval) : res (pystr * pyval) :=
  let s := match lookup c (fst kv) with Some p => p_ser p | None => SNone end in
  w <- ser_dict s (snd kv) ;;
  if holds_message w then Unmodelled else Ok (fst kv, w).
Definition to_dict (c : mclass) (m : msg) : res msg :=
  if has_star c then Unmodelled else map_res (to_dict_entry c) m.

(* ================================ generic verify ================================ *)
Definition is_bool_ty (t : ptype) : bool := match t with PScalar TBool => true | _ => false end.

(* Message._type_check(typ, allowed, val, na) *)
Definition type_check (t : ptype) (allowed : list pyval) (v : pyval) (na : bool) : bool :=
  match t with
  | PScalar TStr | PScalar TInt => py_in v allowed
  | PList _ => match v with VList items => forallb (fun i => py_in i allowed) items | _ => true end
  | _ => match v with VNone => na | _ => true end
  end.

Definition verify_param (c : mclass) (m : msg) (p : param) : res unit :=
  if str_eqb (p_name p) star then Ok tt else
  match assoc (p_name p) m with
  | None => if p_req p then Err EMissingRequired else Ok tt
  | Some v =>
      if negb (is_bool_ty (p_ty p)) && negb (py_truthy v)
      then (if p_req p then Err EMissingRequired else Ok tt)
      else match assoc (p_name p) (c_allowed c) with
           | None => Ok tt
           | Some al => if type_check (p_ty p) al v (p_null p) then Ok tt else Err ENotAllowed
           end
  end.
Fixpoint verify_params (c : mclass) (m : msg) (ps : list param) : res unit :=
  match ps with
  | [] => Ok tt
  | p :: r => _ <- verify_param c m p ;; verify_params c m r
  end.
(* Message.verify(self) *)
Definition generic_verify (c : mclass) (m : msg) : res unit := verify_params c m (c_params c).

(* ================================ to_urlencoded ================================ *)
(* str(int): decimal text, computed from the binary representation (PyStr.str_of_Z goes through
   unary nat and is unusable for 2^63) *)
Definition str_of_int (z : Z) : pystr :=
  match z with
  | Z0 => [48]
  | Zpos p => uint_codes (Pos.to_uint p)
  | Zneg p => 45 :: uint_codes (Pos.to_uint p)
  end.
Definition py_str (v : pyval) : res pystr :=
  match v with
  | VStr s => Ok s
  | VInt z => Ok (str_of_int z)
  | VBool true => Ok (PS "True")
  | VBool false => Ok (PS "False")
  | VNone => Ok (PS "None")
  | _ => Unmodelled                                         (* repr of containers / objects *)
  end.

(* the value strings one _dict entry contributes (one key=value pair each) *)
Definition render (sp_ : option param) (v : pyval) : res (list pystr) :=
  let ser := match sp_ with Some p => p_ser p | None => SNone end in
  let null := match sp_ with Some p => p_null p | None => false end in
  match v with
  | VNone => if null then Unmodelled else Ok []
  | VStr s => Ok [s]
  | VList l =>
      match ser with
      | SNone => map_res py_str l
      | SList | SSpSep =>
          if existsb is_obj l then Unmodelled
          else if forallb is_str l then Ok [join [sp] (strs l)] else Err TypeError
      | _ => Unmodelled
      end
  | VInt _ | VBool _ =>
      match ser with
      | SNone | SList | SSpSep => s <- py_str v ;; Ok [s]    (* _ser(val) fails, str(val) is used *)
      | _ => Unmodelled
      end
  | _ => Unmodelled
  end.
Definition entry_pairs (c : mclass) (kv : pystr * pyval) : res (list (pystr * pystr)) :=
  vs <- render (lookup c (fst kv)) (snd kv) ;; Ok (List.map (fun s => (fst kv, s)) vs).
Definition missing_required (c : mclass) (m : msg) : bool :=
  existsb (fun p => p_req p && negb (has_key (p_name p) m)) (c_params c).
Definition url_pairs (c : mclass) (m : msg) : res (list (pystr * pystr)) :=
  l <- map_res (entry_pairs c) m ;; Ok (List.concat l).
Definition to_urlencoded (c : mclass) (m : msg) : res pystr :=
  if has_star c then Unmodelled
  else if missing_required c m then Err EMissingRequired
  else ps <- url_pairs c m ;;
       match urlencode ps with Some t => Ok t | None => Unmodelled end.

(* ================================ from_urlencoded ================================ *)
Definition deser_url (d : deser_id) (s : pystr) : res pyval :=
  match d with
  | DList | DSpSep => Ok (VList (List.map VStr (split_c sp s)))
  | _ => Unmodelled
  end.
Definition url_value (c : mclass) (k : pystr) (vals : list pystr) : res pyval :=
  match lookup c k with
  | None => match vals with [x] => Ok (VStr x) | _ => Ok (VList (List.map VStr vals)) end
  | Some p =>
      match p_ty p with
      | PList _ =>
          match p_deser p with
          | DNone => Ok (VList (List.map VStr vals))
          | d => deser_url d (hd [] vals)
          end
      | PScalar _ =>
          match vals with
          | [x] => match p_deser p with DNone => Ok (VStr x) | d => deser_url d x end
          | _ => Err ETooMany
          end
      end
  end.
Fixpoint from_url_go (c : mclass) (info : list (pystr * list pystr)) (m : msg) : res msg :=
  match info with
  | [] => Ok m
  | (k, vals) :: r => w <- url_value c k vals ;; from_url_go c r (aset k w m)
  end.
(* m.from_urlencoded(text) *)
Definition from_urlencoded (c : mclass) (text : pystr) (m : msg) : res msg :=
  if has_star c then Unmodelled else
  info <- parse_qs text ;;
  match text, info with
  | _ :: _, [] => Err EFormat
  | _, _ => from_url_go c info m
  end.

(* ================================ nested messages: deserialize_from_one_of ================================
   idpyoidc.message.oidc.deserialize_from_one_of(val, msgtype, sformat) (and its twin in message.oauth2):
   the helper behind address_deser, claims_deser, registration_request_deser and the identity-assurance
   nested-message deserializers.  The value is read as each format of `one_of_order sformat` in turn; only a
   FormatError moves on to the next format.  For dict / JSON the JSON reading comes FIRST: the JSON text of
   a nested message is also accepted by the form parser as soon as it contains an "=".
   The JSON text layer is trusted (json.loads (json.dumps d) = d): a dict value d stands for its JSON text,
   and reading that text as JSON is from_dict d.  Reading a JSON text as a form, or a form text as JSON, is
   outside the model. *)
Inductive wire := WDict | WJson | WUrl.
Definition one_of_order (f : wire) : list wire :=
  match f with WDict | WJson => [WJson; WUrl] | WUrl => [WUrl; WJson] end.
(* msgtype().deserialize(val, f) *)
Definition deser_as (c : mclass) (f : wire) (v : pyval) : res msg :=
  match f, v with
  | WJson, VDict d => construct c d
  | WUrl, VStr t => from_urlencoded c t (c_default c)
  | _, _ => Unmodelled
  end.
Fixpoint try_formats (c : mclass) (fs : list wire) (v : pyval) : res msg :=
  match fs with
  | [] => Err EFormat
  | f :: r => match deser_as c f v with
              | Err e => if exc_eqb e EFormat then try_formats c r v else Err e
              | x => x
              end
  end.
Definition one_of (c : mclass) (sformat : wire) (v : pyval) : res msg :=
  try_formats c (one_of_order sformat) v.

(* ================================ oidc.AuthorizationRequest.verify ================================
   (no `request` / `id_token_hint`: those need the key jar and are exercised on the real code only)
   kwargs: only `nonce` matters for the rules below. *)
Definition py_contains (x : pystr) (v : pyval) : res bool :=     (* x in v *)
  match v with
  | VList l => Ok (existsb (fun i => py_eq (VStr x) i) l)
  | VStr s => Ok (contains x s)
  | VDict d => Ok (has_key x d)
  | _ => Unmodelled
  end.
Definition py_len (v : pyval) : res nat :=
  match v with
  | VList l => Ok (length l) | VStr s => Ok (length s) | VDict d => Ok (length d)
  | _ => Unmodelled
  end.
Definition authz_rules (nonce_kw : option pystr) (m : msg) : res unit :=
  match assoc (PS "response_type") m with
  | None => Err EMissingRequired
  | Some rt =>
      has_idt <- py_contains (PS "id_token") rt ;;
      _ <- (if has_idt then
              match assoc (PS "nonce") m with
              | None => Err EMissingRequired
              | Some n => match nonce_kw with
                          | Some x => if py_eq n (VStr x) then Ok tt else Err ValueError
                          | None => Ok tt
                          end
              end
            else Ok tt) ;;
      let scope := match assoc (PS "scope") m with Some s => s | None => VList [] end in
      has_openid <- py_contains (PS "openid") scope ;;
      if negb has_openid then Err EMissingValue else
      has_offline <- py_contains (PS "offline_access") scope ;;
      _ <- (if has_offline then
              match assoc (PS "prompt") m with
              | None => Err EMissingValue
              | Some pr => c <- py_contains (PS "consent") pr ;; if c then Ok tt else Err EMissingValue
              end
            else Ok tt) ;;
      match assoc (PS "prompt") m with
      | None => Ok tt
      | Some pr =>
          has_none <- py_contains (PS "none") pr ;;
          n <- py_len pr ;;
          if has_none && Nat.ltb 1 n then Err EInvalidRequest else Ok tt
      end
  end.
Definition verified_request : pystr := PS "__verified_request".
Definition authz_verify (c : mclass) (nonce_kw : option pystr) (m : msg) : res msg :=
  _ <- generic_verify c m ;;
  let m1 := adel verified_request m in
  (* a request passed by reference (request_uri) is complete only after the provider has fetched the object: its
     nonce / consent rules are applied to the assembled request (153df1e; modelled in Model/Jar.v, property C16) *)
  if has_key (PS "request") m1 || has_key (PS "id_token_hint") m1 || has_key (PS "request_uri") m1 then Unmodelled else
  _ <- authz_rules nonce_kw m1 ;;
  Ok m1.

(* ================================ verify() of the classes that unpack a request object ================================
   oauth2.JWTSecuredAuthorizationRequest.verify (RFC 9101; strict merge, `request` or `request_uri` needed)
   and oauth2.PushedAuthorizationRequest.verify (lax merge).  The signature check of the request object is
   symbolic: `payload` = Some p when the object's signature verified and p is its content, None otherwise
   (the exceptions of cryptojwt are outside the model).  `roc` is the class the object is read as
   (oauth2.AuthorizationRequest).  Order of the code: unpack, merge, store the verified object under the
   marker key, and LAST the generic check - on the message as it stands after the merge. *)
Definition EMissingAttribute : exc := Refused 15.   (* MissingAttribute *)
Definition EParameter : exc := Refused 19.          (* ParameterError *)
Definition keep_keys (ro m : msg) : msg := List.filter (fun kv => has_key (fst kv) ro) m.
(* Message.update(other message): self._dict[key] = val for every item *)
Definition msg_update (ro m : msg) : msg := fold_left (fun acc kv => aset (fst kv) (snd kv) acc) ro m.
(* AuthorizationRequest.merge(request_object, "strict" | "lax") after the old marker has been deleted *)
Definition request_merge (strict : bool) (ro m : msg) : msg :=
  let m0 := adel verified_request m in
  msg_update ro (if strict then keep_keys ro m0 else m0).
Definition unpack_request (strict : bool) (c roc : mclass) (payload : option msg) (m : msg) : res msg :=
  match payload with
  | None => Unmodelled
  | Some p =>
      ro <- construct roc p ;;
      let m1 := aset verified_request (VObj ro) (request_merge strict ro m) in
      _ <- generic_verify c m1 ;; Ok m1
  end.
Definition jar_verify (c roc : mclass) (payload : option msg) (m : msg) : res msg :=
  if has_key (PS "request") m then unpack_request true c roc payload m
  else if has_key (PS "request_uri") m then _ <- generic_verify c m ;; Ok m
  else Err EMissingAttribute.
Definition par_verify (c roc : mclass) (payload : option msg) (m : msg) : res msg :=
  if has_key (PS "request") m then unpack_request false c roc payload m
  else _ <- generic_verify c m ;; Ok m.

(* ================================ embedded signed objects, symbolically ================================
   What Message.from_jwt(txt, keyjar) is handed, with the cryptography symbolic: a JWS whose signature verifies
   under a key of the expected issuer (SigValid), does not (SigBad: altered, foreign key), or whose header
   says alg none (SigNone: nothing is checked); a bare JSON text; any of these encrypted to the verifier's OWN
   encryption key (the public half is published: anybody can produce one; decryption is the identity);
   anything else. *)
Inductive sigstate := SigValid | SigBad | SigNone.
Inductive token :=
| TJws (s : sigstate) (alg : pystr) (p : msg)
| TJson (p : msg)
| TJwe (inner : token)
| TJunk.
(* the text after the optional decryption: (JWS header alg | None when no JWS was unpacked, content) *)
Definition open_plain (t : token) : res (option pystr * msg) :=
  match t with
  | TJws SigValid alg p => Ok (Some alg, p)
  | TJws SigNone alg p => Ok (Some alg, p)       (* header alg none: no signature is checked *)
  | TJson p => Ok (None, p)                      (* not a JWS: json.loads(txt) *)
  | _ => Unmodelled                              (* the exceptions of cryptojwt are outside the model *)
  end.
Definition open_token (t : token) : res (option pystr * msg) :=
  match t with
  | TJwe i => open_plain i
  | TJson _ => Unmodelled                        (* jwe_factory raises on a text that is not compact-serialised *)
  | _ => open_plain t
  end.
Definition token_payload (t : token) : option msg :=
  match open_token t with Ok (_, p) => Some p | _ => None end.
(* the token carries a valid signature of the expected issuer made with algorithm a, encrypted or not *)
Definition signed_with (a : pystr) (t : token) : Prop :=
  exists p, t = TJws SigValid a p \/ t = TJwe (TJws SigValid a p).

(* an embedded object unpacked into class lc, checked by that class's verify (`rules`), then the
   allowed_sign_alg keyword: `self.jws_header["alg"] != allowed` - subscripting the missing header of an object
   that was not unpacked from a JWS raises TypeError, and that is the refusal of unsigned content *)
Definition EUnsupportedAlg : exc := Refused 16.   (* UnsupportedAlgorithm *)
Definition alg_check (allowed : option pystr) (hdr : option pystr) : res unit :=
  match allowed with
  | None | Some [] => Ok tt
  | Some a => match hdr with
              | None => Err TypeError
              | Some alg => if str_eqb alg a then Ok tt else Err EUnsupportedAlg
              end
  end.
Definition embedded_verify (rules : msg -> res unit) (allowed : option pystr) (lc : mclass) (t : token) : res msg :=
  hp <- open_token t ;;
  o <- construct lc (snd hp) ;;
  _ <- rules o ;;
  _ <- alg_check allowed (fst hp) ;;
  Ok o.

(* ================================ comparison helpers ================================ *)
Definition entry_eqb (a b : pystr * pyval) : bool := str_eqb (fst a) (fst b) && pyval_eqb (snd a) (snd b).
Definition msg_eqb (a b : msg) : bool := list_eqb entry_eqb a b.

(* ================================ the modelled fragment; validity ================================
   Boolean predicates used in the statements of the theorems (Props/C10.v, Props/C11.v). *)
Inductive mkind := KStr | KInt | KBool | KList | KSpSep.
Definition modelled_kind (p : param) : option mkind :=
  match p_ty p, p_ser p, p_deser p, p_null p with
  | PScalar TStr, SNone, DNone, false => Some KStr
  | PScalar TInt, SNone, DNone, false => Some KInt
  | PScalar TBool, SNone, DNone, false => Some KBool
  | PList TStr, SList, DList, false => Some KList
  | PList TStr, SSpSep, DSpSep, false => Some KSpSep
  | _, _, _, _ => None
  end.
Definition param_modelled (p : param) : bool :=
  match modelled_kind p with Some _ => true | None => false end.

Definition encodable (s : pystr) : bool := forallb is_scalar s.       (* s.encode("utf-8") succeeds *)
Definition no_space (s : pystr) : bool := no_c sp s.
(* a non-empty list of str that is not [""] (from_dict skips [] and [""]) *)
Definition str_list_ok (l : list pyval) : bool :=
  forallb is_str l && match l with [] => false | [VStr []] => false | _ => true end.

(* ---- a value a parameter of the given kind can hold (what construction stores for it) ---- *)
Definition valid_value (k : mkind) (v : pyval) : bool :=
  match k, v with
  | KStr, VStr s => nonempty s
  | KInt, VInt _ => true
  | KBool, VBool _ => true
  | KList, VList l => str_list_ok l
  | KSpSep, VList l => str_list_ok l && forallb (fun x => no_space (str_of x)) l
      (* an element with a space is not a value of a space-separated list *)
  | _, _ => false
  end.
Definition valid_extra (v : pyval) : bool := negb (is_blank v) && negb (holds_message v).
Definition valid_entry (c : mclass) (kv : pystr * pyval) : bool :=
  match lookup c (fst kv) with
  | None => valid_extra (snd kv)
  | Some p => match modelled_kind p with Some k => valid_value k (snd kv) | None => false end
  end.
Definition keys (m : msg) : list pystr := List.map fst m.
(* a message of the modelled fragment: every entry valid for its schema, keys distinct, the class
   defaults present (as they are in every constructed message) *)
Definition valid_msg (c : mclass) (m : msg) : bool :=
  negb (has_star c) && forallb (valid_entry c) m && nodup_str (keys m)
  && forallb (fun kv => has_key (fst kv) m) (c_default c).

(* ---- form encoding: what it can carry ---- *)
Definition form_extra (v : pyval) : bool :=
  match v with VStr s => nonempty s | VInt _ | VBool _ => true | _ => false end.
Definition all_encodable (v : pyval) : bool :=
  match v with
  | VStr s => encodable s
  | VList l => forallb (fun x => encodable (str_of x)) l
  | _ => true
  end.
Definition form_entry (c : mclass) (kv : pystr * pyval) : bool :=
  encodable (fst kv) && all_encodable (snd kv)
  && match lookup c (fst kv) with None => form_extra (snd kv) | Some _ => true end.
Definition valid_form (c : mclass) (m : msg) : bool :=
  valid_msg c m && forallb (form_entry c) m && negb (missing_required c m).
(* the guard of known finding F17: elements of list_serializer lists contain no space *)
Definition list_elems_no_space (c : mclass) (m : msg) : bool :=
  forallb (fun kv => match lookup c (fst kv) with
                     | Some p => match modelled_kind p, snd kv with
                                 | Some KList, VList l => forallb (fun x => no_space (str_of x)) l
                                 | _, _ => true
                                 end
                     | None => true
                     end) m.
(* the textual rendering of int and bool, which form encoding cannot distinguish from str *)
Definition form_render (v : pyval) : pyval :=
  match v with
  | VInt z => VStr (str_of_int z)
  | VBool true => VStr (PS "True")
  | VBool false => VStr (PS "False")
  | _ => v
  end.

(* ---- the schema as the property text reads it (C11): required present and non-empty,
        enumerated values inside their set ---- *)
Definition required_ok (m : msg) (p : param) : bool :=
  negb (p_req p) ||
  match assoc (p_name p) m with
  | Some v => is_bool_ty (p_ty p) || py_truthy v
  | None => false
  end.
Definition enumerated_ok (c : mclass) (m : msg) (p : param) : bool :=
  match assoc (p_name p) (c_allowed c), assoc (p_name p) m with
  | Some al, Some v =>
      if negb (is_bool_ty (p_ty p)) && negb (py_truthy v) then true      (* an empty optional value *)
      else type_check (p_ty p) al v (p_null p)
  | _, _ => true
  end.
Definition schema_ok (c : mclass) (m : msg) : bool :=
  forallb (fun p => str_eqb (p_name p) star || (required_ok m p && enumerated_ok c m p)) (c_params c).

(* ---- typed slots (C11): the value _add_value stores has the declared type ---- *)
Definition has_type (t : ptype) (v : pyval) : bool :=
  match t with
  | PScalar TStr => is_str v
  | PScalar TInt => match v with VInt _ => true | _ => false end
  | PScalar TBool => match v with VBool _ => true | _ => false end
  | PScalar TDict => match v with VDict _ => true | _ => false end
  | PList TStr => match v with VList l => forallb is_str l | _ => false end
  | _ => false
  end.
(* the guard of the list-slot defect: a dict given to a [str] parameter is stored as it is *)
Definition slot_guard (p : param) (v : pyval) : bool :=
  match p_ty p, v with PList _, VDict _ => false | _, _ => true end.
(* w is v coerced without loss of information: int("12") = 12, a bare str wrapped / split into
   the list it denotes (joining the result gives the text back) *)
Definition coerced (p : param) (v w : pyval) : bool :=
  match p_ty p, v, w with
  | PScalar TInt, VStr s, VInt z => match py_int s with Ok z' => Z.eqb z z' | _ => false end
  | PList TStr, VStr s, VList l =>
      match p_deser p with
      | DList => list_eqb str_eqb (strs l) [s]
      | DSpSep => str_eqb (join [sp] (strs l)) s
      | _ => false
      end
  | PList TStr, VList [VStr s], VList l =>
      match p_deser p with DSpSep => str_eqb (join [sp] (strs l)) s | _ => false end
  | _, _, _ => false
  end.

(* ---- the cross-parameter rules of oidc.AuthorizationRequest as the specification states them ---- *)
Definition list_has (x : pystr) (v : option pyval) : bool :=
  match v with Some (VList l) => existsb (fun i => py_eq (VStr x) i) l | _ => false end.
Definition list_len (v : option pyval) : nat := match v with Some (VList l) => length l | _ => O end.
Definition is_list_or_absent (v : option pyval) : bool :=
  match v with Some (VList _) | None => true | _ => false end.
Definition authz_lists_typed (m : msg) : bool :=
  is_list_or_absent (assoc (PS "response_type") m) && is_list_or_absent (assoc (PS "scope") m)
  && is_list_or_absent (assoc (PS "prompt") m).
Definition authz_ok (nonce_kw : option pystr) (m : msg) : bool :=
  has_key (PS "response_type") m
  (* an id_token response type needs a nonce (equal to the expected one when that is given) *)
  && implb (list_has (PS "id_token") (assoc (PS "response_type") m))
           (match assoc (PS "nonce") m, nonce_kw with
            | Some n, Some x => py_eq n (VStr x)
            | Some _, None => true
            | None, _ => false
            end)
  (* openid must be among the scopes *)
  && list_has (PS "openid") (assoc (PS "scope") m)
  (* offline_access needs prompt=consent *)
  && implb (list_has (PS "offline_access") (assoc (PS "scope") m)) (list_has (PS "consent") (assoc (PS "prompt") m))
  (* prompt=none stands alone *)
  && negb (list_has (PS "none") (assoc (PS "prompt") m) && Nat.ltb 1 (list_len (assoc (PS "prompt") m))).
