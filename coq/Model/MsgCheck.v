(* Model/MsgCheck.v — boolean checkers evaluated over generated correspondence case files
   (harness/drv_C10.py, harness/drv_C11.py).  Each case embeds the inputs AND what the real code
   answered; the checker recomputes the model's answer over the regenerated table Gen/Schema.v. *)
From Coq Require Import String.
From Verif Require Import Lib.Base Lib.PyStr Lib.Urlenc Lib.Utf8 Lib.Qs Lib.MsgSchema Gen.Schema Model.Msg.

Definition with_class {A} (n : pystr) (f : mclass -> res A) : res A :=
  match find_class n all_classes with Some c => f c | None => Unmodelled end.

Definition res_msg_eqb := res_eqb msg_eqb.
Definition unit_eqb (a b : unit) : bool := true.

(* Cls( **kwargs )._dict *)
Definition m_construct (x : pystr * msg) : res msg := with_class (fst x) (fun c => construct c (snd x)).
Definition chk_construct (x : pystr * msg * res msg) : bool := res_msg_eqb (m_construct (fst x)) (snd x).
(* m.to_dict() for a message whose _dict is given *)
Definition m_to_dict (x : pystr * msg) : res msg := with_class (fst x) (fun c => to_dict c (snd x)).
Definition chk_to_dict (x : pystr * msg * res msg) : bool := res_msg_eqb (m_to_dict (fst x)) (snd x).
(* m.to_urlencoded() *)
Definition m_to_url (x : pystr * msg) : res pystr := with_class (fst x) (fun c => to_urlencoded c (snd x)).
Definition chk_to_url (x : pystr * msg * res pystr) : bool := res_eqb str_eqb (m_to_url (fst x)) (snd x).
(* Cls().from_urlencoded(text)._dict *)
Definition m_from_url (x : pystr * pystr) : res msg :=
  with_class (fst x) (fun c => from_urlencoded c (snd x) (c_default c)).
Definition chk_from_url (x : pystr * pystr * res msg) : bool := res_msg_eqb (m_from_url (fst x)) (snd x).
(* a nested-message deserializer (deserialize_from_one_of and the parameter deserializers built on it):
   (nested class, sformat, value) -> the nested message's _dict *)
Definition m_one_of (x : pystr * wire * pyval) : res msg :=
  let '(n, f, v) := x in with_class n (fun c => one_of c f v).
Definition chk_one_of (x : pystr * wire * pyval * res msg) : bool := res_msg_eqb (m_one_of (fst x)) (snd x).
(* Message.verify(m) — the generic check alone *)
Definition m_verify (x : pystr * msg) : res unit := with_class (fst x) (fun c => generic_verify c (snd x)).
Definition chk_verify (x : pystr * msg * res unit) : bool := res_eqb unit_eqb (m_verify (fst x)) (snd x).
(* oidc.AuthorizationRequest / OpenIDRequest: m.verify(nonce=...) and the message afterwards *)
Definition m_authz (x : pystr * option pystr * msg) : res msg :=
  let '(n, nonce, m) := x in with_class n (fun c => authz_verify c nonce m).
Definition chk_authz (x : pystr * option pystr * msg * res msg) : bool := res_msg_eqb (m_authz (fst x)) (snd x).

(* verify() with a request object: (rule jar | par, class, class the object is read as, content of the
   verified object, message before) vs the message afterwards (the verified object under the marker key) *)
Definition request_case := (pystr * pystr * pystr * token * msg)%type.
Definition m_request (x : request_case) : res msg :=
  let '(rule, n, ron, t, m) := x in
  with_class n (fun c => with_class ron (fun roc =>
    if str_eqb rule (PS "jar") then jar_verify c roc (token_payload t) m
    else if str_eqb rule (PS "par") then par_verify c roc (token_payload t) m
    else Unmodelled)).
Definition chk_request (x : request_case * res msg) : bool := res_msg_eqb (m_request (fst x)) (snd x).

(* the text layer *)
Definition chk_utf8_enc (x : pystr * option (list N)) : bool :=
  option_eqb (list_eqb N.eqb) (utf8_encode (fst x)) (snd x).
Definition chk_utf8_dec (x : list N * option pystr) : bool :=
  option_eqb str_eqb (utf8_decode (fst x)) (snd x).
Definition pair_eqb (a b : pystr * pystr) : bool := str_eqb (fst a) (fst b) && str_eqb (snd a) (snd b).
Definition chk_urlencode (x : list (pystr * pystr) * option pystr) : bool :=
  option_eqb str_eqb (urlencode (fst x)) (snd x).
Definition chk_parse_qsl (x : pystr * res (list (pystr * pystr))) : bool :=
  res_eqb (list_eqb pair_eqb) (parse_qsl (fst x)) (snd x).

(* class-specific verify(): (rule set, class, now, kwargs, message) vs (what verify() returned, message afterwards) *)
From Verif Require Import Model.MsgRules.
Definition rules_case := (pystr * pystr * Z * msg * msg)%type.
Definition m_rules (x : rules_case) : res (bool * msg) :=
  let '(rule, n, now, kw, m) := x in with_class n (fun c => class_rules rule c now kw m).
Definition bm_eqb (a b : bool * msg) : bool := Bool.eqb (fst a) (fst b) && msg_eqb (snd a) (snd b).
Definition chk_rules (x : rules_case * res (bool * msg)) : bool := res_eqb bm_eqb (m_rules (fst x)) (snd x).

(* session.BackChannelLogoutRequest.verify with keyword arguments kw: generic check, LogoutToken().from_jwt(logout_token), the
   token's own verify (all its rules, then allowed_sign_alg), the verified token stored under the marker key.
   (class, LogoutToken class, now, kwargs without the key jar, the token symbolically, message before) *)
Definition verified_logout_token : pystr := PS "__verified_logout_token".
Definition kw_allowed (kw : msg) : res (option pystr) :=
  match get "allowed_sign_alg" kw with
  | None | Some VNone => Ok None
  | Some (VStr a) => Ok (Some a)
  | Some _ => Unmodelled
  end.
Definition bclogout_verify (c lc : mclass) (now : Z) (kw : msg) (t : token) (m : msg) : res msg :=
  _ <- generic_verify c m ;;
  allowed <- kw_allowed kw ;;
  lt <- embedded_verify (fun o => logout_verify lc now (adel (PS "allowed_sign_alg") kw) o) allowed lc t ;;
  Ok (aset verified_logout_token (VObj lt) m).
Definition bclogout_case := (pystr * pystr * Z * msg * token * msg)%type.
Definition m_bclogout (x : bclogout_case) : res msg :=
  let '(n, ln, now, kw, t, m) := x in
  with_class n (fun c => with_class ln (fun lc => bclogout_verify c lc now kw t m)).
Definition chk_bclogout (x : bclogout_case * res msg) : bool := res_msg_eqb (m_bclogout (fst x)) (snd x).

(* oidc.AuthorizationResponse / oidc.AccessTokenResponse .verify with a signed ID Token (Model/MsgRules.v
   oidc_authzresp_verify_idt / oidc_tokenresp_verify_idt):
   (authorization response? (else token response), class, IdToken class, now, kwargs without the key jar, issuers
   the key jar knows, hash table (bits, value, digest), the token symbolically, message before)
   vs (what verify() returned, message afterwards with the verified token under the marker key) *)
Definition idt_resp_case :=
  (bool * pystr * pystr * Z * msg * list pystr * list (pystr * pystr * pystr) * token * msg)%type.
Definition m_authzresp_idt (x : idt_resp_case) : res (bool * msg) :=
  let '(is_authz, n, icn, now, kw, issuers, tbl, t, m) := x in
  with_class n (fun c => with_class icn (fun ic =>
    if is_authz : bool then oidc_authzresp_verify_idt (lhash_of tbl) issuers c ic now kw t m
    else oidc_tokenresp_verify_idt (lhash_of tbl) issuers c ic now kw t m)).
Definition chk_authzresp_idt (x : idt_resp_case * res (bool * msg)) : bool :=
  res_eqb bm_eqb (m_authzresp_idt (fst x)) (snd x).

(* backchannel_authentication.AuthenticationRequest.verify (Model/MsgRules.v ciba_authn_verify):
   (class, AuthenticationRequestJWT class, IdToken class, kwargs without the key jar, the request object and the
   id_token_hint symbolically, message before) vs the message afterwards *)
Definition ciba_case := (pystr * pystr * pystr * msg * token * token * msg)%type.
Definition m_ciba (x : ciba_case) : res msg :=
  let '(n, rjn, icn, kw, rt, ht, m) := x in
  with_class n (fun c => with_class rjn (fun rjc => with_class icn (fun ic => ciba_authn_verify c rjc ic kw rt ht m))).
Definition chk_ciba (x : ciba_case * res msg) : bool := res_msg_eqb (m_ciba (fst x)) (snd x).
(* Message.has_none_or_one_of(claims) on a message: (claims, message) vs the answer *)
Definition m_none_or_one (x : list pystr * msg) : res bool := Ok (msg_has_none_or_one_of (fst x) (snd x)).
Definition chk_none_or_one (x : list pystr * msg * res bool) : bool := res_eqb Bool.eqb (m_none_or_one (fst x)) (snd x).
