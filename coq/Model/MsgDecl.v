(* Model/MsgDecl.v — C11: the DECLARED schema tables (Gen/SchemaDecl.v: evaluated by harness/schema_decl.py from the
   SOURCE TEXT of the class bodies, by value, independently of import order) against the RUN-TIME tables
   (Gen/Schema.v: read off the class objects after every module of the package has been imported).

   Why two tables.  c_param / c_default / c_allowed_values are mutable dicts hanging off the class objects.  A class
   body `c_param = Parent.c_param` (no copy) followed by `c_param.update({...})`, a shallow copy whose lists are then
   extended, or module-level code writing into another class's table, changes what ANOTHER class enforces from the
   moment the module is imported.  The run-time table follows such a change silently (it is self-consistent), so every
   statement about "the schema" proved over Gen/Schema.v alone is a statement about whatever the import left behind.
   `declared_view` rebuilds every class of the run-time table with the three tables the source declares for it;
   Props/C11.v states that this changes nothing (C11_declared_is_runtime), re-established or broken on every run. *)
From Coq Require Import String List.
From Verif Require Import Lib.Base Lib.MsgSchema.
Import ListNotations.

(* (c_param, c_allowed_values, c_default) *)
Definition dschema := (list param * list (pystr * list pyval) * list (pystr * pyval))%type.

(* the class as the source declares it: name, bases and the verify() facts are kept, the three tables replaced *)
Definition as_declared (c : mclass) (d : dschema) : mclass :=
  let '(ps, al, df) := d in
  mkC (c_name c) (c_bases c) ps al df (c_overrides_verify c) (c_chains c) (c_chain_pos c).

Definition with_declared (ds : list (pystr * dschema)) (c : mclass) : option mclass :=
  match assoc (c_name c) ds with
  | Some d => Some (as_declared c d)
  | None => None          (* no declaration evaluated for this class: nothing to stand on *)
  end.

Definition declared_view (ds : list (pystr * dschema)) (cs : list mclass) : list (option mclass) :=
  List.map (with_declared ds) cs.

(* the declared table speaks about exactly the classes of the run-time table, once each *)
Definition same_classes (ds : list (pystr * dschema)) (cs : list mclass) : bool :=
  list_eqb str_eqb (List.map fst ds) (List.map c_name cs).

(* ---- the same comparison, entry by entry, with a readable answer: (class, table, key) of every entry on which the
   declared and the run-time tables differ ("<order>": same entries, another order; "<undeclared>": no declaration).
   `drift ... = []` is stated first in Props/C11.v, so that a drift is reported by naming the entries. ---- *)
Definition param_eqb (a b : param) : bool :=
  str_eqb (p_name a) (p_name b) && kind_eqb (kind_of a) (kind_of b) && Bool.eqb (p_req a) (p_req b).

Section Drift.
  Context {V : Type} (eqb : V -> V -> bool).
  Definition keys_differing (a b : list (pystr * V)) : list pystr :=
    let bad k := negb (option_eqb eqb (assoc k a) (assoc k b)) in
    let ka := List.map fst a in
    let kb := List.filter (fun k => negb (str_in k ka)) (List.map fst b) in
    match List.filter bad (ka ++ kb) with
    | [] => if list_eqb str_eqb ka (List.map fst b) then [] else [PS "<order>"]
    | l => l
    end.
End Drift.

Definition tbl_param : pystr := PS "c_param".
Definition tbl_allowed : pystr := PS "c_allowed_values".
Definition tbl_default : pystr := PS "c_default".

Definition drift_of_class (ds : list (pystr * dschema)) (c : mclass) : list (pystr * pystr * pystr) :=
  match assoc (c_name c) ds with
  | None => [(c_name c, PS "<undeclared>", PS "")]
  | Some (ps, al, df) =>
      let named l := List.map (fun p => (p_name p, p)) l in
      List.map (fun k => (c_name c, tbl_param, k)) (keys_differing param_eqb (named ps) (named (c_params c)))
      ++ List.map (fun k => (c_name c, tbl_allowed, k)) (keys_differing (list_eqb pyval_eqb) al (c_allowed c))
      ++ List.map (fun k => (c_name c, tbl_default, k)) (keys_differing pyval_eqb df (c_default c))
  end.

Definition drift (ds : list (pystr * dschema)) (cs : list mclass) : list (pystr * pystr * pystr) :=
  List.flat_map (drift_of_class ds) cs.
