(* Model/MsgHistory.v — histories of round trips in ONE process (property C10, round 11).

   Model/Msg.v is a model by pure functions: `construct c d`, `from_urlencoded c t (c_default c)`, `one_of c f v`
   take the class and the wire form and nothing else, and a message is a value.  The implementation is a process
   with a heap: messages are objects holding lists and dicts, classes hold defaults, modules can hold tables.  The
   tie between the two therefore has a second half that the single-cycle correspondence never exercised:

     deserialisation is a FUNCTION of the wire form alone - after ANY history of deserialisations, in-place edits of
     the instances received (by their holders) and serialisations in the same process, reading wire form t with
     class c gives what the model gives for (c, t); and an edit of one held instance changes no other instance.

   This file states the process the driver runs (harness/drv_C10.py `history`) as a small state machine over the
   pure functions: the state is the list of instances the process holds (one slot per reading, None when the
   reading was refused), an edit replaces ONE slot (what `x["contacts"].append(..)`, `del x["extra"]["k"]`, ... do to
   the holder's instance, as the resulting member values), a reading appends a slot and answers from the wire form.
   `chk_history` compares a recorded history of the real classes with it, event by event.  The theorems
   (Proofs/MsgHistory_proofs.v, Props/C10.v round 11) say what the model's side of the tie is: an answer does not
   depend on the state, an edit stays in its slot, and the round-trip theorems hold at the end of every history. *)
From Coq Require Import String.
From Verif Require Import Lib.Base Lib.PyStr Lib.MsgSchema Gen.Schema Model.Msg Model.MsgCheck.
Open Scope string_scope.

(* one event, classes by name as the case files give them *)
Inductive hev :=
| HConstruct (cls : pystr) (d : msg)              (* Cls( **d ) / Cls().from_dict(d) / from_json(text of d) *)
| HFromUrl (cls : pystr) (t : pystr)              (* Cls().from_urlencoded(t) *)
| HOneOf (cls : pystr) (f : wire) (v : pyval)     (* a nested-message deserializer *)
| HSet (slot : nat) (k : pystr) (v : pyval)       (* the holder of instance `slot` edits it: member k now says v *)
| HDel (slot : nat) (k : pystr)                   (* ... member k is gone *)
| HToDict (cls : pystr) (slot : nat)              (* instance `slot` is serialised *)
| HToUrl (cls : pystr) (slot : nat).

Inductive hout := OMsg (r : res msg) | OText (r : res pystr) | ONone.

Definition store := list (option msg).

(* what a reading answers: a function of the event alone *)
Definition recv_out (e : hev) : option (res msg) :=
  match e with
  | HConstruct n d => Some (m_construct (n, d))
  | HFromUrl n t => Some (m_from_url (n, t))
  | HOneOf n f v => Some (m_one_of (n, f, v))
  | _ => None
  end.

Definition held (r : res msg) : option msg := match r with Ok m => Some m | _ => None end.

Fixpoint upd_slot (i : nat) (f : msg -> msg) (st : store) : store :=
  match st, i with
  | [], _ => []
  | x :: r, O => option_map f x :: r
  | x :: r, S j => x :: upd_slot j f r
  end.

Definition slot_msg (st : store) (i : nat) : res msg :=
  match nth_error st i with Some (Some m) => Ok m | _ => Unmodelled end.

Definition hstep (st : store) (e : hev) : store * hout :=
  match recv_out e with
  | Some r => ((st ++ [held r])%list, OMsg r)
  | None =>
      match e with
      | HSet i k v => (upd_slot i (aset k v) st, ONone)
      | HDel i k => (upd_slot i (adel k) st, ONone)
      | HToDict n i => (st, OMsg (m <- slot_msg st i ;; m_to_dict (n, m)))
      | HToUrl n i => (st, OText (m <- slot_msg st i ;; m_to_url (n, m)))
      | _ => (st, ONone)
      end
  end.

Fixpoint hrun (st : store) (es : list hev) : store * list hout :=
  match es with
  | [] => (st, [])
  | e :: r => let '(st1, o) := hstep st e in let '(st2, os) := hrun st1 r in (st2, o :: os)
  end.

(* ---- the checker for recorded histories ---- *)
Definition hout_unmodelled (o : hout) : bool :=
  match o with OMsg Unmodelled | OText Unmodelled => true | _ => false end.
Definition m_history (es : list hev) : res (list hout) :=
  let os := snd (hrun [] es) in
  if existsb hout_unmodelled os then Unmodelled else Ok os.
Definition hout_eqb (a b : hout) : bool :=
  match a, b with
  | OMsg x, OMsg y => res_msg_eqb x y
  | OText x, OText y => res_eqb str_eqb x y
  | ONone, ONone => true
  | _, _ => false
  end.
Definition chk_history (x : list hev * res (list hout)) : bool :=
  res_eqb (list_eqb hout_eqb) (m_history (fst x)) (snd x).
