(* Model/MsgKinds.v — the parameter kinds that occur in the package, pinned by hand.
   `param_modelled` (Model/Msg.v) names the five kinds the Gallina model and the C10/C11 theorems
   cover (777 of the 861 declared parameters at the time of writing).  The 29 kinds below are the
   ones left opaque: nested Message objects, JSON-text kinds and the bespoke identity-assurance
   (de)serialisers; for those the property is decided on the real code by the drivers' oracles only.
   The table theorem `forallb kind_supported all_params = true` (Proofs/MsgTable_proofs.v) is
   recomputed over the regenerated Gen/Schema.v on every run: a parameter of any kind that is neither
   modelled nor listed here (a new serializer, a new value type, a changed null flag) makes it fail,
   so that the new kind has to be modelled or consciously added to this list. *)
From Coq Require Import String.
From Verif Require Import Lib.Base Lib.MsgSchema Model.Msg.

Definition opaque_kinds : list kind := [
  ((PScalar TDict), SJson, DJson, false);
  ((PScalar (TMsg (PS "idpyoidc.message.Message"))), SMsgJson, (DOpaque (PS "idpyoidc.message.oidc.claims_request_deser")), false);
  ((PScalar (TMsg (PS "idpyoidc.message.Message"))), SMsg, DNone, false);
  ((PScalar (TMsg (PS "idpyoidc.message.Message"))), (SOpaque (PS "idpyoidc.message.oidc.claims_ser")), (DOpaque (PS "idpyoidc.message.oidc.claims_deser")), false);
  ((PScalar (TMsg (PS "idpyoidc.message.Message"))), SMsg, (DOpaque (PS "idpyoidc.message.oidc.address_deser")), false);
  ((PScalar (TMsg (PS "idpyoidc.message.Message"))), SMsg, DMsg, false);
  ((PScalar TDict), SMsgJson, DDictText, false);
  ((PList (TMsg (PS "idpyoidc.message.oidc.Link"))), (SOpaque (PS "idpyoidc.message.oidc.link_list_ser")), (DOpaque (PS "idpyoidc.message.oidc.link_deser")), false);
  ((PScalar (TMsg (PS "idpyoidc.message.oidc.identity_assurance.EvidenceRef"))), SMsg, (DOpaque (PS "idpyoidc.message.oidc.identity_assurance.evidence_ref_deser")), false);
  ((PScalar (TMsg (PS "idpyoidc.message.oidc.identity_assurance.AssuranceDetails"))), SMsg, (DOpaque (PS "idpyoidc.message.oidc.identity_assurance.assurance_details_deser")), false);
  ((PScalar TStr), (SOpaque (PS "idpyoidc.message.oidc.identity_assurance.date_ser")), (DOpaque (PS "idpyoidc.message.oidc.identity_assurance.date_deser")), false);
  ((PScalar (TMsg (PS "idpyoidc.message.oidc.identity_assurance.Voucher"))), SMsg, (DOpaque (PS "idpyoidc.message.oidc.identity_assurance.voucher_deser")), false);
  ((PScalar TStr), (SOpaque (PS "idpyoidc.message.oidc.identity_assurance.time_stamp_ser")), (DOpaque (PS "idpyoidc.message.oidc.identity_assurance.time_stamp_deser")), false);
  ((PScalar TAny), (SOpaque (PS "idpyoidc.message.any_ser")), (DOpaque (PS "idpyoidc.message.any_deser")), false);
  ((PList TAny), (SOpaque (PS "idpyoidc.message.ser_any_list")), (DOpaque (PS "idpyoidc.message.deser_any_list")), false);
  ((PList (TMsg (PS "idpyoidc.message.Message"))), SMsgList, DMsgList, false);
  ((PList (TMsg (PS "idpyoidc.message.oidc.identity_assurance.CheckDetails"))), SMsgList, (DOpaque (PS "idpyoidc.message.oidc.identity_assurance.check_details_list_deser")), true);
  ((PList (TMsg (PS "idpyoidc.message.oidc.identity_assurance.Verifier"))), SMsg, (DOpaque (PS "idpyoidc.message.oidc.identity_assurance.verifier_list_deser")), false);
  ((PScalar (TMsg (PS "idpyoidc.message.oidc.identity_assurance.DocumentDetails"))), SMsg, (DOpaque (PS "idpyoidc.message.oidc.identity_assurance.document_details_deser")), false);
  ((PScalar (TMsg (PS "idpyoidc.message.oidc.identity_assurance.Issuer"))), SMsg, (DOpaque (PS "idpyoidc.message.oidc.identity_assurance.issuer_deser")), false);
  ((PScalar (TMsg (PS "idpyoidc.message.oidc.identity_assurance.Record"))), SMsgList, (DOpaque (PS "idpyoidc.message.oidc.identity_assurance.record_deser")), true);
  ((PScalar (TMsg (PS "idpyoidc.message.oidc.identity_assurance.EvidenceMetadata"))), SMsg, (DOpaque (PS "idpyoidc.message.oidc.identity_assurance.evidence_metadata_deser")), false);
  ((PScalar (TMsg (PS "idpyoidc.message.oidc.identity_assurance.Digest"))), SMsg, (DOpaque (PS "idpyoidc.message.oidc.identity_assurance.digest_deser")), false);
  ((PScalar (TMsg (PS "idpyoidc.message.oidc.identity_assurance.PlaceOfBirth"))), SMsgJson, (DOpaque (PS "idpyoidc.message.oidc.identity_assurance.place_of_birth_deser")), false);
  ((PScalar (TMsg (PS "idpyoidc.message.oidc.identity_assurance.Provider"))), SMsg, (DOpaque (PS "idpyoidc.message.oidc.identity_assurance.provider_deser")), false);
  ((PList (TMsg (PS "idpyoidc.message.oidc.identity_assurance.Evidence"))), SMsgList, (DOpaque (PS "idpyoidc.message.oidc.identity_assurance.evidence_list_deser")), true);
  ((PScalar (TMsg (PS "idpyoidc.message.oidc.identity_assurance.AssuranceProcess"))), SMsg, (DOpaque (PS "idpyoidc.message.oidc.identity_assurance.assurance_process_deser")), false);
  ((PScalar (TMsg (PS "idpyoidc.message.oidc.identity_assurance.VerificationElement"))), SMsg, (DOpaque (PS "idpyoidc.message.oidc.identity_assurance.verification_element_deser")), false);
  ((PScalar (TMsg (PS "idpyoidc.message.oidc.identity_assurance.Attestation"))), SMsg, (DOpaque (PS "idpyoidc.message.oidc.identity_assurance.attestation_deser")), false)
].

Definition kind_supported (p : param) : bool :=
  param_modelled p || existsb (kind_eqb (kind_of p)) opaque_kinds.
