(* Model/MsgRules.v — the class-specific verify() rules (cross-parameter rules) of the message classes,
   on top of the generic check of Model/Msg.v:
     oauth2.ResponseMessage, oauth2.AuthorizationResponse, oidc.AuthorizationResponse,
     oidc.RegistrationRequest, oidc.RegistrationResponse, oidc.ProviderConfigurationResponse,
     oidc.OpenIDSchema (incl. the birthdate formats), oidc.IdToken, oidc.JsonWebToken (AuthnToken),
     session.LogoutToken, session.EndSessionRequest, backchannel_authentication.AuthenticationRequest (CIBA),
     oauth2.OauthClientMetadata / OauthClientInformationResponse, device_authorization.AccessTokenRequest;
     the rules over a SET of parameters (at most one / at least one / all or none of) as predicates on the presence list.
   Shape of every rule set: a typed guard (outside it the model answers Unmodelled), then the ordered
   list of (condition that must hold, exception raised otherwise) the code checks.  Embedded signed
   objects (id_token_hint, logout_token, request; forged or unsigned ID Tokens) need the key jar: Unmodelled
   here, decided on the real code by the driver's signed-object matrix.  The ID Token of an authorization /
   token response whose signature verifies is modelled (last section: verify_id_token, the two hash rules).
   Time is the explicit argument `now`.
   Hand-written, executable; tied to /repo by harness/drv_C11.py (truth tables).  No proofs here. *)
From Coq Require Import String.
From Verif Require Import Lib.Base Lib.PyStr Lib.Qs Lib.MsgSchema Model.Msg.
Open Scope N_scope.

Definition EVerification : exc := Refused 8.      (* VerificationError *)
Definition EScheme : exc := Refused 9.            (* SchemeError *)
Definition ENotForMe : exc := Refused 10.         (* NotForMe *)
Definition EIssuerMismatch : exc := Refused 11.   (* IssuerMismatch *)
Definition EExp : exc := Refused 12.              (* EXPError *)
Definition EIat : exc := Refused 13.              (* IATError *)
Definition EMessage : exc := Refused 14.          (* MessageException *)

(* ---- ordered checks ---- *)
Fixpoint run_checks (l : list (bool * exc)) : res unit :=
  match l with
  | [] => Ok tt
  | (true, _) :: r => run_checks r
  | (false, e) :: _ => Err e
  end.
Definition all_hold (l : list (bool * exc)) : bool := forallb fst l.

(* ---- small helpers ---- *)
Definition get (k : string) (m : msg) : option pyval := assoc (PS k) m.
Definition has (k : string) (m : msg) : bool := has_key (PS k) m.
Definition is_list_of_str (v : option pyval) : bool :=
  match v with Some (VList l) => forallb is_str l | None => true | _ => false end.
Definition is_int_or_absent (v : option pyval) : bool :=
  match v with Some (VInt _) | None => true | _ => false end.
Definition int_of (v : option pyval) : Z := match v with Some (VInt z) => z | _ => 0%Z end.
Definition list_of (v : option pyval) : list pyval := match v with Some (VList l) => l | _ => [] end.
Definition kw_str (k : string) (kw : msg) : option pystr :=
  match get k kw with Some (VStr s) => Some s | _ => None end.
Definition kw_int (k : string) (dflt : Z) (kw : msg) : Z :=
  match get k kw with Some (VInt z) => z | _ => dflt end.
Definition str_is (v : option pyval) (s : pystr) : bool :=
  match v with Some x => py_eq x (VStr s) | None => false end.
Definition mem_str (s : pystr) (l : list pyval) : bool := existsb (fun i => py_eq (VStr s) i) l.
Definition ascii (s : pystr) : bool := forallb (fun c => c <? 128) s.
Definition lower1 (c : N) : N := if (65 <=? c) && (c <=? 90) then c + 32 else c.
Definition lower (s : pystr) : pystr := List.map lower1 s.

(* ================= oauth2.ResponseMessage.verify: error_description character set ================= *)
Definition error_char (c : N) : bool :=
  ((65 <=? c) && (c <=? 90)) || ((97 <=? c) && (c <=? 122)) || (c =? 32) || (c =? 33).
Definition response_typed (m : msg) : bool :=
  match get "error_description" m with Some (VStr _) | None => true | _ => false end.
Definition response_checks (m : msg) : list (bool * exc) :=
  [(match get "error_description" m with Some (VStr s) => forallb error_char s | _ => true end, ValueError)].
Definition response_verify (c : mclass) (m : msg) : res unit :=
  _ <- generic_verify c m ;;
  if negb (response_typed m) then Unmodelled else run_checks (response_checks m).

(* ================= oauth2.AuthorizationResponse / oidc.AuthorizationResponse ================= *)
(* kwargs: client_id, iss *)
Definition authzresp_checks (kw m : msg) : list (bool * exc) :=
  [(match get "client_id" m, get "client_id" kw with Some v, Some k => py_eq v k | _, _ => true end, EVerification);
   (match get "iss" m, get "iss" kw with Some v, Some k => py_eq v k | _, _ => true end, EVerification)].
Definition authzresp_verify (c : mclass) (kw m : msg) : res unit :=
  _ <- response_verify c m ;; run_checks (authzresp_checks kw m).
(* the oidc subclass: `aud` (an extra) must contain the client; result = what verify() returns *)
Definition oidc_authzresp_verify (c : mclass) (kw m : msg) : res bool :=
  _ <- authzresp_verify c kw m ;;
  let m1 := adel (PS "__verified_request") (adel (PS "__verified_id_token_hint") (adel (PS "__verified_id_token") m)) in
  match get "aud" m1, get "client_id" kw with
  | Some a, Some (VStr k) =>
      inside <- py_contains k a ;;
      if negb inside then Ok false
      else if has "id_token" m1 then Unmodelled else Ok true
  | Some _, Some _ => Unmodelled
  | _, _ => if has "id_token" m1 then Unmodelled else Ok true
  end.

(* ================= oidc.RegistrationResponse ================= *)
Definition regresp_checks (m : msg) : list (bool * exc) :=
  [(Bool.eqb (has "registration_client_uri" m) (has "registration_access_token" m), EVerification)].
Definition regresp_verify (c : mclass) (m : msg) : res unit :=
  _ <- response_verify c m ;; run_checks (regresp_checks m).

(* ================= oidc.RegistrationRequest (verify() also fills in default *_enc) ================= *)
Definition default_enc : pyval := VStr (PS "A128CBC-HS256").
Definition enc_pair (p : string) (m : msg) : res msg :=
  let alg := PS (p ++ "_alg") in let enc := PS (p ++ "_enc") in
  let m1 := if has_key alg m && negb (has_key enc m) then aset enc default_enc m else m in
  if has_key enc m1 && negb (has_key alg m1) then Err EMissingRequired else Ok m1.
Definition regreq_typed (m : msg) : bool :=
  match get "initiate_login_uri" m with Some (VStr _) | None => true | _ => false end.
Definition regreq_verify (c : mclass) (m : msg) : res msg :=
  _ <- generic_verify c m ;;
  if negb (regreq_typed m) then Unmodelled else
  _ <- run_checks [(match get "initiate_login_uri" m with Some (VStr s) => starts_with (PS "https:") s | _ => true end, ValueError)] ;;
  m1 <- enc_pair "request_object_encryption" m ;;
  m2 <- enc_pair "id_token_encrypted_response" m1 ;;
  m3 <- enc_pair "userinfo_encrypted_response" m2 ;;
  _ <- run_checks [(negb (str_is (get "token_endpoint_auth_signing_alg" m3) (PS "none")), ValueError)] ;;
  Ok m3.
(* what holds of an accepted registration request *)
Definition enc_has_alg (p : string) (m : msg) : bool :=
  implb (has_key (PS (p ++ "_enc")) m) (has_key (PS (p ++ "_alg")) m).
Definition regreq_post (m : msg) : bool :=
  enc_has_alg "request_object_encryption" m && enc_has_alg "id_token_encrypted_response" m
  && enc_has_alg "userinfo_encrypted_response" m
  && negb (str_is (get "token_endpoint_auth_signing_alg" m) (PS "none"))
  && match get "initiate_login_uri" m with Some (VStr s) => starts_with (PS "https:") s | _ => true end.

(* ================= oidc.ProviderConfigurationResponse ================= *)
(* urllib.parse.urlparse(issuer): scheme, query, fragment, for printable ASCII without brackets *)
Definition url_char (c : N) : bool := (33 <=? c) && (c <=? 126) && negb (c =? 91) && negb (c =? 93).
Definition is_alpha (c : N) : bool := ((65 <=? c) && (c <=? 90)) || ((97 <=? c) && (c <=? 122)).
Definition scheme_char (c : N) : bool :=
  is_alpha c || is_digit c || (c =? 43) || (c =? 45) || (c =? 46).
Definition url_scheme_rest (s : pystr) : pystr * pystr :=
  match split1_c 58 s with
  | Some (pre, rest) =>
      match pre with
      | c :: _ => if is_alpha c && forallb scheme_char pre then (lower pre, rest) else ([], s)
      | [] => ([], s)
      end
  | None => ([], s)
  end.
Definition url_fragment (rest : pystr) : pystr := match split1_c 35 rest with Some (_, f) => f | None => [] end.
Definition url_query (rest : pystr) : pystr :=
  let pre := match split1_c 35 rest with Some (a, _) => a | None => rest end in
  match split1_c 63 pre with Some (_, q) => q | None => [] end.

(* SCOPE_CHARSET as the module builds it: %x23-5B / %x5D-7E ("!" is not in it: the code appends the
   builtin `set` instead of the character) *)
Definition scope_char (c : N) : bool := ((35 <=? c) && (c <=? 91)) || ((93 <=? c) && (c <=? 126)).

Definition pcr_typed (m : msg) : bool :=
  match get "issuer" m with Some (VStr s) => forallb url_char s | _ => false end
  && is_list_of_str (get "scopes_supported" m)
  && is_list_of_str (get "token_endpoint_auth_signing_alg_values_supported" m)
  && match get "id_token_signing_alg_values_supported" m with
     | Some (VList l) => forallb is_str l && forallb (fun x => ascii (str_of x)) l
     | _ => false
     end
  && match get "response_types_supported" m with Some (VList l) => forallb is_str l | _ => false end.
Definition pcr_checks (allow_http : bool) (m : msg) : list (bool * exc) :=
  let issuer := match get "issuer" m with Some (VStr s) => s | _ => [] end in
  let sr := url_scheme_rest issuer in
  let scopes := strs (list_of (get "scopes_supported" m)) in
  [ (negb (has "scopes_supported" m) || str_in (PS "openid") scopes, TypeError);
      (* `raise MissingRequiredValue` without arguments: the exception class cannot be instantiated
         that way, the refusal surfaces as TypeError *)
    (forallb (forallb scope_char) scopes, ENotAllowed);
    (allow_http || str_eqb (fst sr) (PS "https"), EScheme);
    (negb (str_in (PS "none") (strs (list_of (get "token_endpoint_auth_signing_alg_values_supported" m)))), ValueError);
    (existsb (fun a => negb (str_eqb (lower a) (PS "none"))) (strs (list_of (get "id_token_signing_alg_values_supported" m))), ValueError);
    (negb (nonempty (url_query (snd sr))) && negb (nonempty (url_fragment (snd sr))), ValueError);
    (negb (existsb (fun rt => contains (PS "code") rt) (strs (list_of (get "response_types_supported" m))))
     || has "token_endpoint" m, EMissingRequired) ].
Definition pcr_verify (c : mclass) (allow_http : bool) (m : msg) : res unit :=
  _ <- response_verify c m ;;
  if negb (pcr_typed m) then Unmodelled else run_checks (pcr_checks allow_http m).

(* ================= oidc.OpenIDSchema: birthdate formats; a None value makes verify() return False === *)
Definition two_digit_val (a b : N) : N := (a - 48) * 10 + (b - 48).
(* %m : 1[0-2] | 0[1-9] | [1-9] ;  %d : 3[01] | [12]\d | 0[1-9] | [1-9] | " "[1-9] *)
Definition parse_month (s : pystr) : option N :=
  match s with
  | [a] => if (49 <=? a) && (a <=? 57) then Some (a - 48) else None
  | [a; b] => if is_digit a && is_digit b then
                let v := two_digit_val a b in if (1 <=? v) && (v <=? 12) then Some v else None
              else None
  | _ => None
  end.
Definition parse_day (s : pystr) : option N :=
  match s with
  | [a] => if (49 <=? a) && (a <=? 57) then Some (a - 48) else None
  | [a; b] => if (a =? 32) && (49 <=? b) && (b <=? 57) then Some (b - 48)
              else if is_digit a && is_digit b then
                let v := two_digit_val a b in if (1 <=? v) && (v <=? 31) then Some v else None
              else None
  | _ => None
  end.
Definition parse_year (s : pystr) : option N :=
  match s with
  | [a; b; c; d] => if is_digit a && is_digit b && is_digit c && is_digit d
                    then Some ((a - 48) * 1000 + (b - 48) * 100 + (c - 48) * 10 + (d - 48)) else None
  | _ => None
  end.
Definition leap (y : N) : bool := ((y mod 4 =? 0) && negb (y mod 100 =? 0)) || (y mod 400 =? 0).
Definition days_in (y m : N) : N :=
  match m with
  | 2 => if leap y then 29 else 28
  | 4 | 6 | 9 | 11 => 30
  | _ => 31
  end.
Definition valid_date (y m d : N) : bool := (1 <=? y) && (d <=? days_in y m).
Definition birthdate_ok (s : pystr) : bool :=
  match split_c 45 s with
  | [y; m; d] =>
      match parse_month m, parse_day d with
      | Some mm, Some dd =>
          match parse_year y with
          | Some yy =>
              valid_date yy mm dd
              (* "0000-%m-%d": the year is unknown: 1900, or 1904 for 29 February *)
              || (str_eqb y (PS "0000") && valid_date (if (mm =? 2) && (dd =? 29) then 1904 else 1900) mm dd)
          | None => false
          end
      | _, _ => false
      end
  | [y] => match parse_year y with Some yy => 1 <=? yy | None => false end
  | _ => false
  end.
Definition openid_typed (m : msg) : bool :=
  match get "birthdate" m with Some (VStr s) => ascii s | None => true | _ => false end.
Definition openid_verify (c : mclass) (m : msg) : res bool :=
  _ <- response_verify c m ;;
  if negb (openid_typed m) then Unmodelled else
  _ <- run_checks [(match get "birthdate" m with Some (VStr s) => birthdate_ok s | _ => true end, EVerification)] ;;
  Ok (negb (existsb (fun kv => match snd kv with VNone => true | _ => false end) m)).

(* ================= oidc.IdToken ================= *)
(* kwargs: iss, client_id, skew, nonce_storage_time, nonce *)
Definition NONCE_STORAGE_TIME : Z := 14400%Z.
Definition idtoken_typed (kw m : msg) : bool :=
  is_list_of_str (get "aud" m) && is_int_or_absent (get "exp" m) && is_int_or_absent (get "iat" m)
  && match get "client_id" kw with Some (VStr _) | None => true | _ => false end
  && match get "azp" m with Some (VStr _) | None => true | _ => false end.
Definition idtoken_checks (now : Z) (kw m : msg) : list (bool * exc) :=
  let skew := kw_int "skew" 0%Z kw in
  let storage := kw_int "nonce_storage_time" NONCE_STORAGE_TIME kw in
  let aud := list_of (get "aud" m) in
  let exp := int_of (get "exp" m) in
  let iat := int_of (get "iat" m) in
  [ (match get "iss" kw, get "iss" m with Some k, Some v => py_eq k v | _, _ => true end, EIssuerMismatch);
    (match get "aud" m, kw_str "client_id" kw with Some _, Some k => mem_str k aud | _, _ => true end, ENotForMe);
    (match get "aud" m with
     | Some _ => if Nat.ltb 1 (length aud)
                 then match get "azp" m with Some a => py_in a aud | None => false end
                 else true
     | None => true
     end, EVerification);
    (match get "azp" m, get "client_id" kw with Some a, Some k => py_eq k a | _, _ => true end, ENotForMe);
    (has "exp" m, EMissingRequired);
    (negb (exp <? now - skew)%Z, EExp);
    (has "iat" m, EMissingRequired);
    (negb (iat + storage <? now - skew)%Z, EIat);
    (negb (now + skew <? iat)%Z, EIat);
    (negb (exp <? iat)%Z, EIat);
    (match get "nonce" kw with Some _ => has "nonce" m | None => true end, EMissingRequired);   (* the nonce that was sent must come back *)
    (match get "nonce" kw, get "nonce" m with Some k, Some v => py_eq k v | _, _ => true end, ValueError) ].
Definition idtoken_verify (c : mclass) (now : Z) (kw m : msg) : res unit :=
  _ <- openid_verify c m ;;
  if negb (idtoken_typed kw m) then Unmodelled else run_checks (idtoken_checks now kw m).

(* ================= oidc.JsonWebToken (and AuthnToken) ================= *)
(* kwargs: skew, aud, iss *)
Definition jwt_typed (kw m : msg) : bool :=
  is_list_of_str (get "aud" m) && is_int_or_absent (get "exp" m) && is_int_or_absent (get "iat" m)
  && is_int_or_absent (get "nbf" m)
  && match get "aud" kw with Some (VStr _) | None => true | _ => false end.
Definition jwt_checks (now : Z) (kw m : msg) : list (bool * exc) :=
  let skew := kw_int "skew" 0%Z kw in
  [ (negb (has "exp" m) || negb (int_of (get "exp" m) <? now - skew)%Z, EExp);
    (negb (has "iat" m) || negb (now + skew <? int_of (get "iat" m))%Z, EExp);
    (negb (has "nbf" m) || negb (now - skew <? int_of (get "nbf" m))%Z, EExp);
    (match get "aud" m, kw_str "aud" kw with Some _, Some k => mem_str k (list_of (get "aud" m)) | _, _ => true end, ENotForMe);
    (match get "iss" kw, get "iss" m with Some k, Some v => py_eq k v | _, _ => true end, ValueError) ].
Definition jwt_verify (c : mclass) (now : Z) (kw m : msg) : res unit :=
  _ <- generic_verify c m ;;
  if negb (jwt_typed kw m) then Unmodelled else run_checks (jwt_checks now kw m).

(* ================= session.LogoutToken ================= *)
(* kwargs: aud, iss, skew (allowed_sign_alg needs the JWS header: Unmodelled) *)
Definition logout_event : pystr := PS "http://schemas.openid.net/event/backchannel-logout".
Definition logout_typed (kw m : msg) : bool :=
  match get "events" m with Some (VDict _) => true | _ => false end
  && match get "aud" m with Some (VList l) => forallb is_str l | _ => false end
  && is_int_or_absent (get "iat" m)
  && match get "aud" kw with Some (VStr _) | None => true | _ => false end
  && negb (has "allowed_sign_alg" kw).
Definition logout_checks (now : Z) (kw m : msg) : list (bool * exc) :=
  let ev := match get "events" m with Some (VDict d) => d | _ => [] end in
  [ (negb (has "nonce" m), EMessage);
    (Nat.eqb (length ev) 1, ValueError);
    (match ev with (k, _) :: _ => str_eqb k logout_event | [] => true end, ValueError);
    (match ev with (_, VDict []) :: _ => true | [] => true | _ => false end, ValueError);
    (has "sub" m || has "sid" m, ValueError);
    (match kw_str "aud" kw with Some k => mem_str k (list_of (get "aud" m)) | None => true end, ENotForMe);
    (match get "iss" kw, get "iss" m with Some k, Some v => py_eq k v | _, _ => true end, ENotForMe);
    (negb (has "iat" m) || negb (now + kw_int "skew" 0%Z kw <? int_of (get "iat" m))%Z, ValueError) ].
Definition logout_verify (c : mclass) (now : Z) (kw m : msg) : res unit :=
  _ <- generic_verify c m ;;
  if negb (logout_typed kw m) then Unmodelled else run_checks (logout_checks now kw m).

(* ================= session.EndSessionRequest ================= *)
Definition endsession_verify (c : mclass) (m : msg) : res bool :=
  _ <- generic_verify c m ;;
  let m1 := adel (PS "__verified_request") (adel (PS "__verified_id_token_hint") (adel (PS "__verified_id_token") m)) in
  if has "post_logout_redirect_uri" m1 && negb (has "id_token_hint" m1) then Ok false
  else if has "id_token_hint" m1 then Unmodelled else Ok true.

(* ================= oidc.AuthorizationResponse / oidc.AccessTokenResponse WITH an ID Token =================
   verify_id_token(msg, check_hash, **kwargs) of idpyoidc.message.oidc and the two verify() that call it.
   Environment (supplied by each generated case): the left-half hash `lh bits value` (cryptojwt left_hash:
   base64url of the left half of SHA-<bits>), the issuers the key jar knows, the clock, and the ID Token
   symbolically (Model/Msg.v `token`).  Modelled fragment: a key jar is passed; the token is a compact JWS
   whose signature verifies (TJws SigValid) made with an RS / ES / PS / HS algorithm of 256 / 384 / 512 bits,
   not encrypted; keywords among iss, client_id, skew, nonce_storage_time, nonce, allowed_sign_alg.  Every
   other shape (forged, alg none, JWE, other keywords): Unmodelled here - decided on the real code by the
   driver's signed-object matrix. *)
Definition EAtHash : exc := Refused 17.           (* AtHashError *)
Definition ECHash : exc := Refused 18.            (* CHashError *)

(* hash function name used for at_hash / c_hash: "HS" + alg[-3:] -> 256 / 384 / 512 *)
Definition hash_bits (alg : pystr) : pystr := List.rev (firstn 3 (List.rev alg)).
(* finite hash table supplied by a case file: ((bits, value), digest) *)
Definition lhash_of (tbl : list (pystr * pystr * pystr)) (bits v : pystr) : pystr :=
  match find (fun e => str_eqb (fst (fst e)) bits && str_eqb (snd (fst e)) v) tbl with
  | Some e => snd e
  | None => PS "?unknown-hash?"
  end.
Definition hash_alg_modelled (alg : pystr) : bool :=
  str_in alg [PS "RS256"; PS "RS384"; PS "RS512"; PS "ES256"; PS "ES384"; PS "ES512";
              PS "PS256"; PS "PS384"; PS "PS512"; PS "HS256"; PS "HS384"; PS "HS512"].

(* one hash rule: when the response carries `param`, the ID Token carries `claim` and it equals the left
   hash of the parameter's value under the hash that goes with the token's signing algorithm.  The two rules
   are INDEPENDENT: each is a list of its own, a response with both parameters has to satisfy both *)
Definition hash_rule (lh : pystr -> pystr -> pystr) (alg : pystr) (param claim : string) (bad : exc)
    (m idt : msg) : list (bool * exc) :=
  [ (implb (has param m) (has claim idt), EMissingRequired);
    (match get param m with
     | Some (VStr v) => match get claim idt with
                        | Some h => pyval_eqb h (VStr (lh (hash_bits alg) v))
                        | None => false
                        end
     | _ => true
     end, bad) ].
Definition c_hash_rule lh alg (m idt : msg) := hash_rule lh alg "code" "c_hash" ECHash m idt.
Definition at_hash_rule lh alg (m idt : msg) := hash_rule lh alg "access_token" "at_hash" EAtHash m idt.
(* in the order the code checks them *)
Definition hash_rules lh alg (m idt : msg) := at_hash_rule lh alg m idt ++ c_hash_rule lh alg m idt.
(* the parameters the hashes are taken of are text *)
Definition hash_typed (m : msg) : bool :=
  match get "code" m with Some (VStr _) | None => true | _ => false end
  && match get "access_token" m with Some (VStr _) | None => true | _ => false end.

Definition verified_id_token : pystr := PS "__verified_id_token".
(* clear_verified_claims *)
Definition clear_verified (m : msg) : msg :=
  adel (PS "__verified_request") (adel (PS "__verified_id_token_hint") (adel verified_id_token m)).
Definition idt_kw_modelled (kw : msg) : bool :=
  forallb (fun kv => str_in (fst kv) [PS "iss"; PS "client_id"; PS "skew"; PS "nonce_storage_time"; PS "nonce";
                                      PS "allowed_sign_alg"]) kw.
(* the token as verify_id_token sees it: (JWS header alg, claims) *)
Definition id_token_open (t : token) : res (pystr * msg) :=
  match t with
  | TJws SigValid alg p => if hash_alg_modelled alg then Ok (alg, p) else Unmodelled
  | _ => Unmodelled
  end.
(* `allowed_sign_alg` in kwargs: the header algorithm must be that one *)
Definition idt_alg_allowed (kw : msg) (alg : pystr) : res unit :=
  match get "allowed_sign_alg" kw with
  | None => Ok tt
  | Some (VStr a) => if str_eqb alg a then Ok tt else Err EUnsupportedAlg
  | Some _ => Unmodelled
  end.
(* a signed token with a key jar: the issuer named INSIDE the token must be one the key jar knows *)
Definition idt_issuer_known (issuers : list pystr) (p : msg) : res unit :=
  match get "iss" p with
  | None => Err EMissingRequired
  | Some (VStr i) => if str_in i issuers then Ok tt else Err ValueError
  | Some _ => Unmodelled
  end.
(* verify_id_token: algorithm policy, issuer known, IdToken().from_jwt (signature symbolic), IdToken.verify with
   ALL the keyword arguments, then - signed token and check_hash - the hash rules; result: the verified token *)
Definition verify_id_token (lh : pystr -> pystr -> pystr) (issuers : list pystr) (ic : mclass) (now : Z)
    (check_hash : bool) (kw : msg) (t : token) (m : msg) : res msg :=
  if negb (idt_kw_modelled kw) then Unmodelled else
  match get "id_token" m with
  | Some (VStr _) =>
      ap <- id_token_open t ;;
      _ <- idt_alg_allowed kw (fst ap) ;;
      _ <- idt_issuer_known issuers (snd ap) ;;
      o <- construct ic (snd ap) ;;
      _ <- idtoken_verify ic now kw o ;;
      if negb (hash_typed m) then Unmodelled else
      _ <- (if check_hash then run_checks (hash_rules lh (fst ap) m o) else Ok tt) ;;
      Ok o
  | _ => Unmodelled
  end.
(* the `aud` extra of the oidc authorization response must contain the client *)
Definition aud_for_me (kw m : msg) : res bool :=
  match get "aud" m, get "client_id" kw with
  | Some a, Some (VStr k) => py_contains k a
  | Some _, Some _ => Unmodelled
  | _, _ => Ok true
  end.
(* oidc.AuthorizationResponse.verify with keyword arguments kw: the oauth2 checks, the stale markers removed, aud, and the ID Token
   with check_hash=True.  Result: (what verify() returns, the message afterwards) *)
Definition oidc_authzresp_verify_idt lh issuers (c ic : mclass) (now : Z) (kw : msg) (t : token) (m : msg)
    : res (bool * msg) :=
  _ <- authzresp_verify c kw m ;;
  let m1 := clear_verified m in
  mine <- aud_for_me kw m1 ;;
  if negb mine then Ok (false, m1)
  else if negb (has "id_token" m1) then Ok (true, m1)
  else o <- verify_id_token lh issuers ic now true kw t m1 ;;
       Ok (true, aset verified_id_token (VObj o) m1).
(* oidc.AccessTokenResponse.verify with keyword arguments kw: ResponseMessage.verify, the stale markers removed, the ID Token with
   check_hash=False: NO hash rule applies to the token response *)
Definition oidc_tokenresp_verify_idt lh issuers (c ic : mclass) (now : Z) (kw : msg) (t : token) (m : msg)
    : res (bool * msg) :=
  _ <- response_verify c m ;;
  let m1 := clear_verified m in
  if negb (has "id_token" m1) then Ok (true, m1)
  else o <- verify_id_token lh issuers ic now false kw t m1 ;;
       Ok (true, aset verified_id_token (VObj o) m1).

(* ================= rules over a SET of parameters =================
   "at most one of / at least one of / all or none of / all of / none of" a set of parameters: every such rule is a
   predicate on the PRESENCE LIST of the set's members (in the order the rule names them).  The helper
   Message.has_none_or_one_of(claims) is transcribed as the loop it is (a flag that latches once a member has been
   seen); Proofs/MsgRules_proofs.v proves each predicate equivalent to a statement about the NUMBER of present members,
   for every list length and every presence pattern, and invariant under reordering of the set. *)
Definition presence (ks : list pystr) (m : msg) : list bool := List.map (fun k => has_key k m) ks.
Definition count_true (l : list bool) : nat := List.length (List.filter (fun b : bool => b) l).
(* Message.has_none_or_one_of: for c in claims: if c in self: (if found_one: return False else found_one = True) *)
Fixpoint none_or_one_go (found : bool) (l : list bool) : bool :=
  match l with
  | [] => true
  | true :: r => if found then false else none_or_one_go true r
  | false :: r => none_or_one_go found r
  end.
Definition has_none_or_one_of (l : list bool) : bool := none_or_one_go false l.
Definition has_at_least_one_of (l : list bool) : bool := existsb (fun b : bool => b) l.
Definition has_all_of (l : list bool) : bool := forallb (fun b : bool => b) l.
Definition has_none_of (l : list bool) : bool := negb (existsb (fun b : bool => b) l).
Definition has_all_or_none_of (l : list bool) : bool := has_all_of l || has_none_of l.
Definition has_exactly_one_of (l : list bool) : bool := has_at_least_one_of l && has_none_or_one_of l.
(* the helper as a method of a message *)
Definition msg_has_none_or_one_of (claims : list pystr) (m : msg) : bool := has_none_or_one_of (presence claims m).

(* ================= oidc.backchannel_authentication.AuthenticationRequest (CIBA) =================
   kwargs: mode (and the key jar, symbolic).  `rt` = the request object, `ht` = the id_token_hint, both symbolically
   (Model/Msg.v token); rjc = AuthenticationRequestJWT, ic = IdToken: Message.from_jwt builds an instance of the
   class from the content and does NOT run that class's verify().  Order of the code: generic check; with `request`:
   nothing but the client-authentication parameters outside the object, unpack, copy the object's non-JWT claims into
   the message, store the verified object; AT MOST ONE of the three hints (has_none_or_one_of); an id_token_hint that
   is text is unpacked and stored under its marker; ping / push mode needs client_notification_token. *)
Definition ciba_hints : list pystr := [PS "id_token_hint"; PS "login_hint"; PS "login_hint_token"].
Definition ciba_outside_ok : list pystr := [PS "client_id"; PS "client_assertion_type"; PS "client_assertion"; PS "request"].
Definition ciba_jwt_args : list pystr := [PS "iss"; PS "aud"; PS "iat"; PS "nbf"; PS "jti"; PS "exp"].
Definition ciba_inside_only (c : mclass) : list pystr :=
  List.filter (fun k => negb (str_in k ciba_outside_ok)) (List.map p_name (c_params c)).
Definition verified_id_token_hint : pystr := PS "__verified_id_token_hint".
Definition ciba_unpack (c rjc : mclass) (rt : token) (m : msg) : res msg :=
  if has "request" m then
    let m0 := adel verified_request m in
    if negb (has_none_of (presence (ciba_inside_only c) m0)) then Err EParameter
    else match get "request" m0 with
         | Some (VStr _) =>
             hp <- open_token rt ;;
             ro <- construct rjc (snd hp) ;;
             Ok (aset verified_request (VObj ro)
                   (msg_update (List.filter (fun kv => negb (str_in (fst kv) ciba_jwt_args)) ro) m0))
         | _ => Unmodelled
         end
  else Ok m.
Definition ciba_hint (ic : mclass) (ht : token) (m : msg) : res msg :=
  match get "id_token_hint" m with
  | Some (VStr _) =>
      hp <- open_token ht ;; o <- construct ic (snd hp) ;; Ok (aset verified_id_token_hint (VObj o) m)
  | _ => Ok m
  end.
Definition ciba_mode_needs_token (kw : msg) : bool :=
  match get "mode" kw with
  | Some v => py_eq v (VStr (PS "ping")) || py_eq v (VStr (PS "push"))
  | None => false
  end.
Definition ciba_hint_checks (m : msg) : list (bool * exc) := [(has_none_or_one_of (presence ciba_hints m), ValueError)].
Definition ciba_mode_checks (kw m : msg) : list (bool * exc) :=
  [(implb (ciba_mode_needs_token kw) (has "client_notification_token" m), EMissingRequired)].
Definition ciba_authn_verify (c rjc ic : mclass) (kw : msg) (rt ht : token) (m : msg) : res msg :=
  _ <- generic_verify c m ;;
  m1 <- ciba_unpack c rjc rt m ;;
  _ <- run_checks (ciba_hint_checks m1) ;;
  m2 <- ciba_hint ic ht m1 ;;
  _ <- run_checks (ciba_mode_checks kw m2) ;;
  Ok m2.

(* ================= oauth2.OauthClientMetadata / OauthClientInformationResponse ================= *)
(* the rule reads the extra `grant_types` (the schema declares `grant_type`) *)
Definition clientmeta_typed (m : msg) : bool := is_list_of_str (get "grant_types" m).
Definition clientmeta_checks (m : msg) : list (bool * exc) :=
  [(implb (existsb (fun g => str_in g [PS "authorization_code"; PS "implicit"]) (strs (list_of (get "grant_types" m))))
          (has_all_of (presence [PS "redirect_uris"] m)), ValueError)].
Definition clientmeta_verify (c : mclass) (m : msg) : res unit :=
  _ <- generic_verify c m ;;
  if negb (clientmeta_typed m) then Unmodelled else run_checks (clientmeta_checks m).
(* client_secret comes with client_secret_expires_at *)
Definition clientinfo_checks (m : msg) : list (bool * exc) :=
  [(implb (has "client_secret" m) (has_all_of (presence [PS "client_secret_expires_at"] m)), EMissingRequired)].
Definition clientinfo_verify (c : mclass) (m : msg) : res unit :=
  _ <- clientmeta_verify c m ;; run_checks (clientinfo_checks m).

(* ================= oauth2.device_authorization.AccessTokenRequest ================= *)
(* device_code comes with BOTH grant_type and client_id *)
Definition device_checks (m : msg) : list (bool * exc) :=
  [(implb (has "device_code" m) (has_all_of (presence [PS "grant_type"; PS "client_id"] m)), EMissingRequired)].
Definition device_verify (c : mclass) (m : msg) : res unit :=
  _ <- generic_verify c m ;; run_checks (device_checks m).

(* ================= dispatcher used by the correspondence cases =================
   result: what verify() returns (truthiness) and the message afterwards *)
Definition kw_flag (k : string) (kw : msg) : bool := has k kw.
Definition unit_true (m : msg) (r : res unit) : res (bool * msg) := _ <- r ;; Ok (true, m).
Definition class_rules (rule : pystr) (c : mclass) (now : Z) (kw m : msg) : res (bool * msg) :=
  if str_eqb rule (PS "response") then unit_true m (response_verify c m)
  else if str_eqb rule (PS "authzresp-oauth2") then unit_true m (authzresp_verify c kw m)
  else if str_eqb rule (PS "authzresp-oidc") then b <- oidc_authzresp_verify c kw m ;; Ok (b, m)
  else if str_eqb rule (PS "regresp") then unit_true m (regresp_verify c m)
  else if str_eqb rule (PS "regreq") then m' <- regreq_verify c m ;; Ok (true, m')
  else if str_eqb rule (PS "pcr") then unit_true m (pcr_verify c (kw_flag "allow_http" kw) m)
  else if str_eqb rule (PS "openid") then b <- openid_verify c m ;; Ok (b, m)
  else if str_eqb rule (PS "idtoken") then unit_true m (idtoken_verify c now kw m)
  else if str_eqb rule (PS "jwt") then unit_true m (jwt_verify c now kw m)
  else if str_eqb rule (PS "logout") then unit_true m (logout_verify c now kw m)
  else if str_eqb rule (PS "endsession") then b <- endsession_verify c m ;; Ok (b, m)
  else if str_eqb rule (PS "clientmeta") then unit_true m (clientmeta_verify c m)
  else if str_eqb rule (PS "clientinfo") then unit_true m (clientinfo_verify c m)
  else if str_eqb rule (PS "device") then unit_true m (device_verify c m)
  else Unmodelled.
