(* Model/MsgVerified.v — the verifier's own bookkeeping inside a message: the reserved members
   `__verified_<claim>` (idpyoidc.verified_claim_name) under which verify() stores the parsed content of an embedded
   signed object (request object, ID Token, id_token_hint, logout token) for the code that runs after it
   (the relying party reads msg["__verified_id_token"], the provider request["__verified_request"],
   request["__verified_id_token_hint"], ...).

   A message may ALREADY hold such a member when it is presented to verify(): the peer put the name into the wire
   form (from_json / from_dict / the constructor store an unknown member as it is, from_urlencoded its text, a
   JWT its claim), or an earlier verify() of the same object left it there and the raw claim has been removed,
   replaced or damaged since.  Property C11 speaks about the message AS IT STANDS AFTER VERIFICATION: whatever it
   holds under a reserved name then must be the content of an embedded object whose signature was verified in THIS
   verification, or nothing.

   Two layers:
   * `book`: one verified-copy slot in the abstract - when the old copy is dropped (`clearing`), then the rebuild
     from the signed claim (`est` = what this verification establishes) - with the property `copy_established`;
     always-clear satisfies it for every initial content of the member, the two lazy disciplines do not.
   * the verify() functions that Model/Msg.v, Model/MsgRules.v and Model/MsgCheck.v transcribe and the driver
     ties to the code (oidc.AccessTokenResponse, oidc.AuthorizationResponse, BackChannelLogoutRequest) and, new
     here, session.EndSessionRequest WITH an id_token_hint (`endsession_verify_hint`) and the four request
     classes as they are since the repairs that followed this round (`jar_verify_v`, `par_verify_v`,
     `ciba_authn_verify_v`, `authz_verify_v`: the reserved members cleared before anything is unpacked, the
     unpacked request object cleaned of reserved claims before it is merged).
     The statements about them are in Proofs/MsgVerified_proofs.v. *)
From Coq Require Import String.
From Verif Require Import Lib.Base Lib.PyStr Lib.Qs Lib.MsgSchema Gen.Schema Model.Msg Model.MsgRules Model.MsgCheck.
Open Scope string_scope.

(* idpyoidc.verified_claim_name(claim) = "__verified" + "_" + claim *)
Definition verified_name (claim : pystr) : pystr := (PS "__verified_" ++ claim)%list.
(* a Python dict: every key once *)
Definition dict_like (m : msg) : bool := nodup_str (keys m).

(* ================= one verified-copy slot, abstractly ================= *)
(* when verify() drops the copy an earlier verification (or the peer) left under the reserved name *)
Inductive clearing :=
| ClearAlways      (* first thing, whatever the message holds (oidc / oauth2 clear_verified_claims) *)
| ClearIfRaw       (* only inside `if "<claim>" in self:` *)
| ClearNever.      (* the copy is only ever overwritten *)
Definition book_clear (cl : clearing) (claim : pystr) (m : msg) : msg :=
  match cl with
  | ClearAlways => adel (verified_name claim) m
  | ClearIfRaw => if has_key claim m then adel (verified_name claim) m else m
  | ClearNever => m
  end.
(* clear, then rebuild from the signed claim: `est m1` = the content this verification establishes from the
   raw claim of m1 (signature check, class rules: an Err refuses the whole message) *)
Definition book (cl : clearing) (claim : pystr) (est : msg -> res msg) (m : msg) : res msg :=
  let m1 := book_clear cl claim m in
  if has_key claim m1 then o <- est m1 ;; Ok (aset (verified_name claim) (VObj o) m1) else Ok m1.
(* the property: what the message holds under the reserved name afterwards is what THIS verification established
   from a raw claim that the message presented carried - or nothing *)
Definition copy_established (claim : pystr) (est : msg -> res msg) (m m' : msg) : Prop :=
  match assoc (verified_name claim) m' with
  | None => True
  | Some v => has_key claim m = true /\ exists m1 o, est m1 = Ok o /\ v = VObj o
  end.

(* ================= the same for an ID Token kind of claim of a transcribed verify() ================= *)
(* raw claim absent => no verified copy; present => the copy is the content of the token handed over, and that
   token carries a valid signature *)
Definition id_token_copy_ok (ic : mclass) (t : token) (raw : string) (name : pystr) (m m' : msg) : Prop :=
  (has raw m = false -> assoc name m' = None)
  /\ (has raw m = true ->
      exists alg p o, t = TJws SigValid alg p /\ construct ic p = Ok o /\ assoc name m' = Some (VObj o)).

(* ================= session.EndSessionRequest.verify WITH an id_token_hint =================
   super().verify; clear_verified_claims; post_logout_redirect_uri needs an id_token_hint (else False);
   an id_token_hint is unpacked (IdToken().from_jwt) and judged by verify_id_token(claim="id_token_hint",
   check_hash=False, **kwargs) - the function of Model/MsgRules.v, which reads the raw text under "id_token":
   it is handed the one-member message holding the hint under that name - and the verified token is stored
   under its reserved name.  Result: (what verify() returns, the message afterwards). *)
Definition endsession_verify_hint (issuers : list pystr) (c ic : mclass) (now : Z) (kw : msg) (t : token) (m : msg)
    : res (bool * msg) :=
  _ <- generic_verify c m ;;
  let m1 := clear_verified m in
  if has "post_logout_redirect_uri" m1 && negb (has "id_token_hint" m1) then Ok (false, m1)
  else match get "id_token_hint" m1 with
       | None => Ok (true, m1)
       | Some h =>
           o <- verify_id_token (fun _ _ => []) issuers ic now false kw t [(PS "id_token", h)] ;;
           Ok (true, aset verified_id_token_hint (VObj o) m1)
       end.

(* correspondence case: (class, IdToken class, now, kwargs without the key jar, issuers the key jar knows, the
   id_token_hint symbolically, message before) vs (what verify() returned, message afterwards) *)
Definition esr_case := (pystr * pystr * Z * msg * list pystr * token * msg)%type.
Definition m_endsession_hint (x : esr_case) : res (bool * msg) :=
  let '(n, icn, now, kw, issuers, t, m) := x in
  with_class n (fun c => with_class icn (fun ic => endsession_verify_hint issuers c ic now kw t m)).
Definition chk_endsession_hint (x : esr_case * res (bool * msg)) : bool :=
  res_eqb bm_eqb (m_endsession_hint (fst x)) (snd x).

(* ================= the request classes since the repairs 834e726 and its successor =================
   (1) clear first: JWTSecuredAuthorizationRequest.verify / PushedAuthorizationRequest.verify call
   oauth2.clear_verified_claims (`__verified_request`) first thing; oidc.AuthorizationRequest.verify and the CIBA
   AuthenticationRequest.verify run the parent check and then drop `__verified_id_token`, `__verified_id_token_hint`
   (and, through the parent / the same call, `__verified_request`) - before anything is unpacked.
   (2) oauth2.drop_verified_copies(obj): every member of the UNPACKED request object whose name starts with
   "__verified_" is deleted right after from_jwt, before any merge / update: no reserved member travels from the
   object's claims into the message, and the copy stored under `__verified_request` is the object without them.
   What follows is the body Model/Msg.v (jar_verify / par_verify / authz_verify) and Model/MsgRules.v
   (ciba_authn_verify) transcribe; on a message without reserved members and an object without reserved claims
   those ARE the whole verify() (Proofs/MsgVerified_proofs.v *_v_is_body). *)
Definition is_reserved (k : pystr) : bool := starts_with (PS "__verified_") k.
Definition drop_verified_copies (o : msg) : msg := List.filter (fun kv => negb (is_reserved (fst kv))) o.
Definition no_reserved (o : msg) : bool := forallb (fun kv => negb (is_reserved (fst kv))) o.

Definition unpack_request_v (strict : bool) (c roc : mclass) (payload : option msg) (m : msg) : res msg :=
  match payload with
  | None => Unmodelled
  | Some p =>
      ro0 <- construct roc p ;;
      let ro := drop_verified_copies ro0 in
      let m1 := aset verified_request (VObj ro) (request_merge strict ro m) in
      _ <- generic_verify c m1 ;; Ok m1
  end.
Definition jar_verify_v (c roc : mclass) (payload : option msg) (m0 : msg) : res msg :=
  let m := adel verified_request m0 in
  if has_key (PS "request") m then unpack_request_v true c roc payload m
  else if has_key (PS "request_uri") m then _ <- generic_verify c m ;; Ok m
  else Err EMissingAttribute.
Definition par_verify_v (c roc : mclass) (payload : option msg) (m0 : msg) : res msg :=
  let m := adel verified_request m0 in
  if has_key (PS "request") m then unpack_request_v false c roc payload m
  else _ <- generic_verify c m ;; Ok m.
(* oidc.AuthorizationRequest.verify without request object / id_token_hint (the fragment authz_verify models):
   the generic check never reads a non-schema member, so dropping the three members first or after it is the same *)
Definition authz_verify_v (c : mclass) (nonce_kw : option pystr) (m : msg) : res msg :=
  authz_verify c nonce_kw (clear_verified m).
(* the CIBA AuthenticationRequest: parent check, clear, then the body with the unpacked object cleaned *)
Definition ciba_unpack_v (c rjc : mclass) (rt : token) (m : msg) : res msg :=
  if has "request" m then
    let m0 := adel verified_request m in
    if negb (has_none_of (presence (ciba_inside_only c) m0)) then Err EParameter
    else match get "request" m0 with
         | Some (VStr _) =>
             hp <- open_token rt ;;
             ro0 <- construct rjc (snd hp) ;;
             let ro := drop_verified_copies ro0 in
             Ok (aset verified_request (VObj ro)
                   (msg_update (List.filter (fun kv => negb (str_in (fst kv) ciba_jwt_args)) ro) m0))
         | _ => Unmodelled
         end
  else Ok m.
Definition ciba_authn_verify_v (c rjc ic : mclass) (kw : msg) (rt ht : token) (m : msg) : res msg :=
  _ <- generic_verify c m ;;
  let m0 := clear_verified m in
  m1 <- ciba_unpack_v c rjc rt m0 ;;
  _ <- run_checks (ciba_hint_checks m1) ;;
  m2 <- ciba_hint ic ht m1 ;;
  _ <- run_checks (ciba_mode_checks kw m2) ;;
  Ok m2.

(* correspondence cases: the case types of Model/MsgCheck.v *)
Definition m_request_v (x : request_case) : res msg :=
  let '(rule, n, ron, t, m) := x in
  with_class n (fun c => with_class ron (fun roc =>
    if str_eqb rule (PS "jar") then jar_verify_v c roc (token_payload t) m
    else if str_eqb rule (PS "par") then par_verify_v c roc (token_payload t) m
    else Unmodelled)).
Definition chk_request_v (x : request_case * res msg) : bool := res_msg_eqb (m_request_v (fst x)) (snd x).
Definition m_authz_v (x : pystr * option pystr * msg) : res msg :=
  let '(n, nonce, m) := x in with_class n (fun c => authz_verify_v c nonce m).
Definition chk_authz_v (x : pystr * option pystr * msg * res msg) : bool := res_msg_eqb (m_authz_v (fst x)) (snd x).
Definition m_ciba_v (x : ciba_case) : res msg :=
  let '(n, rjn, icn, kw, rt, ht, m) := x in
  with_class n (fun c => with_class rjn (fun rjc => with_class icn (fun ic => ciba_authn_verify_v c rjc ic kw rt ht m))).
Definition chk_ciba_v (x : ciba_case * res msg) : bool := res_msg_eqb (m_ciba_v (fst x)) (snd x).
