(* Model/Pkce.v — PKCE (RFC 7636) as implemented by
     idpyoidc.server.oauth2.add_on.pkce   (post_authn_parse, post_token_parse, verify_code_challenge, CC_METHOD)
     idpyoidc.client.oauth2.add_on.pkce   (add_code_challenge, add_code_verifier), idpyoidc.client.defaults.CC_METHOD
   Hand-written, total, executable.  The transform tables (which method names exist on each side and what
   each one computes) are NOT written here: they are Gen/PkceTables.v, regenerated from /repo/src on every
   run.  The two legs are tied to the code by harness/drv_C15.py (real authorization and token endpoints of
   a provider with the add-on configured, real relying-party add-on).  No proofs in this file.

   The hash is abstract: HB bits v stands for  b64url_nopad(sha<bits>(v.encode("ascii")))  as a text.
   Case files instantiate it with a finite table computed by the driver with hashlib/base64. *)
From Verif Require Import Lib.Base Lib.PyStr Lib.PkceTy Gen.PkceTables.
From Verif Require Lib.Qs.
From Coq Require String.
Open Scope N_scope.

Definition is_ascii (s : pystr) : bool := forallb (fun c => c <? 128) s.

(* Message.from_dict:  `if val in ["", [""]]: continue`  — an empty parameter is an absent parameter.
   This happens when the endpoint builds the request object, i.e. before either add-on function runs. *)
Definition norm (x : option pystr) : option pystr :=
  match x with Some [] => None | _ => x end.

(* context.add_on["pkce"] = {"code_challenge_methods": <dict>, "essential": <bool>}; only the key set of the
   dict is ever consulted (`method not in ...`). *)
Record pkce_conf := mk_pkce_conf { pc_methods : list pystr; pc_essential : bool }.

(* add_support:  for method in code_challenge_methods: if method not in CC_METHOD: raise ValueError *)
Definition conf_valid (cf : pkce_conf) : bool :=
  forallb (fun m => has_key m server_cc_methods) (pc_methods cf).

(* client = context.cdb[client_id]
   essential = client["pkce_essential"] if "pkce_essential" in client else add_on["pkce"].get("essential", False) *)
Definition essential_eff (global : bool) (per_client : option bool) : bool :=
  match per_client with Some b => b | None => global end.

(* `if "code_challenge_method" not in request: request["code_challenge_method"] = "plain"` — the literal is
   read back from the code by the generator (server_default_method). *)
Definition recorded_method (ccm : option pystr) : pystr :=
  match norm ccm with Some m => m | None => server_default_method end.

(* refusal tags (the error_description the code returns):
     1  authorization: "Missing required code_challenge"
     2  authorization: "Unsupported code_challenge_method=..."
     3  token:         "Missing code_verifier"
     4  token:         "PKCE check failed"
     5  relying party: Unsupported("PKCE Transformation method:...") *)

(* post_authn_parse.  Result: what the grant's stored authorization request says about PKCE:
   (code_challenge if any, code_challenge_method — always present afterwards). *)
Definition authn_leg (cf : pkce_conf) (per_client : option bool) (cc ccm : option pystr)
  : res (option pystr * pystr) :=
  let cc := norm cc in
  if essential_eff (pc_essential cf) per_client && (match cc with None => true | Some _ => false end)
  then Err (Refused 1)
  else
    let m := recorded_method ccm in
    match cc with
    | Some _ => if negb (str_in m (pc_methods cf)) then Err (Refused 2) else Ok (cc, m)
    | None => Ok (cc, m)
    end.

Inductive outcome :=
| Tokens                    (* token request accepted: the token endpoint goes on to mint *)
| AzRefused (n : N)         (* authorization endpoint answered with an error (no code) *)
| TkRefused (n : N)         (* token endpoint answered with an error (no tokens) *)
| TkRaised (e : exc).       (* token endpoint raised (no tokens) *)

Section Transform.
  Variable HB : N -> pystr -> pystr.

  (* CC_METHOD[method](code_verifier): identity, or hash of the ASCII encoding (UnicodeEncodeError otherwise) *)
  Definition tr (k : tr_kind) (v : pystr) : res pystr :=
    match k with
    | TrPlain => Ok v
    | TrSha bits => if is_ascii v then Ok (HB bits v) else Err UnicodeError
    end.

  (* post_token_parse for an authorization-code token request whose code resolves to a grant with the
     stored pair `st`.  `tccm` is a code_challenge_method parameter of the TOKEN request: the code never
     reads it; it is an argument only so that this can be stated.
     _method = _authn_req["code_challenge_method"];  CC_METHOD[_method](verifier) != challenge -> refuse *)
  Definition token_leg (st : option pystr * pystr) (cv tccm : option pystr) : res unit :=
    match fst st with
    | None => Ok tt
    | Some c =>
        match norm cv with
        | None => Err (Refused 3)
        | Some v =>
            match assoc (snd st) server_cc_methods with
            | None => Err KeyError
            | Some k => t <- tr k v ;; if str_eqb t c then Ok tt else Err (Refused 4)
            end
        end
    end.

  Definition flow (cf : pkce_conf) (per_client : option bool) (cc ccm cv tccm : option pystr) : outcome :=
    match authn_leg cf per_client cc ccm with
    | Ok st =>
        match token_leg st cv tccm with
        | Ok _ => Tokens
        | Err (Refused n) => TkRefused n
        | Err e => TkRaised e
        | Unmodelled => TkRaised TypeError
        end
    | Err (Refused n) => AzRefused n
    | _ => AzRefused 0
    end.

  (* Relying party, add_code_challenge with configured method `m` (None: key absent -> default) and the
     verifier v that unreserved(length) returned:
       CC_METHOD[_method](v.encode()).digest() -> b64e -> code_challenge;  KeyError -> Unsupported.
     v.encode() is UTF-8; on ASCII strings (all that unreserved() can return) it equals the ASCII encoding
     the provider hashes.  Non-ASCII verifiers are outside the modelled fragment. *)
  Definition rp_make (m : option pystr) (v : pystr) : res (pystr * pystr) :=
    let m := match m with Some m => m | None => client_default_method end in
    match assoc m client_cc_methods with
    | None => Err (Refused 5)
    | Some bits => if is_ascii v then Ok (HB bits v, m) else Unmodelled
    end.
End Transform.

(* the alphabet of idpyoidc.client.util.unreserved: ascii letters, digits, "-._~" *)
Definition unreserved_c (c : N) : bool :=
  ((48 <=? c) && (c <=? 57)) || ((65 <=? c) && (c <=? 90)) || ((97 <=? c) && (c <=? 122))
  || (c =? 45) || (c =? 46) || (c =? 95) || (c =? 126).
Definition unreserved_s (s : pystr) : bool := forallb unreserved_c s.

(* ---- checkers for generated correspondence case files ---- *)
Definition hb_tab := list (N * pystr * pystr).
Fixpoint hb_lookup (tab : hb_tab) (bits : N) (v : pystr) : pystr :=
  match tab with
  | [] => []
  | (b, v', d) :: r => if (bits =? b) && str_eqb v v' then d else hb_lookup r bits v
  end.

Definition outcome_eqb (a b : outcome) : bool :=
  match a, b with
  | Tokens, Tokens => true
  | AzRefused x, AzRefused y | TkRefused x, TkRefused y => x =? y
  | TkRaised x, TkRaised y => exc_eqb x y
  | _, _ => false
  end.

(* one full flow through the real endpoints:
   (configured methods, global essential, per-client pkce_essential, authorization-request code_challenge and
    code_challenge_method, token-request code_verifier and code_challenge_method, hash table, observed outcome) *)
Definition flow_case : Type :=
  list pystr * bool * option bool * option pystr * option pystr * option pystr * option pystr * hb_tab * outcome.
Definition flow_model (c : flow_case) : outcome :=
  let '(ms, g, ce, cc, ccm, cv, tccm, tab, _) := c in
  flow (hb_lookup tab) (mk_pkce_conf ms g) ce cc ccm cv tccm.
Definition chk_flow (c : flow_case) : bool :=
  let '(_, _, _, _, _, _, _, _, obs) := c in outcome_eqb (flow_model c) obs.

(* the relying party's add-on: (configured method, verifier it drew, hash table, observed
   (code_challenge, code_challenge_method) or refusal) *)
Definition rp_case : Type := option pystr * pystr * hb_tab * res (pystr * pystr).
Definition rp_model (c : rp_case) : res (pystr * pystr) :=
  let '(m, v, tab, _) := c in rp_make (hb_lookup tab) m v.
Definition chk_rp (c : rp_case) : bool :=
  let '(_, _, _, obs) := c in
  res_eqb (fun a b => str_eqb (fst a) (fst b) && str_eqb (snd a) (snd b)) (rp_model c) obs.

(* unreserved(): every character the relying party's generator returned is in the modelled alphabet *)
Definition chk_unreserved (c : pystr * bool) : bool := Bool.eqb (unreserved_s (fst c)) (snd c).

(* ---------------------------------------------------------------- transports of the authorization request
   The two PKCE parameters can reach the provider in more than one place.  pk = (code_challenge,
   code_challenge_method) as they appear in ONE place (None: the parameter is not there).
     DFront f            plain front-channel parameters
     DValue obj f        request=<signed request object carrying obj>, f next to it on the front channel
     DRef obj f          request_uri=<document = signed request object carrying obj>, f next to it
     DPushed b f         b was pushed to the pushed-authorization endpoint over the authenticated back channel
                         (PbPlain body: as plain body parameters; PbObject obj body: body carries request=<object
                         with obj> and body next to it), the issued urn redeemed with f next to it on the front channel
   What the code does with them (tied by harness/drv_C15.py, transport flows):
     oauth2/oidc AuthorizationRequest.verify, `request`:  every parameter the object does not carry is deleted,
         then self.update(object)                                   -> the object IS the request
     Authorization._do_request_uri, fetched document:  `for k, v in _ver_request.items(): request[k] = v`
                                                                    -> per parameter: the object's value wins,
                                                                       parameters only on the front channel stay
     Authorization._do_request_uri, urn:uuid: of par_db:  `return _req`  -> the pushed request IS the request
     PushedAuthorization: parse_request merges lax, process_request re-parses with the authorization endpoint's
         request class (strict)                                     -> the pushed object IS the pushed request
   post_authn_parse (the PKCE hook) runs after these, on the assembled request. *)
Definition pk : Type := option pystr * option pystr.
Definition npk (p : pk) : pk := (norm (fst p), norm (snd p)).
Definition fill (a b : option pystr) : option pystr := match a with Some _ => a | None => b end.
(* protected parameters override same-named front-channel ones *)
Definition over (prot front : pk) : pk :=
  (fill (norm (fst prot)) (norm (fst front)), fill (norm (snd prot)) (norm (snd front))).

Inductive pushed_body := PbPlain (body : pk) | PbObject (obj body : pk).
Inductive delivery :=
| DFront (front : pk)
| DValue (obj front : pk)
| DRef (obj front : pk)
| DPushed (b : pushed_body) (front : pk).

Definition pushed_request (b : pushed_body) : pk :=
  match b with PbPlain body => npk body | PbObject obj _ => npk obj end.

(* the PKCE pair of the authenticated / protected request (None: the request has no protected part) *)
Definition protected_of (d : delivery) : option pk :=
  match d with
  | DFront _ => None
  | DValue obj _ | DRef obj _ => Some (npk obj)
  | DPushed b _ => Some (pushed_request b)
  end.
(* what travels unprotected through the user agent *)
Definition front_of (d : delivery) : pk :=
  match d with DFront f | DValue _ f | DRef _ f | DPushed _ f => npk f end.

(* the pair post_authn_parse sees *)
Definition assembled (d : delivery) : pk :=
  match d with
  | DFront f => npk f
  | DValue obj _ => npk obj
  | DRef obj f => over obj f
  | DPushed b _ => pushed_request b
  end.

(* what the grant of the issued code records: authn_leg on the assembled request *)
Definition recorded_d (cf : pkce_conf) (per_client : option bool) (d : delivery) : res (option pystr * pystr) :=
  authn_leg cf per_client (fst (assembled d)) (snd (assembled d)).

Definition flow_d (HB : N -> pystr -> pystr) (cf : pkce_conf) (per_client : option bool) (d : delivery)
           (cv tccm : option pystr) : outcome :=
  flow HB cf per_client (fst (assembled d)) (snd (assembled d)) cv tccm.

(* one flow whose authorization request came through a transport:
   (configured methods, global essential, per-client flag, delivery, token-request code_verifier and
    code_challenge_method, hash table, observed outcome,
    observed (code_challenge, code_challenge_method) of the grant's stored authorization request when a code was issued) *)
Definition dflow_case : Type :=
  list pystr * bool * option bool * delivery * option pystr * option pystr * hb_tab * outcome
  * option (option pystr * pystr).
Definition dflow_model (c : dflow_case) : outcome * option (option pystr * pystr) :=
  let '(ms, g, ce, d, cv, tccm, tab, _, _) := c in
  (flow_d (hb_lookup tab) (mk_pkce_conf ms g) ce d cv tccm,
   match recorded_d (mk_pkce_conf ms g) ce d with Ok st => Some st | _ => None end).
Definition opt_str_eqb (a b : option pystr) : bool :=
  match a, b with Some x, Some y => str_eqb x y | None, None => true | _, _ => false end.
Definition chk_dflow (c : dflow_case) : bool :=
  let '(_, _, _, _, _, _, _, obs, obs_r) := c in
  let (o, r) := dflow_model c in
  outcome_eqb o obs
  && match r, obs_r with
     | Some (c1, m1), Some (c2, m2) => opt_str_eqb c1 c2 && str_eqb m1 m2
     | None, None => true
     | _, _ => false
     end.

(* ---------------------------------------------------------------- the log-in page: interactive authentication
   When the user has to authenticate (no session, prompt=login, max_age exceeded ...) process_request does not mint
   the code.  Authorization.setup_auth -> authn_args_gather hands the authentication method
        query = request.to_urlencoded()
   (UserPassJinja2 puts it into the signed token of the log-in form); once the user has authenticated the application
   rebuilds the request from it (example/flask_op/views.py::verify):
        authz_request = AuthorizationRequest().from_urlencoded(auth_args["query"])
        create_session(authz_request, ...);  authz_part2(request=authz_request, ...)
   and the grant of the code records THAT request.  post_authn_parse ran before the page was shown, on the request
   parse_request produced; nothing PKCE-related runs on the rebuilt one.

   Message.to_urlencoded writes EVERY parameter the message holds, declared in the class's c_param or not: a str as it
   is, a declared list of str through sp_sep_list_serializer (" ".join).  Message.from_urlencoded: parse_qs, then per
   name: a declared list parameter through sp_sep_list_deserializer (split(" ")), anything else - declared single value
   or extension parameter - the one value as it is.  code_challenge / code_challenge_method are extension parameters of
   both AuthorizationRequest classes. *)
Inductive pval := PvS (s : pystr) | PvL (l : list pystr).
Definition rparams : Type := list (pystr * pval).
Definition sp : N := 32.
Module PkceKeys.
  Import Coq.Strings.String.
  Local Open Scope string_scope.
  Definition k_cc : pystr := PS "code_challenge".
  Definition k_ccm : pystr := PS "code_challenge_method".
End PkceKeys.
Export PkceKeys.

Definition ser (v : pval) : pystr := match v with PvS s => s | PvL l => join [sp] l end.
(* lists: the names the request class declares with a list type (scope, response_type, prompt, ...) *)
Definition deser (lists : list pystr) (k v : pystr) : pval :=
  if str_in k lists then PvL (split_c sp v) else PvS v.

Definition wire (r : rparams) : list (pystr * pystr) := map (fun kv => (fst kv, ser (snd kv))) r.
Definition to_query (r : rparams) : option pystr := Qs.urlencode (wire r).
Definition from_query (lists : list pystr) (q : pystr) : res rparams :=
  l <- Qs.parse_qsl q ;; Ok (map (fun kv => (fst kv, deser lists (fst kv) (snd kv))) l).
(* request -> serialised query -> rebuilt request *)
Definition resume (lists : list pystr) (r : rparams) : res rparams :=
  match to_query r with
  | None => Err UnicodeError
  | Some q => from_query lists q
  end.

(* the PKCE pair a request holds, as the text the wire would carry *)
Definition qpair (r : rparams) : pk := (option_map ser (assoc k_cc r), option_map ser (assoc k_ccm r)).

(* the request parse_request hands to process_request: the other parameters and what post_authn_parse left of
   the PKCE pair (st = authn_leg's result: the challenge if any, the method always) *)
Definition held (others : rparams) (st : option pystr * pystr) : rparams :=
  others ++ (match fst st with Some c => [(k_cc, PvS c)] | None => [] end) ++ [(k_ccm, PvS (snd st))].

(* what the grant of the code minted after the log-in page records *)
Definition recorded_i (cf : pkce_conf) (per_client : option bool) (d : delivery) (lists : list pystr) (others : rparams)
  : res pk :=
  st <- recorded_d cf per_client d ;; r' <- resume lists (held others st) ;; Ok (qpair r').

(* post_token_parse on a stored request holding the pair p:
     "code_challenge" in _authn_req -> verifier required -> _authn_req["code_challenge_method"] (KeyError when absent) *)
Definition token_leg_q (HB : N -> pystr -> pystr) (p : pk) (cv tccm : option pystr) : res unit :=
  match p with
  | (None, _) => Ok tt
  | (Some c, Some m) => token_leg HB (Some c, m) cv tccm
  | (Some c, None) => match norm cv with None => Err (Refused 3) | Some _ => Err KeyError end
  end.

(* authorization request (any transport) -> log-in page -> request rebuilt from the page's query -> code -> token request.
   AzRefused 98: the log-in page cannot be produced / read back. *)
Definition flow_i (HB : N -> pystr -> pystr) (cf : pkce_conf) (per_client : option bool) (d : delivery)
           (lists : list pystr) (others : rparams) (cv tccm : option pystr) : outcome :=
  match recorded_d cf per_client d with
  | Ok st =>
      match resume lists (held others st) with
      | Ok r' =>
          match token_leg_q HB (qpair r') cv tccm with
          | Ok _ => Tokens
          | Err (Refused n) => TkRefused n
          | Err e => TkRaised e
          | Unmodelled => TkRaised TypeError
          end
      | _ => AzRefused 98
      end
  | Err (Refused n) => AzRefused n
  | _ => AzRefused 0
  end.

(* one interactive flow:
   (configured methods, global essential, per-client flag, delivery, list-typed parameter names of the request class,
    the other parameters of the request, token-request code_verifier and code_challenge_method, hash table,
    observed outcome,
    observed pair in the query of the log-in page (None: no page was shown),
    observed pair of the grant's stored authorization request when a code was issued) *)
Definition iflow_case : Type :=
  list pystr * bool * option bool * delivery * list pystr * rparams * option pystr * option pystr * hb_tab * outcome
  * option pk * option pk.
Definition page_pair (cf : pkce_conf) (ce : option bool) (d : delivery) : option pk :=
  match recorded_d cf ce d with Ok st => Some (fst st, Some (snd st)) | _ => None end.
Definition iflow_model (c : iflow_case) : outcome * option pk * option pk :=
  let '(ms, g, ce, d, lists, others, cv, tccm, tab, _, _, _) := c in
  let cf := mk_pkce_conf ms g in
  (flow_i (hb_lookup tab) cf ce d lists others cv tccm,
   page_pair cf ce d,
   match recorded_i cf ce d lists others with Ok p => Some p | _ => None end).
Definition pk_eqb (a b : pk) : bool := opt_str_eqb (fst a) (fst b) && opt_str_eqb (snd a) (snd b).
Definition opt_pk_eqb (a b : option pk) : bool :=
  match a, b with Some x, Some y => pk_eqb x y | None, None => true | _, _ => false end.
Definition chk_iflow (c : iflow_case) : bool :=
  let '(_, _, _, _, _, _, _, _, _, obs, obs_q, obs_r) := c in
  let '(o, q, r) := iflow_model c in
  outcome_eqb o obs && opt_pk_eqb q obs_q && opt_pk_eqb r obs_r.

(* ---------------------------------------------------------------- extension parameters, and whether the hooks RUN
   The add-on is a pair of post-parse hooks.  Endpoint.do_post_parse_request:
        for meth in self.post_parse_request:
            if isinstance(request, self.error_cls): break
            request = meth(request, client_id, context=_context, **kwargs)
   The loop stops on the CLASS of the message (a hook answered with an error message / raised), never on what members
   the message has: a request is a request whatever parameters it carries - one called `error`, `error_description`,
   `response_args`, `authenticated`, `__verified_request` ... included.  pmsg is the message with its class;
   the hooks read the parameters they are about BY NAME from the whole request (every member the wire carried). *)
Inductive pmsg :=
| PReq (r : rparams)        (* an instance of the endpoint's request class, with every member it holds *)
| PErr (n : N)              (* an instance of an error class (refusal tag n) *)
| PRaise (e : exc).         (* the hook raised *)
Definition phook : Type := rparams -> pmsg.
Fixpoint post_parse (hs : list phook) (m : pmsg) : pmsg :=
  match hs with
  | [] => m
  | h :: t => match m with PReq r => post_parse t (h r) | _ => m end
  end.

Module PkceKeys2.
  Import Coq.Strings.String.
  Local Open Scope string_scope.
  Definition k_cv : pystr := PS "code_verifier".
End PkceKeys2.
Export PkceKeys2.

(* request[k] as text (None: `k not in request`) *)
Definition sget (k : pystr) (r : rparams) : option pystr := option_map ser (assoc k r).

(* the members a PKCE pair / the PKCE part of a token request contributes to a message *)
Definition pk_members (p : pk) : rparams :=
  (match fst p with Some c => [(k_cc, PvS c)] | None => [] end)
  ++ (match snd p with Some m => [(k_ccm, PvS m)] | None => [] end).
Definition tk_members (cv tccm : option pystr) : rparams :=
  (match cv with Some v => [(k_cv, PvS v)] | None => [] end)
  ++ (match tccm with Some m => [(k_ccm, PvS m)] | None => [] end).

(* post_authn_parse as a hook on the whole request; `request["code_challenge_method"] = ...` is the new first binding
   (assoc reads the first binding of a name) *)
Definition authn_hook (cf : pkce_conf) (ce : option bool) : phook := fun r =>
  match authn_leg cf ce (sget k_cc r) (sget k_ccm r) with
  | Ok st => PReq ((k_ccm, PvS (snd st)) :: r)
  | Err (Refused n) => PErr n
  | Err e => PRaise e
  | Unmodelled => PRaise TypeError
  end.

(* what the grant records of a parsed authorization request with members r *)
Definition authz_leg_x (cf : pkce_conf) (ce : option bool) (r : rparams) : res (option pystr * pystr) :=
  match post_parse [authn_hook cf ce] (PReq r) with
  | PReq r' => match sget k_ccm r' with Some m => Ok (norm (sget k_cc r'), m) | None => Unmodelled end
  | PErr n => Err (Refused n)
  | PRaise e => Err e
  end.

(* post_token_parse as a hook on the whole token request *)
Definition token_hook (HB : N -> pystr -> pystr) (st : option pystr * pystr) : phook := fun r =>
  match token_leg HB st (sget k_cv r) (sget k_ccm r) with
  | Ok _ => PReq r
  | Err (Refused n) => PErr n
  | Err e => PRaise e
  | Unmodelled => PRaise TypeError
  end.

(* a flow whose authorization request (any transport) carried the extension parameters ax next to the assembled PKCE
   pair, and whose token request carried tx next to code_verifier / code_challenge_method *)
Definition flow_x (HB : N -> pystr -> pystr) (cf : pkce_conf) (ce : option bool) (d : delivery)
           (ax tx : rparams) (cv tccm : option pystr) : outcome :=
  match authz_leg_x cf ce (ax ++ pk_members (assembled d)) with
  | Ok st =>
      match post_parse [token_hook HB st] (PReq (tx ++ tk_members cv tccm)) with
      | PReq _ => Tokens
      | PErr n => TkRefused n
      | PRaise e => TkRaised e
      end
  | Err (Refused n) => AzRefused n
  | _ => AzRefused 0
  end.

(* the interactive variant: the extension parameters travel through the page's query like every other parameter *)
Definition flow_ix (HB : N -> pystr -> pystr) (cf : pkce_conf) (ce : option bool) (d : delivery)
           (lists : list pystr) (others ax tx : rparams) (cv tccm : option pystr) : outcome :=
  flow_i HB cf ce d lists (others ++ ax) (sget k_cv (tx ++ tk_members cv tccm)) (sget k_ccm (tx ++ tk_members cv tccm)).

(* one flow with extension parameters:
   (configured methods, global essential, per-client flag, delivery, extension parameters of the authorization request,
    extension parameters of the token request, code_verifier, token-request code_challenge_method, hash table,
    observed outcome, observed pair of the grant's stored authorization request when a code was issued) *)
Definition xflow_case : Type :=
  list pystr * bool * option bool * delivery * rparams * rparams * option pystr * option pystr * hb_tab * outcome
  * option (option pystr * pystr).
Definition xflow_model (c : xflow_case) : outcome * option (option pystr * pystr) :=
  let '(ms, g, ce, d, ax, tx, cv, tccm, tab, _, _) := c in
  (flow_x (hb_lookup tab) (mk_pkce_conf ms g) ce d ax tx cv tccm,
   match authz_leg_x (mk_pkce_conf ms g) ce (ax ++ pk_members (assembled d)) with Ok st => Some st | _ => None end).
Definition chk_xflow (c : xflow_case) : bool :=
  let '(_, _, _, _, _, _, _, _, _, obs, obs_r) := c in
  let (o, r) := xflow_model c in
  outcome_eqb o obs
  && match r, obs_r with
     | Some (c1, m1), Some (c2, m2) => opt_str_eqb c1 c2 && str_eqb m1 m2
     | None, None => true
     | _, _ => false
     end.

(* one interactive flow with extension parameters: those of the authorization request are among `others` of the
   iflow_case (they are members of the request the page's query is written from), tx are those of the token request *)
Definition xiflow_case : Type := rparams * iflow_case.
Definition xiflow_inner (c : xiflow_case) : iflow_case :=
  let '(tx, (ms, g, ce, d, lists, others, cv, tccm, tab, o, q, r)) := c in
  (ms, g, ce, d, lists, others, sget k_cv (tx ++ tk_members cv tccm), sget k_ccm (tx ++ tk_members cv tccm), tab, o, q, r).
Definition xiflow_model (c : xiflow_case) := iflow_model (xiflow_inner c).
Definition chk_xiflow (c : xiflow_case) : bool := chk_iflow (xiflow_inner c).
