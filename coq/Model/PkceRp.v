(* Model/PkceRp.v — C15, the relying party's verifier store over HISTORIES.
     idpyoidc.client.current.Current           (update, set, get, get_set: the state records of the RP, `cstate`)
     idpyoidc.client.oauth2.add_on.pkce        (add_code_challenge stores the verifier under the state value;
                                                add_code_verifier reads it back for the token request)
     idpyoidc.client.oauth2.authorization.Authorization   (pre_construct: pick redirect_uri, set_state_parameter, [add-on];
                                                           post_construct: store_auth_request = cstate.update(state, request))
     idpyoidc.client.oidc.authorization.Authorization     (pre_construct: set_state = cstate.SET(state, {"iss": issuer}), pick
                                                           redirect_uri, oidc_pre_construct, [add-on];
                                                           post_construct: oidc_post_construct = cstate.update(state, request))
   An application may build the authorization request more than once under ONE state value (regenerated log-in URL, retry,
   caller-supplied fixed state).  The OAuth2 service then UPDATES the existing record, the OIDC service RESETS it first.
   Hand-written, total, executable; tied to the code by harness/drv_C15.py (rp_histories: the real services of an OAuth2 and
   an OIDC relying party, authorization requests built 1..3 times under a state, interleaved with another state, responses
   stored in between; observed: the code_verifier of the token request the RP builds).  No proofs in this file. *)
From Verif Require Import Lib.Base Lib.PyStr Lib.PkceTy Gen.PkceTables Model.Pkce.
From Coq Require String.
Open Scope N_scope.

(* one state record (claim -> value; the values that matter here are strings) and Current._db *)
Definition crec : Type := list (pystr * pystr).
Definition cstore : Type := list (pystr * crec).

Section Keys.
  Import String.
  Open Scope string_scope.
  Definition kv_verifier : pystr := PS "code_verifier".
  Definition kv_challenge : pystr := PS "code_challenge".
  Definition kv_method : pystr := PS "code_challenge_method".
  Definition kv_nonce : pystr := PS "nonce".
  Definition kv_iss : pystr := PS "iss".
End Keys.

(* dict.update *)
Fixpoint dupdate (cur info : crec) : crec :=
  match info with
  | [] => cur
  | (k, v) :: r => dupdate (aset k v cur) r
  end.

(* Current.update, the record exists:
     if "nonce" in _current and info.get("nonce", _current["nonce"]) != _current["nonce"]:
         info = {k: v for k, v in info.items() if k != "nonce"}                               *)
Definition nonce_guard (cur info : crec) : crec :=
  match assoc kv_nonce cur with
  | Some n =>
      match assoc kv_nonce info with
      | Some n' => if str_eqb n' n then info else filter (fun kv => negb (str_eqb (fst kv) kv_nonce)) info
      | None => info
      end
  | None => info
  end.

(* Current.update(key, info):  no record -> the record IS info;  else guarded dict.update *)
Definition cur_update (st : cstore) (key : pystr) (info : crec) : cstore :=
  match assoc key st with
  | None => aset key info st
  | Some cur => aset key (dupdate cur (nonce_guard cur info)) st
  end.

(* Current.set(key, info) *)
Definition cur_set (st : cstore) (key : pystr) (info : crec) : cstore := aset key info st.

(* Current.get:  `_data = self._db.get(key); if not _data: raise KeyError(key)` *)
Definition cur_get (st : cstore) (key : pystr) : res crec :=
  match assoc key st with
  | Some (x :: r) => Ok (x :: r)
  | _ => Err KeyError
  end.

(* what the application / the services do to the store, one step each *)
Inductive rp_op :=
| RpBegin (oidc : bool) (s : pystr) (m : option pystr) (v : pystr) (iss : pystr) (others : crec)
    (* Authorization.construct_request under state s.  m: the add-on's configured method; v: what unreserved() returned;
       iss: context.issuer (OIDC: the reset record); others: the string members of the request except the PKCE pair *)
| RpStore (s : pystr) (members : crec).
    (* cstate.update(s, members): update_service_context with a response, create_state, the application *)

Definition op_state (o : rp_op) : pystr :=
  match o with RpBegin _ s _ _ _ _ => s | RpStore s _ => s end.

Section Hist.
  Variable HB : N -> pystr -> pystr.

  (* pre_construct then post_construct of the authorization service.  The OIDC set_state runs BEFORE the add-on, so it has
     reset the record even when the add-on then raises Unsupported; the OAuth2 chain touches the store in the add-on first. *)
  Definition rp_begin (st : cstore) (oidc : bool) (s : pystr) (m : option pystr) (v iss : pystr) (others : crec)
    : cstore * res (pystr * pystr) :=
    let st1 := if oidc then cur_set st s [(kv_iss, iss)] else st in
    match rp_make HB m v with
    | Ok (c, m') =>
        let st2 := cur_update st1 s [(kv_verifier, v); (kv_method, m')] in
        (cur_update st2 s (others ++ [(kv_challenge, c); (kv_method, m')]), Ok (c, m'))
    | e => (st1, e)
    end.

  Definition rp_step (st : cstore) (o : rp_op) : cstore :=
    match o with
    | RpBegin oidc s m v iss others => fst (rp_begin st oidc s m v iss others)
    | RpStore s members => cur_update st s members
    end.

  Fixpoint rp_run (st : cstore) (ops : list rp_op) : cstore :=
    match ops with
    | [] => st
    | o :: r => rp_run (rp_step st o) r
    end.
End Hist.

(* add_code_verifier:  request_args.update(cstate.get_set(state, claim=["code_verifier"]))
   Ok None: the token request carries no code_verifier;  Err KeyError: no (or an empty) record under the state *)
Definition rp_sent (st : cstore) (s : pystr) : res (option pystr) :=
  r <- cur_get st s ;; Ok (assoc kv_verifier r).

(* the code_verifier parameter of the token request, as the provider's token leg receives it *)
Definition rp_token_verifier (st : cstore) (s : pystr) : option pystr :=
  match rp_sent st s with Ok o => o | _ => None end.

(* ---- checker for generated correspondence case files:
   (history from an empty store, the state of the token request, hash table, observed code_verifier of the token request) *)
Definition hist_case : Type := list rp_op * pystr * hb_tab * res (option pystr).
Definition hist_model (c : hist_case) : res (option pystr) :=
  let '(ops, s, tab, _) := c in rp_sent (rp_run (hb_lookup tab) [] ops) s.
Definition chk_hist (c : hist_case) : bool :=
  let '(_, _, _, obs) := c in res_eqb (option_eqb str_eqb) (hist_model c) obs.
