(* Model/RegFlow.v — property C06: how a registration REACHES the stored (base, query) pairs the
   authorization endpoint matches against.

   The C06 configurations of the driver put (base, query) pairs straight into the client database.  A
   dynamically registered client gets them from Registration.verify_redirect_uris, which runs over the
   LIST of redirect URIs of the request.  This file composes the two models that already exist:

     Model/Registration.v (property C19)   verify_one / verify_uris : the stored form of one URI / of a list
     Model/Uri.v          (property C06)   verify_uri / decide      : what the authorization endpoint serves

   Nothing of Registration.v is duplicated: store1 / store_list ARE verify_one / verify_uris.
   Hand-written glue, executable; validated against the real registration endpoint followed by the real
   authorization endpoint on every run by harness/drv_C06.py (chk_register / chk_reg_verify /
   chk_reg_decide cases).  Proofs: Proofs/RegFlow_proofs.v. *)
From Coq Require Import String.
From Verif Require Import Lib.Base Lib.PyStr.
From Verif Require Model.RegUri Model.Registration.
From Verif Require Import Model.Uri.
Open Scope N_scope.

(* one entry of cdb[client]["redirect_uris"] as dynamic registration writes it: split_uri of the URI *)
Definition stored := (pystr * qdict)%type.

(* web clients that do not restrict themselves to the code flow register https only *)
Definition must_https (ct : pystr) (code_only : bool) : bool :=
  str_eqb ct Registration.S_web && negb code_only.

(* the stored form of ONE redirect URI, for an application type *)
Definition store1 (ct : pystr) (mh : bool) (u : pystr) : res stored := Registration.verify_one ct mh u.
(* the loop of verify_redirect_uris over the list of the request *)
Definition store_list (ct : pystr) (mh : bool) (l : list pystr) : res (list stored) :=
  Registration.verify_uris ct mh l.

(* the registered entry the matcher of Model/Uri.v sees *)
Definition to_reg (x : stored) : reg := RPair (fst x) (Some (snd x)).
(* what the registration response says was registered (comb_uri) *)
Definition echo1 (x : stored) : pystr := RegUri.comb1 (fst x) (snd x).

Definition is_native (ct : pystr) : bool := str_eqb ct Registration.S_native.

(* registration: the stored pairs and the redirect_uris of the response *)
Definition register (ct : pystr) (code_only : bool) (l : list pystr) : res (list stored * list pystr) :=
  st <- store_list ct (must_https ct code_only) l ;; Ok (st, List.map echo1 st).

(* registration followed by the matcher / by the decision of the authorization endpoint.  A refused
   registration leaves no client: there is nothing to ask (NotModelled / Unmodelled, never generated). *)
Definition verify_registered (ct : pystr) (code_only : bool) (l : list pystr) (oidc : bool) (u : pystr) : res unit :=
  match store_list ct (must_https ct code_only) l with
  | Ok st => verify_uri (List.map to_reg st) (is_native ct) oidc u
  | _ => Unmodelled
  end.
Definition decide_registered (ct : pystr) (code_only : bool) (l : list pystr) (oidc : bool) (ru : option pystr) : decision :=
  match store_list ct (must_https ct code_only) l with
  | Ok st => decide (List.map to_reg st) (is_native ct) oidc ru
  | _ => NotModelled
  end.

(* ------------------------------------------------------------------ checkers for generated case files *)
Definition stored_eqb (a b : stored) : bool := str_eqb (fst a) (fst b) && list_eqb qd_entry_eqb (snd a) (snd b).
Definition reg_obs := res (list stored * list pystr).
(* (application type, response_types == ["code"], URIs sent, observed: stored pairs + echoed URIs | refusal) *)
Definition rcase := (pystr * bool * list pystr * reg_obs)%type.
Definition chk_register (c : rcase) : bool :=
  let '(ct, co, l, obs) := c in
  match register ct co l, obs with
  | Ok (st, ec), Ok (st', ec') => list_eqb stored_eqb st st' && list_eqb str_eqb ec ec'
  | Err (Refused _), Err (Refused _) => true
  | Err e, Err e' => match e, e' with ValueError, ValueError => true | _, _ => false end
  | Unmodelled, _ => true                     (* outside the fragment of Model/RegUri.v: counted by the driver *)
  | _, _ => false
  end.
Definition register_is_modelled (c : rcase) : bool :=
  let '(ct, co, l, _) := c in match register ct co l with Unmodelled => false | _ => true end.
Definition diag_register (c : rcase) : reg_obs := let '(ct, co, l, _) := c in register ct co l.

(* (application type, code only, URIs sent, oidc, requested URI, observed verify_uri) after an ACCEPTED registration *)
Definition rvcase := (pystr * bool * list pystr * bool * pystr * res unit)%type.
Definition chk_reg_verify (c : rvcase) : bool :=
  let '(ct, co, l, oidc, u, out) := c in
  match verify_registered ct co l oidc u with
  | Unmodelled => true
  | r => unit_res_eqb r out
  end.
Definition diag_reg_verify (c : rvcase) : res unit :=
  let '(ct, co, l, oidc, u, _) := c in verify_registered ct co l oidc u.

(* the endpoint decision after an accepted registration: 0 = redirectable (with the uri), 1 = direct error, 2 = raised *)
Definition rdcase := (pystr * bool * list pystr * bool * option pystr * (N * pystr))%type.
Definition chk_reg_decide (c : rdcase) : bool :=
  let '(ct, co, l, oidc, ru, (code, uri)) := c in
  match decide_registered ct co l oidc ru with
  | Redirectable u => (code =? 0) && str_eqb u uri
  | DirectError => code =? 1
  | Raised _ => code =? 2
  | NotModelled => true
  end.
Definition diag_reg_decide (c : rdcase) : decision :=
  let '(ct, co, l, oidc, ru, _) := c in decide_registered ct co l oidc ru.
