(* Model/RegUri.v — the fragment of CPython 3.12 urllib.parse that dynamic registration relies on:
   urlsplit / urlparse (scheme, netloc, path, query, fragment), SplitResult.hostname, urlunsplit,
   parse_qs, urlencode; and on top of it idpyoidc.util.split_uri and the per-URI part of
   idpyoidc.server.oidc.registration.comb_uri.
   Hand-written, executable, no proofs.  Validated against CPython on every run by harness/drv_C19.py
   (chk_urlsplit / chk_split_uri / chk_comb cases).
   Outside the modelled fragment (=> Unmodelled): a non-ASCII netloc (NFKC check), a bracketed host
   other than [::1] (ipaddress validation), non-ASCII characters or percent-escapes >= 0x80 in a query
   (UTF-8 decoding with replacement). *)
From Coq Require Import String.
From Verif Require Import Lib.Base.
From Verif Require Import Lib.PyStr.
From Verif Require Import Lib.Urlenc.
Open Scope N_scope.

(* ---- character classes ---- *)
Definition is_upper (c : N) : bool := (65 <=? c) && (c <=? 90).
Definition is_lower (c : N) : bool := (97 <=? c) && (c <=? 122).
Definition is_alpha (c : N) : bool := is_upper c || is_lower c.            (* c.isascii() and c.isalpha() *)
Definition lower_c (c : N) : N := if is_upper c then c + 32 else c.
Definition lower (s : pystr) : pystr := List.map lower_c s.
Definition is_ascii (s : pystr) : bool := forallb (fun c => c <? 128) s.
(* scheme_chars = letters digits + - . *)
Definition scheme_char (c : N) : bool := is_alpha c || is_digit c || (c =? 43) || (c =? 45) || (c =? 46).

(* url.lstrip(_WHATWG_C0_CONTROL_OR_SPACE): code points 0..32 *)
Fixpoint lstrip_c0 (s : pystr) : pystr :=
  match s with c :: r => if c <=? 32 then lstrip_c0 r else s | [] => [] end.
(* remove every \t \r \n *)
Definition remove_unsafe (s : pystr) : pystr :=
  List.filter (fun c => negb ((c =? 9) || (c =? 10) || (c =? 13))) s.

Definition has_c (c : N) (s : pystr) : bool := existsb (fun x => x =? c) s.

(* s.partition(c) -> (before, found, after) ; s.rpartition(c) *)
Definition partition_c (c : N) (s : pystr) : pystr * bool * pystr :=
  match split1_c c s with Some (a, b) => (a, true, b) | None => (s, false, []) end.
Definition rpartition_after (c : N) (s : pystr) : pystr :=     (* s.rpartition(c)[2] *)
  match split1_c c (List.rev s) with Some (a, _) => List.rev a | None => s end.

(* _splitnetloc(url, 2) on the text after the leading "//": netloc runs to the first of / ? # *)
Fixpoint splitnetloc (s : pystr) : pystr * pystr :=
  match s with
  | [] => ([], [])
  | c :: r => if (c =? 47) || (c =? 63) || (c =? 35) then ([], s)
              else let '(a, b) := splitnetloc r in (c :: a, b)
  end.

Record split_result := mkSplit {
  u_scheme : pystr; u_netloc : pystr; u_path : pystr; u_query : pystr; u_fragment : pystr }.

Definition S_LOOP6 : pystr := [58; 58; 49].    (* "::1" *)

(* urlsplit(url) ; urlparse(url) has the same scheme / netloc / query / fragment (it only splits
   ;params off the path) and raises the same ValueError. *)
Definition urlsplit (url0 : pystr) : res split_result :=
  let url := remove_unsafe (lstrip_c0 url0) in
  let '(scheme, rest) :=
    match split1_c 58 url with
    | Some (a :: pre, post) =>
        if is_alpha a && forallb scheme_char (a :: pre) then (lower (a :: pre), post) else ([], url)
    | _ => ([], url)
    end in
  let '(netloc, rest1) :=
    match rest with
    | 47 :: 47 :: r => splitnetloc r
    | _ => ([], rest)
    end in
  let ob := has_c 91 netloc in
  let cb := has_c 93 netloc in
  if (ob && negb cb) || (cb && negb ob) then Err ValueError
  else
    let bracket_check : res unit :=
      if ob && cb then
        let '(_, _, after) := partition_c 91 netloc in
        let '(inside, _, _) := partition_c 93 after in
        if str_eqb inside S_LOOP6 then Ok tt else Unmodelled
      else Ok tt in
    _ <- bracket_check ;;
    let '(rest2, fragment) :=
      match split1_c 35 rest1 with Some (a, b) => (a, b) | None => (rest1, []) end in
    let '(path, query) :=
      match split1_c 63 rest2 with Some (a, b) => (a, b) | None => (rest2, []) end in
    if is_ascii netloc then Ok (mkSplit scheme netloc path query fragment) else Unmodelled.

(* SplitResult.hostname (None when empty) *)
Definition hostname (netloc : pystr) : option pystr :=
  let hostinfo := rpartition_after 64 netloc in
  let '(_, have_open, bracketed) := partition_c 91 hostinfo in
  let h := if have_open then let '(x, _, _) := partition_c 93 bracketed in x
           else let '(x, _, _) := partition_c 58 hostinfo in x in
  match h with
  | [] => None
  | _ => let '(a, pc, z) := partition_c 37 h in
         Some (lower a ++ (if pc then 37 :: z else []))
  end.

(* urllib.parse.uses_netloc *)
Definition uses_netloc : list pystr :=
  List.map PS ["ftp"; "http"; "gopher"; "nntp"; "telnet"; "imap"; "wais"; "file"; "mms"; "https"; "shttp";
               "snews"; "prospero"; "rtsp"; "rtsps"; "rtspu"; "rsync"; "svn"; "svn+ssh"; "sftp"; "nfs";
               "git"; "git+ssh"; "ws"; "wss"; "itms-services"]%string%list.

(* urlunsplit((scheme, netloc, path, query, fragment)) *)
Definition urlunsplit (scheme netloc path query fragment : pystr) : pystr :=
  let url :=
    match netloc with
    | _ :: _ =>
        [47; 47] ++ netloc ++ (match path with [] => [] | 47 :: _ => path | _ => 47 :: path end)
    | [] =>
        let is_scheme := match scheme with [] => false | _ => true end in
        let dslash := match path with 47 :: 47 :: _ => true | _ => false end in
        if is_scheme && str_in scheme uses_netloc && negb dslash then
          [47; 47] ++ (match path with [] => [] | 47 :: _ => path | _ => 47 :: path end)
        else path
    end in
  let url := match scheme with [] => url | _ => scheme ++ 58 :: url end in
  let url := match query with [] => url | _ => url ++ 63 :: query end in
  match fragment with [] => url | _ => url ++ 35 :: fragment end.

(* ---- parse_qs on the ASCII fragment ---- *)
Definition qdict := list (pystr * list pystr).

(* '+' -> ' ' then unquote; Unmodelled when non-ASCII text or a decoded byte >= 0x80 is involved *)
Definition unq (s : pystr) : res pystr :=
  if is_ascii s then
    let r := unquote_plus s in
    if is_ascii r then Ok r else Unmodelled
  else Unmodelled.

Fixpoint qd_add (k v : pystr) (d : qdict) : qdict :=
  match d with
  | [] => [(k, [v])]
  | (k', vs) :: r => if str_eqb k k' then (k', vs ++ [v]) :: r else (k', vs) :: qd_add k v r
  end.

Fixpoint parse_qs_fields (fields : list pystr) (d : qdict) : res qdict :=
  match fields with
  | [] => Ok d
  | f :: r =>
      match f with
      | [] => parse_qs_fields r d
      | _ =>
        match split1_c 61 f with
        | None => parse_qs_fields r d                     (* no '=' : dropped (keep_blank_values=False) *)
        | Some (n, v) =>
            match v with
            | [] => parse_qs_fields r d                   (* blank value dropped *)
            | _ => n' <- unq n ;; v' <- unq v ;; parse_qs_fields r (qd_add n' v' d)
            end
        end
      end
  end.
Definition parse_qs (q : pystr) : res qdict := parse_qs_fields (split_c 38 q) [].

(* ---- idpyoidc.util.split_uri: (base, Some dict) when the URI has a query, (base, None) otherwise ---- *)
Definition split_uri (uri : pystr) : res (pystr * option qdict) :=
  p <- urlsplit uri ;;
  let base := urlunsplit (u_scheme p) (u_netloc p) (u_path p) [] [] in
  match u_query p with
  | [] => Ok (base, None)
  | q => d <- parse_qs q ;; Ok (base, Some d)
  end.

(* ---- urlencode([(key, v) for key in query_dict for v in query_dict[key]]) ---- *)
Definition urlencode_pairs (d : qdict) : list pystr :=
  flat_map (fun kv => List.map (fun v => quote_plus (fst kv) ++ 61 :: quote_plus v) (snd kv)) d.
Definition urlencode (d : qdict) : pystr := join [38] (urlencode_pairs d).

(* one (base, query_dict) entry of comb_uri's redirect_uris loop *)
Definition comb1 (base : pystr) (d : qdict) : pystr :=
  match d with [] => base | _ => base ++ 63 :: urlencode d end.

(* ======================= checkers used by generated case files ======================= *)
Definition split5 := (pystr * pystr * pystr * pystr * pystr)%type.
Definition split_eqb (a : split_result) (b : split5) : bool :=
  let '(s, n, p, q, f) := b in
  str_eqb (u_scheme a) s && str_eqb (u_netloc a) n && str_eqb (u_path a) p && str_eqb (u_query a) q
  && str_eqb (u_fragment a) f.
Definition qdict_eqb : qdict -> qdict -> bool :=
  list_eqb (fun a b => str_eqb (fst a) (fst b) && list_eqb str_eqb (snd a) (snd b)).

(* (url, observed urlsplit 5-tuple + hostname | ValueError); an Unmodelled input passes only when the
   driver flagged the case as outside the fragment (it then sends `Unmodelled`) *)
Definition chk_urlsplit (c : pystr * res (split5 * option pystr)) : bool :=
  let '(url, obs) := c in
  match urlsplit url, obs with
  | Ok p, Ok (t, h) => split_eqb p t && option_eqb str_eqb (hostname (u_netloc p)) h
  | Err ValueError, Err ValueError => true
  | Unmodelled, Unmodelled => true
  | _, _ => false
  end.

Definition chk_split_uri (c : pystr * res (pystr * option qdict)) : bool :=
  let '(url, obs) := c in
  match split_uri url, obs with
  | Ok (b, q), Ok (b', q') => str_eqb b b' && option_eqb qdict_eqb q q'
  | Err ValueError, Err ValueError => true
  | Unmodelled, Unmodelled => true
  | _, _ => false
  end.

Definition chk_comb (c : pystr * qdict * pystr) : bool :=
  let '(base, d, obs) := c in str_eqb (comb1 base d) obs.
