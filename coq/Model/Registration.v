(* Model/Registration.v — dynamic client registration and the registration read endpoint:
   idpyoidc.server.oidc.registration (Registration.verify_redirect_uris, match_claim /
   filter_client_request, random_client_id, add_registration_api, add_client_secret,
   client_registration_setup with its stub-then-rollback discipline, do_client_registration, comb_uri),
   idpyoidc.message.oidc.RegistrationRequest.verify, Message.rm_blanks, and
   idpyoidc.server.oidc.read_registration.RegistrationRead behind BearerHeader / verify_client.
   Hand-written, total, executable; NO proofs here.  Tied to the code by harness/drv_C19.py.

   Random draws (rndstr(16) client ids, rndstr(8) salt, rndstr(32) registration token, secret()) are
   inputs of the operation (an explicit supply); the clock is an input; KeyJar.load_keys is an
   environment function whose verdict on the request's jwks is an input bit. *)
From Coq Require Import String.
From Verif Require Import Lib.Base.
From Verif Require Import Lib.PyStr.
From Verif Require Import Lib.Urlenc.
From Verif Require Import Model.RegUri.
Open Scope N_scope.

Notation dict := (list (pystr * pyval)).

(* ------------------------------------------------------------------ string constants *)
Definition K_application_type := PS "application_type".
Definition K_response_types := PS "response_types".
Definition K_redirect_uris := PS "redirect_uris".
Definition K_request_uris := PS "request_uris".
Definition K_post_logout := PS "post_logout_redirect_uri".
Definition K_sector := PS "sector_identifier_uri".
Definition K_policy_uri := PS "policy_uri".
Definition K_logo_uri := PS "logo_uri".
Definition K_tos_uri := PS "tos_uri".
Definition K_subject_type := PS "subject_type".
Definition K_initiate_login_uri := PS "initiate_login_uri".
Definition K_teasa := PS "token_endpoint_auth_signing_alg".
Definition K_idt_sig := PS "id_token_signed_response_alg".
Definition K_ui_sig := PS "userinfo_signed_response_alg".
Definition K_client_id := PS "client_id".
Definition K_client_salt := PS "client_salt".
Definition K_client_secret := PS "client_secret".
Definition K_secret_expires := PS "client_secret_expires_at".
Definition K_issued_at := PS "client_id_issued_at".
Definition K_rat := PS "registration_access_token".
Definition K_rcu := PS "registration_client_uri".
Definition K_auth_method := PS "auth_method".
Definition K_cam := PS "client_authn_method".
Definition K_ep_cam := PS "_client_authn_method".      (* f"{endpoint.endpoint_name}_client_authn_method", endpoint_name = "" *)
Definition S_web := PS "web".
Definition S_native := PS "native".
Definition S_code := PS "code".
Definition S_http := PS "http".
Definition S_https := PS "https".
Definition S_localhost := PS "localhost".
Definition S_127 := PS "127.0.0.1".
Definition S_none := PS "none".
Definition S_public := PS "public".
Definition S_pairwise := PS "pairwise".
Definition S_https_colon := PS "https:".
Definition S_default_enc := PS "A128CBC-HS256".
Definition S_q_client_id := PS "?client_id=".
Definition S_Bearer_sp := PS "Bearer ".
Definition S_bearer_header := PS "bearer_header".
Definition S_Message := PS "Message".
Definition E_invalid_redirect_uri := PS "invalid_redirect_uri".
Definition E_invalid_conf_param := PS "invalid_configuration_parameter".
Definition E_invalid_request := PS "invalid_request".
Definition E_invalid_conf_request := PS "invalid_configuration_request".
(* the keys the provider assigns itself (the stub of client_registration_setup) *)
Definition reserved_keys : list pystr :=
  [K_client_id; K_client_salt; K_client_secret; K_secret_expires; K_issued_at; K_rat; K_rcu].
(* do_client_registration(..., ignore=[...]) *)
Definition ignore_keys : list pystr := [K_redirect_uris; K_policy_uri; K_logo_uri; K_tos_uri].

Definition nonempty {A} (l : list A) : bool := match l with [] => false | _ => true end.

(* ================================================================== 1. the redirect-URI decision *)

(* ---- the finite abstraction ---- *)
Inductive app_type := Web | Native | OtherApp.
Inductive scheme_class := SHttp | SHttps | SCustom | SNone.
Inductive host_class := HLoop | HOther.
Record uri_abs := mkAbs { a_scheme : scheme_class; a_host : host_class; a_frag : bool; a_query : bool }.
Inductive verdict := VReject (reason : N) | VCustom | VSplit.

Definition app_of (ct : pystr) : app_type :=
  if str_eqb ct S_web then Web else if str_eqb ct S_native then Native else OtherApp.
Definition scheme_class_of (s : pystr) : scheme_class :=
  if str_eqb s S_http then SHttp else if str_eqb s S_https then SHttps
  else match s with [] => SNone | _ => SCustom end.
Definition host_class_of (h : option pystr) : host_class :=
  match h with
  | Some x => if str_in x [S_localhost; S_127] then HLoop else HOther
  | None => HOther
  end.
Definition classify (p : split_result) : uri_abs :=
  mkAbs (scheme_class_of (u_scheme p)) (host_class_of (hostname (u_netloc p)))
        (nonempty (u_fragment p)) (nonempty (u_query p)).

(* the decision table over the abstraction (what the elif chain of verify_redirect_uris computes) *)
Definition decide (at_ : app_type) (must_https : bool) (a : uri_abs) : verdict :=
  if a_frag a then VReject 1
  else match at_ with
       | Native =>
           match a_scheme a with
           | SCustom => VCustom
           | SHttp => match a_host a with HLoop => VSplit | HOther => VReject 2 end
           | SHttps | SNone => VReject 2
           end
       | Web | OtherApp =>
           match a_scheme a with
           | SHttps => VSplit
           | SHttp => if must_https then VReject 3 else VSplit
           | SCustom | SNone => if must_https then VReject 3 else VReject 4
           end
       end.

(* ---- the concrete function, transcribed branch by branch from the Python ---- *)
Definition req_str (k : pystr) (d : dict) : pystr :=            (* d.get(k) or "" for string values *)
  match assoc k d with Some (VStr s) => s | _ => [] end.
Definition client_type (req : dict) : pystr :=                   (* request.get("application_type") or "web" *)
  match req_str K_application_type req with [] => S_web | s => s end.
Definition is_code_only (v : option pyval) : bool :=              (* request.get("response_types") == ["code"] *)
  match v with Some (VList [VStr s]) => str_eqb s S_code | _ => false end.
Definition must_https_of (req : dict) : bool :=
  str_eqb (client_type req) S_web && negb (is_code_only (assoc K_response_types req)).

Definition do_split (uri : pystr) : res (pystr * qdict) :=
  bq <- split_uri uri ;;
  Ok (fst bq, match snd bq with Some d => d | None => [] end).

Definition verify_one (ct : pystr) (must_https : bool) (uri : pystr) : res (pystr * qdict) :=
  p <- urlsplit uri ;;
  if nonempty (u_fragment p) then Err (Refused 1)
  else if str_eqb ct S_native then
    if nonempty (u_scheme p) && negb (str_in (u_scheme p) [S_http; S_https]) then do_split uri   (* custom scheme: not verified further, stored as base + query like the others (48214a9+) *)
    else if str_eqb (u_scheme p) S_http
            && match hostname (u_netloc p) with Some h => str_in h [S_localhost; S_127] | None => false end
         then do_split uri
    else Err (Refused 2)
  else if must_https && negb (str_eqb (u_scheme p) S_https) then Err (Refused 3)
  else if negb (str_in (u_scheme p) [S_http; S_https]) then Err (Refused 4)
  else if nonempty (u_fragment p) then Err (Refused 1)
  else do_split uri.

Fixpoint verify_uris (ct : pystr) (mh : bool) (uris : list pystr) : res (list (pystr * qdict)) :=
  match uris with
  | [] => Ok []
  | u :: r => x <- verify_one ct mh u ;; xs <- verify_uris ct mh r ;; Ok (x :: xs)
  end.

Fixpoint strs_of (l : list pyval) : option (list pystr) :=
  match l with
  | [] => Some []
  | VStr s :: r => option_map (cons s) (strs_of r)
  | _ => None
  end.
Definition req_strs (k : pystr) (d : dict) : option (list pystr) :=
  match assoc k d with Some (VList l) => strs_of l | _ => None end.

Definition verify_redirect_uris (req : dict) : res (list (pystr * qdict)) :=
  match req_strs K_redirect_uris req with
  | Some uris => verify_uris (client_type req) (must_https_of req) uris
  | None => Unmodelled
  end.

(* ---- the rule of the property text, stated over the abstraction, independently of `decide` ----
   no fragment; a web client that uses an implicit or hybrid flow registers https only; a native
   client registers only custom-scheme or http-loopback URIs; a custom scheme is for native clients
   only; a redirect URI has a scheme. *)
Definition uses_implicit_or_hybrid (rts : list pystr) : bool := existsb (fun rt => negb (str_eqb rt S_code)) rts.
Definition rule_ok (at_ : app_type) (implicit_or_hybrid : bool) (a : uri_abs) : bool :=
  negb (a_frag a)
  && (match at_, implicit_or_hybrid with Web, true => match a_scheme a with SHttps => true | _ => false end | _, _ => true end)
  && (match at_ with
      | Native => match a_scheme a, a_host a with SCustom, _ => true | SHttp, HLoop => true | _, _ => false end
      | _ => true end)
  && (match a_scheme a with SCustom => match at_ with Native => true | _ => false end | _ => true end)
  && (match a_scheme a with SNone => false | _ => true end).

Definition all_app : list app_type := [Web; Native; OtherApp].
Definition all_abs : list uri_abs :=
  flat_map (fun s => flat_map (fun h => flat_map (fun f => List.map (fun q => mkAbs s h f q) [true; false])
                                                  [true; false]) [HLoop; HOther]) [SHttp; SHttps; SCustom; SNone].
(* one cell of the finite table: an accepting verdict implies the rule, for every must_https value that
   the flow flag allows (web + implicit/hybrid forces must_https) *)
Definition cell_ok (at_ : app_type) (mh ih : bool) (a : uri_abs) : bool :=
  match decide at_ mh a with
  | VReject _ => true
  | _ => if (match at_ with Web => ih && negb mh | _ => false end) then true else rule_ok at_ ih a
  end.
Definition table_ok : bool :=
  forallb (fun at_ => forallb (fun mh => forallb (fun ih => forallb (cell_ok at_ mh ih) all_abs) [true; false])
                              [true; false]) all_app.

(* ================================================================== 2. metadata *)

(* ---- sorting / de-duplication (set intersection in match_claim has no defined order; both sides
   are compared sorted) ---- *)
Fixpoint str_leb (a b : pystr) : bool :=
  match a, b with
  | [], _ => true
  | _ :: _, [] => false
  | x :: a', y :: b' => if x <? y then true else if y <? x then false else str_leb a' b'
  end.
Fixpoint insert_sorted (s : pystr) (l : list pystr) : list pystr :=
  match l with
  | [] => [s]
  | x :: r => if str_eqb s x then l else if str_leb s x then s :: l else x :: insert_sorted s r
  end.
Definition sort_dedup (l : list pystr) : list pystr := fold_right insert_sorted [] l.

Record cfg := mkCfg {
  c_support : list (pystr * list pystr);  (* claim -> provider_info[register2preferred[claim]], for claims that have one *)
  c_listy : list pystr;                   (* claims whose RegistrationResponse.c_param type is a list *)
  c_resp_keys : list pystr;               (* RegistrationResponse.c_param *)
  c_sign_ok : list pystr;                 (* algorithms for which the provider holds a signing key (or needs none) *)
  c_read : option pystr;                  (* full_path of the registration_read endpoint, if configured *)
  c_expires_in : option Z                 (* client_secret lifetime; None = client_secret_expires False *)
}.

(* ---- RegistrationRequest.verify (generic required / allowed-value part restricted to what the
   schema declares, then the class-specific checks). Returns the possibly extended dict. ---- *)
Definition allowed_ok (k : pystr) (allowed : list pystr) (d : dict) : bool :=
  match assoc k d with
  | Some v => if py_truthy v then match v with VStr s => str_in s allowed | _ => true end else true
  | None => true
  end.
Definition enc_alg_step (prefix : string) (d : res dict) : res dict :=
  d <- d ;;
  let alg := PS (prefix ++ "_alg") in
  let enc := PS (prefix ++ "_enc") in
  let d1 := if has_key alg d && negb (has_key enc d) then aset enc (VStr S_default_enc) d else d in
  if has_key enc d1 && negb (has_key alg d1) then Err (Refused 23) else Ok d1.
Definition request_verify (d : dict) : res dict :=
  if negb (match assoc K_redirect_uris d with Some v => py_truthy v | None => false end) then Err (Refused 20)
  else if negb (allowed_ok K_application_type [S_native; S_web] d) then Err (Refused 21)
  else if negb (allowed_ok K_subject_type [S_public; S_pairwise] d) then Err (Refused 21)
  else if match assoc K_initiate_login_uri d with
          | Some (VStr s) => negb (starts_with S_https_colon s)
          | Some _ => true
          | None => false end then Err (Refused 22)
  else
    d3 <- enc_alg_step "userinfo_encrypted_response"
            (enc_alg_step "id_token_encrypted_response"
               (enc_alg_step "request_object_encryption" (Ok d))) ;;
    if match assoc K_teasa d3 with Some (VStr s) => str_eqb s S_none | _ => false end then Err (Refused 24)
    else Ok d3.

(* Message.rm_blanks *)
Definition rm_blanks (d : dict) : dict := List.filter (fun kv => py_truthy (snd kv)) d.

(* ---- match_claim / filter_client_request ---- *)
Inductive mc := MKeep (v : pyval) | MDrop | MRaise | MUnm.
Definition match_claim (c : cfg) (k : pystr) (v : pyval) (sup : list pystr) : mc :=
  if negb (str_in k (c_resp_keys c)) then MDrop
  else if negb (nonempty sup) then MDrop
  else if str_in k (c_listy c) then
    match v with
    | VStr s => if str_in s sup then MKeep v else MDrop
    | VList l =>
        match strs_of l with
        | Some ss =>
            match sort_dedup (List.filter (fun s => str_in s sup) ss) with
            | [] => MRaise
            | r => MKeep (VList (List.map VStr r))
            end
        | None => MUnm
        end
    | _ => MUnm
    end
  else match v with VStr s => if str_in s sup then MKeep v else MDrop | _ => MDrop end.

Fixpoint filter_request (c : cfg) (d : dict) : res dict :=
  match d with
  | [] => Ok []
  | (k, v) :: r =>
      match assoc k (c_support c) with
      | None => r' <- filter_request c r ;; Ok ((k, v) :: r')
      | Some sup =>
          match match_claim c k v sup with
          | MKeep v' => r' <- filter_request c r ;; Ok (if py_truthy v' then (k, v') :: r' else r')
          | MDrop => filter_request c r
          | MRaise => Err (Refused 10)
          | MUnm => Unmodelled
          end
      end
  end.

(* ================================================================== 3. state and registration *)

Record state := mkSt {
  s_cdb : list (pystr * dict);       (* context.cdb *)
  s_rat : list (pystr * pystr);      (* context.registration_access_token : token -> client_id *)
  s_owners : list pystr }.           (* key jar owners *)

Record reg_op := mkReg {
  r_req : dict;              (* RegistrationRequest()._dict after deserialisation (defaults included) *)
  r_ids : list pystr;        (* successive rndstr(16) draws of random_client_id *)
  r_salt : pystr;            (* rndstr(8) *)
  r_rat : pystr;             (* rndstr(32) *)
  r_secret : pystr;          (* secret(seed, client_id) *)
  r_jwks_loads : bool;       (* environment: KeyJar.load_keys accepts the request's jwks / jwks_uri *)
  r_now : Z }.

Inductive outcome :=
| OParseRefused                       (* parse_request raised or answered an error message *)
| ORefused (code : pystr)             (* process_request answered an error message *)
| OAccepted (cid : pystr) (resp : dict)
| OUnm.

(* random_client_id(reserved = cdb.keys()) over an explicit supply *)
Fixpoint pick_id (ids : list pystr) (cdb : list (pystr * dict)) : res pystr :=
  match ids with
  | [] => Err OutOfFuel
  | i :: r => if has_key i cdb then pick_id r cdb else Ok i
  end.

Definition add_owner (o : pystr) (l : list pystr) : list pystr := if str_in o l then l else l ++ [o].
Definition del_owner (o : pystr) (l : list pystr) : list pystr := List.filter (fun x => negb (str_eqb x o)) l.

(* the stub written to cdb before do_client_registration *)
Definition make_stub (c : cfg) (cid : pystr) (o : reg_op) : dict :=
  [(K_client_id, VStr cid); (K_client_salt, VStr (r_salt o))]
  ++ (match c_read c with
      | Some path => [(K_rat, VStr (r_rat o)); (K_rcu, VStr (path ++ S_q_client_id ++ cid))]
      | None => [] end)
  ++ [(K_issued_at, VInt (r_now o)); (K_client_secret, VStr (r_secret o))]
  ++ (match c_expires_in c with
      | Some dt => if Z.eqb (r_now o + dt) 0 then [] else [(K_secret_expires, VInt (r_now o + dt)%Z)]
      | None => [] end).

(* pyval encodings of what the code stores *)
Definition pv_qdict (d : qdict) : pyval := VDict (List.map (fun kv => (fst kv, VList (List.map VStr (snd kv)))) d).
Definition pv_ruri (e : pystr * qdict) : pyval := VList [VStr (fst e); pv_qdict (snd e)].

(* for key, val in request.items():
     if key in PROVIDER_ASSIGNED and key in _cinfo: continue
     if key not in ignore: _cinfo[key] = val *)
Definition copy_key (k : pystr) (cinfo : dict) : bool :=
  negb (str_in k reserved_keys && has_key k cinfo) && negb (str_in k ignore_keys).
Fixpoint copy_request (req : dict) (cinfo : dict) : dict :=
  match req with
  | [] => cinfo
  | (k, v) :: r => copy_request r (if copy_key k cinfo then aset k v cinfo else cinfo)
  end.

(* result of do_client_registration and of building the response *)
Inductive dcr := DOk (cinfo : dict) | DRefuse (code : pystr) | DCrash | DUnm.
Definition dcr_bind (x : dcr) (f : dict -> dcr) : dcr := match x with DOk c => f c | other => other end.
(* a Python exception anywhere inside = crash; outside the fragment = unmodelled *)
Definition lift_res {A} (r : res A) (f : A -> dcr) : dcr :=
  match r with Ok a => f a | Err _ => DCrash | Unmodelled => DUnm end.

Definition step_post_logout (req : dict) (cinfo : dict) : dcr :=
  match assoc K_post_logout req with
  | Some (VStr u) =>
      match u with
      | [] => DOk cinfo
      | _ => lift_res (urlsplit u) (fun p =>
               if nonempty (u_fragment p) then DRefuse E_invalid_conf_param
               else lift_res (split_uri u) (fun bq =>
                      DOk (aset K_post_logout
                             (VList [VStr (fst bq); match snd bq with Some d => pv_qdict d | None => VNone end]) cinfo)))
      end
  | Some v => if py_truthy v then DUnm else DOk cinfo
  | None => DOk cinfo
  end.

Definition step_redirect_uris (req : dict) (cinfo : dict) : dcr :=
  if has_key K_redirect_uris req then
    match verify_redirect_uris req with
    | Ok l => DOk (aset K_redirect_uris (VList (List.map pv_ruri l)) cinfo)
    | Err (Refused _) => DRefuse E_invalid_redirect_uri
    | Err _ => DCrash
    | Unmodelled => DUnm
    end
  else DOk cinfo.

Fixpoint request_uris_loop (uris : list pystr) : res (option (list pyval)) :=    (* None = "contains query part" *)
  match uris with
  | [] => Ok (Some [])
  | u :: r =>
      p <- urlsplit u ;;
      if nonempty (u_query p) then Ok None
      else
        let e := if nonempty (u_fragment p) then VList (List.map VStr (split_c 35 u)) else VList [VStr u; VStr []] in
        x <- request_uris_loop r ;; Ok (option_map (cons e) x)
  end.
Definition step_request_uris (req : dict) (cinfo : dict) : dcr :=
  if has_key K_request_uris req then
    match req_strs K_request_uris req with
    | Some uris => lift_res (request_uris_loop uris) (fun x =>
                     match x with
                     | Some l => DOk (aset K_request_uris (VList l) cinfo)
                     | None => DRefuse E_invalid_conf_param
                     end)
    | None => DUnm
    end
  else DOk cinfo.

Definition step_sector (req : dict) (cinfo : dict) : dcr :=
  if has_key K_sector req then DUnm else DOk cinfo.

(* verify_url(url, urlset): same scheme and netloc as one registered redirect URI *)
Fixpoint ruri_bases (l : list pyval) : option (list pystr) :=
  match l with
  | [] => Some []
  | VList (VStr b :: _ :: []) :: r => option_map (cons b) (ruri_bases r)
  | _ => None
  end.
Fixpoint verify_url_loop (sch net : pystr) (bases : list pystr) : res bool :=
  match bases with
  | [] => Ok false
  | b :: r => p <- urlsplit b ;;
              if str_eqb sch (u_scheme p) && str_eqb net (u_netloc p) then Ok true else verify_url_loop sch net r
  end.
Definition step_uri_item (item : pystr) (req : dict) (cinfo : dict) : dcr :=
  match assoc item req with
  | None => DOk cinfo
  | Some (VStr url) =>
      match assoc K_redirect_uris cinfo with
      | Some (VList l) =>
          match ruri_bases l with
          | Some bases =>
              lift_res (urlsplit url) (fun p =>
                lift_res (verify_url_loop (u_scheme p) (u_netloc p) bases) (fun ok =>
                  if ok then DOk (aset item (VStr url) cinfo) else DRefuse E_invalid_conf_param))
          | None => DUnm
          end
      | Some _ => DUnm
      | None => DCrash                               (* _cinfo["redirect_uris"] KeyError *)
      end
  | Some _ => DUnm
  end.

(* "Do I have the necessary keys" *)
Definition step_sig_alg (c : cfg) (item : pystr) (req : dict) (cinfo : dict) : dcr :=
  match assoc item req with
  | None => DOk cinfo
  | Some v =>
      match assoc item (c_support c) with
      | None => DOk (adel item cinfo)
      | Some sup =>
          match v with
          | VStr alg => if str_in alg sup && negb (str_in alg (c_sign_ok c)) then DOk (adel item cinfo) else DOk cinfo
          | _ => DUnm
          end
      end
  end.

Definition do_client_registration (c : cfg) (req : dict) (stub : dict) (jwks_loads : bool) : dcr :=
  dcr_bind (step_post_logout req (copy_request req stub)) (fun c1 =>
  dcr_bind (step_redirect_uris req c1) (fun c2 =>
  dcr_bind (step_request_uris req c2) (fun c3 =>
  dcr_bind (step_sector req c3) (fun c4 =>
  dcr_bind (step_uri_item K_policy_uri req c4) (fun c5 =>
  dcr_bind (step_uri_item K_logo_uri req c5) (fun c6 =>
  dcr_bind (step_uri_item K_tos_uri req c6) (fun c7 =>
  dcr_bind (step_sig_alg c K_idt_sig req c7) (fun c8 =>
  dcr_bind (step_sig_alg c K_ui_sig req c8) (fun c9 =>
  if jwks_loads then DOk c9 else DCrash))))))))).

(* ---- comb_uri on the stored representation, and the response arguments ---- *)
Fixpoint qdict_of (l : list (pystr * pyval)) : option qdict :=
  match l with
  | [] => Some []
  | (k, VList vs) :: r =>
      match strs_of vs, qdict_of r with Some ss, Some d => Some ((k, ss) :: d) | _, _ => None end
  | _ => None
  end.
Definition comb_entry (e : pyval) : res pystr :=              (* for base, query_dict in redirect_uris *)
  match e with
  | VList [VStr b; VDict q] => match qdict_of q with Some d => Ok (comb1 b d) | None => Unmodelled end
  | VList [VStr b; VNone] => Ok b
  | VList [VStr b; VStr []] => Ok b
  | VList [_; _] => Unmodelled
  | _ => Err ValueError                                        (* unpacking fails *)
  end.
Fixpoint comb_entries (l : list pyval) : res (list pyval) :=
  match l with
  | [] => Ok []
  | e :: r => x <- comb_entry e ;; xs <- comb_entries r ;; Ok (VStr x :: xs)
  end.
Definition comb_frag_entry (e : pyval) : res pystr :=         (* for base, frag in request_uris *)
  match e with
  | VList [VStr b; VStr f] => Ok (match f with [] => b | _ => b ++ 35 :: f end)
  | VList [_; _] => Unmodelled
  | _ => Err ValueError
  end.
Fixpoint comb_frag_entries (l : list pyval) : res (list pyval) :=
  match l with
  | [] => Ok []
  | e :: r => x <- comb_frag_entry e ;; xs <- comb_frag_entries r ;; Ok (VStr x :: xs)
  end.

Definition comb_uri (args : dict) : res dict :=
  a1 <- match assoc K_redirect_uris args with
        | Some (VList l) => match l with [] => Ok args | _ => x <- comb_entries l ;; Ok (aset K_redirect_uris (VList x) args) end
        | Some v => if py_truthy v then Unmodelled else Ok args
        | None => Ok args end ;;
  a2 <- match assoc K_post_logout a1 with
        | Some (VList l) => match l with [] => Ok a1 | _ => x <- comb_entry (VList l) ;; Ok (aset K_post_logout (VStr x) a1) end
        | Some v => if py_truthy v then Unmodelled else Ok a1
        | None => Ok a1 end ;;
  match assoc K_request_uris a2 with
  | Some (VList l) => match l with [] => Ok a2 | _ => x <- comb_frag_entries l ;; Ok (aset K_request_uris (VList x) a2) end
  | Some v => if py_truthy v then Unmodelled else Ok a2
  | None => Ok a2
  end.

(* args = {k: v for k, v in cinfo.items() if k in RegistrationResponse.c_param}; comb_uri(args);
   RegistrationResponse(args).to_dict()  (from_dict skips "" and [""] and empty lists) *)
Definition resp_skip (v : pyval) : bool :=
  match v with
  | VStr [] => true
  | VList [] => true
  | VList [VStr []] => true
  | VList (VNone :: _) => true
  | _ => false
  end.
Definition response_args (c : cfg) (cinfo : dict) : res dict :=
  a <- comb_uri (List.filter (fun kv => str_in (fst kv) (c_resp_keys c)) cinfo) ;;
  Ok (List.filter (fun kv => negb (resp_skip (snd kv))) a).

(* ---- client_registration_setup / process_request ---- *)
Definition set_stub (st : state) (c : cfg) (cid : pystr) (o : reg_op) (stub : dict) : state :=
  mkSt (aset cid stub (s_cdb st))
       (match c_read c with Some _ => aset (r_rat o) cid (s_rat st) | None => s_rat st end)
       (s_owners st).
(* _rollback() for a client that was not in cdb before *)
Definition rollback (st1 : state) (cid : pystr) (stub : dict) : state :=
  mkSt (adel cid (s_cdb st1))
       (match assoc K_rat stub with
        | Some (VStr t) => if has_key t (s_rat st1) then adel t (s_rat st1) else s_rat st1
        | _ => s_rat st1 end)
       (del_owner cid (s_owners st1)).

Definition register (c : cfg) (st : state) (o : reg_op) : state * outcome :=
  match request_verify (r_req o) with
  | Err _ => (st, OParseRefused)
  | Unmodelled => (st, OUnm)
  | Ok d0 =>
    match request_verify d0 with                       (* verified again inside client_registration_setup *)
    | Err _ => (st, ORefused E_invalid_conf_request)
    | Unmodelled => (st, OUnm)
    | Ok d1 =>
      match filter_request c (rm_blanks d1) with
      | Err _ => (st, ORefused E_invalid_request)
      | Unmodelled => (st, OUnm)
      | Ok req0 =>
        match pick_id (r_ids o) (s_cdb st) with
        | Err _ => (st, OUnm)                          (* supply exhausted: the real loop would draw again *)
        | Unmodelled => (st, OUnm)
        | Ok cid =>
          let req := adel K_client_id req0 in
          let stub := make_stub c cid o in
          let st1 := set_stub st c cid o stub in
          (* load_keys creates the key-jar owner when it is reached *)
          let r := dcr_bind (do_client_registration c req stub (r_jwks_loads o)) (fun cinfo =>
                     match response_args c cinfo with
                     | Ok _ => DOk cinfo
                     | Err _ => DCrash
                     | Unmodelled => DUnm
                     end) in
          match r with
          | DUnm => (st, OUnm)
          | DRefuse code => (rollback st1 cid stub, ORefused code)
          | DCrash => (rollback (mkSt (s_cdb st1) (s_rat st1) (add_owner cid (s_owners st1))) cid stub,
                       ORefused E_invalid_conf_request)
          | DOk cinfo =>
              match response_args c cinfo with
              | Ok resp =>
                  (mkSt (aset cid cinfo (s_cdb st1)) (s_rat st1) (add_owner cid (s_owners st1)),
                   OAccepted cid resp)
              | _ => (st, OUnm)
              end
          end
        end
      end
    end
  end.

(* ================================================================== 4. the read endpoint *)
Inductive read_out :=
| RUnauthorized        (* UnAuthorizedClient: no usable bearer credential / method not allowed *)
| RUnknownToken        (* BearerTokenAuthenticationError *)
| RUnknownClient       (* UnknownClient *)
| RInvalidClient       (* InvalidClient: expired secret *)
| RAnswer (cid : pystr) (resp : dict)
| RUnm.

Definition valid_client_secret (cinfo : dict) (now : Z) : bool :=
  if has_key K_client_secret cinfo then
    match assoc K_secret_expires cinfo with
    | Some (VInt eta) => negb (negb (Z.eqb eta 0) && (eta <? now)%Z)
    | Some _ => true
    | None => true
    end
  else true.

Definition set_auth_method (cinfo : dict) : dict :=
  match assoc K_auth_method cinfo with
  | Some (VDict m) =>
      match m with
      | [] => aset K_auth_method (VDict [(S_Message, VStr S_bearer_header)]) cinfo
      | _ => aset K_auth_method (VDict (aset S_Message (VStr S_bearer_header) m)) cinfo
      end
  | _ => aset K_auth_method (VDict [(S_Message, VStr S_bearer_header)]) cinfo
  end.

(* hdr = the Authorization header value; cid = the client_id query parameter *)
Definition read (c : cfg) (st : state) (hdr : option pystr) (cid : option pystr) (now : Z) : state * read_out :=
  match hdr with
  | None => (st, RUnauthorized)
  | Some h =>
    if negb (starts_with S_Bearer_sp h) then (st, RUnauthorized)
    else
      let token := skipn 7 h in
      (* RegistrationRead.get_client_id_from_token *)
      let got : option pystr :=
        match cid with
        | Some x => match assoc token (s_rat st) with
                    | None => None                       (* KeyError -> "Unknown token" *)
                    | Some owner => if str_eqb x owner then Some x else Some []
                    end
        | None => Some []
        end in
      match got with
      | None => (st, RUnknownToken)
      | Some client_id =>
          match assoc client_id (s_cdb st) with
          | None => (st, RUnknownClient)
          | Some cinfo =>
              match cinfo, client_id with
              | [], _ => (st, RUnknownClient)
              | _, [] => (st, RUnm)                      (* a client registered under the empty id *)
              | _, _ =>
                if negb (valid_client_secret cinfo now) then (st, RInvalidClient)
                else if has_key K_ep_cam cinfo || has_key K_cam cinfo then (st, RUnm)
                else
                  let cinfo' := set_auth_method cinfo in
                  let st' := mkSt (aset client_id cinfo' (s_cdb st)) (s_rat st) (s_owners st) in
                  match response_args c cinfo' with
                  | Ok resp => (st', RAnswer client_id resp)
                  | _ => (st', RUnm)
                  end
              end
          end
      end
  end.

(* ================================================================== 5. histories *)
Inductive op :=
| OpReg (o : reg_op)
| OpRead (hdr : option pystr) (cid : option pystr) (now : Z).
Inductive out := OutReg (x : outcome) | OutRead (x : read_out).

Definition step (c : cfg) (st : state) (o : op) : state * out :=
  match o with
  | OpReg r => let '(s, x) := register c st r in (s, OutReg x)
  | OpRead h i now => let '(s, x) := read c st h i now in (s, OutRead x)
  end.
Fixpoint run (c : cfg) (st : state) (ops : list op) : state * list out :=
  match ops with
  | [] => (st, [])
  | o :: r => let '(s1, x) := step c st o in let '(s2, xs) := run c s1 r in (s2, x :: xs)
  end.

(* client ids assigned / registration tokens issued by the accepted registrations of a history *)
Fixpoint assigned (ops : list op) (outs : list out) : list pystr :=
  match ops, outs with
  | _ :: r, OutReg (OAccepted cid _) :: xs => cid :: assigned r xs
  | _ :: r, _ :: xs => assigned r xs
  | _, _ => []
  end.
Fixpoint issued (ops : list op) (outs : list out) : list (pystr * pystr) :=     (* (token, client id) *)
  match ops, outs with
  | OpReg o :: r, OutReg (OAccepted cid _) :: xs => (r_rat o, cid) :: issued r xs
  | _ :: r, _ :: xs => issued r xs
  | _, _ => []
  end.
Fixpoint rat_draws (ops : list op) : list pystr :=
  match ops with
  | [] => []
  | OpReg o :: r => r_rat o :: rat_draws r
  | _ :: r => rat_draws r
  end.

(* ================================================================== 6. checkers for case files *)
(* order-insensitive comparison of dict-shaped values (Python dict equality) *)
Fixpoint pv_eq (fuel : nat) (a b : pyval) : bool :=
  match fuel with
  | O => false
  | S f =>
    match a, b with
    | VNone, VNone => true
    | VBool x, VBool y => Bool.eqb x y
    | VInt x, VInt y => Z.eqb x y
    | VStr x, VStr y => str_eqb x y
    | VList x, VList y => list_eqb (pv_eq f) x y
    | VDict x, VDict y =>
        Nat.eqb (List.length x) (List.length y)
        && forallb (fun kv => match assoc (fst kv) y with Some v => pv_eq f (snd kv) v | None => false end) x
    | _, _ => false
    end
  end.
Definition dict_eq (a b : dict) : bool := pv_eq 12 (VDict a) (VDict b).

Definition outcome_eqb (m : outcome) (o : outcome) : bool :=
  match m, o with
  | OParseRefused, OParseRefused => true
  | ORefused a, ORefused b => str_eqb a b
  | OAccepted c1 r1, OAccepted c2 r2 => str_eqb c1 c2 && dict_eq r1 r2
  | _, _ => false
  end.
Definition read_out_eqb (m o : read_out) : bool :=
  match m, o with
  | RUnauthorized, RUnauthorized | RUnknownToken, RUnknownToken | RUnknownClient, RUnknownClient
  | RInvalidClient, RInvalidClient => true
  | RAnswer c1 r1, RAnswer c2 r2 => str_eqb c1 c2 && dict_eq r1 r2
  | _, _ => false
  end.
Definition out_eqb (m o : out) : bool :=
  match m, o with
  | OutReg a, OutReg b => outcome_eqb a b
  | OutRead a, OutRead b => read_out_eqb a b
  | _, _ => false
  end.

(* keys whose binding differs between two assoc lists (either direction) *)
Definition changed_keys {V} (eqv : V -> V -> bool) (a b : list (pystr * V)) : list pystr :=
  List.map fst (List.filter (fun kv => negb (match assoc (fst kv) a with Some v => eqv v (snd kv) | None => false end)) b)
  ++ List.map fst (List.filter (fun kv => negb (has_key (fst kv) b)) a).
Definition same_set (a b : list pystr) : bool :=
  forallb (fun x => str_in x b) a && forallb (fun x => str_in x a) b.

(* what the driver observed after one operation: the answer, the cdb entries that changed (None =
   removed), the registration-token entries that changed, and the key-jar owners *)
Record obs := mkObs {
  o_out : out;
  o_cdb : list (pystr * option dict);
  o_rat : list (pystr * option pystr);
  o_owners : list pystr }.

Definition delta_ok {V} (eqv : V -> V -> bool) (before after : list (pystr * V)) (d : list (pystr * option V)) : bool :=
  same_set (changed_keys eqv before after) (List.map fst d)
  && forallb (fun kv => match snd kv, assoc (fst kv) after with
                        | Some v, Some v' => eqv v' v
                        | None, None => true
                        | _, _ => false end) d.

Fixpoint chk_steps (c : cfg) (st : state) (l : list (op * obs)) : bool :=
  match l with
  | [] => true
  | (o, ob) :: r =>
      let '(st', x) := step c st o in
      out_eqb x (o_out ob)
      && delta_ok dict_eq (s_cdb st) (s_cdb st') (o_cdb ob)
      && delta_ok str_eqb (s_rat st) (s_rat st') (o_rat ob)
      && same_set (s_owners st') (o_owners ob)
      && chk_steps c st' r
  end.
Definition trace_case := (cfg * state * list (op * obs))%type.
Definition chk_trace (t : trace_case) : bool := let '(c, st, l) := t in chk_steps c st l.
(* diagnostics: the model's answers along a trace *)
Fixpoint diag_steps (c : cfg) (st : state) (i : nat) (l : list (op * obs)) : list (nat * (bool * bool * bool * bool) * out) :=
  match l with
  | [] => []
  | (o, ob) :: r =>
      let '(st', x) := step c st o in
      let flags := (out_eqb x (o_out ob), delta_ok dict_eq (s_cdb st) (s_cdb st') (o_cdb ob),
                    delta_ok str_eqb (s_rat st) (s_rat st') (o_rat ob), same_set (s_owners st') (o_owners ob)) in
      let '(a, b, c0, d) := flags in
      if a && b && c0 && d then diag_steps c st' (S i) r else [(i, flags, x)]
  end.
(* first failing step: (index, (answer ok, cdb delta ok, token delta ok, owners ok), the model's answer) *)
Definition diag_trace (t : trace_case) := let '(c, st, l) := t in diag_steps c st O l.

(* one cell of the redirect-URI matrix against the real Registration.verify_redirect_uris *)
Definition ruri_eqb (a b : pystr * qdict) : bool := str_eqb (fst a) (fst b) && qdict_eqb (snd a) (snd b).
Definition cell_case := (dict * res (list (pystr * qdict)))%type.
Definition chk_cell (x : cell_case) : bool :=
  let '(req, ob) := x in
  match verify_redirect_uris req, ob with
  | Ok l, Ok l' => list_eqb ruri_eqb l l'
  | Err (Refused a), Err (Refused b) => a =? b
  | Err ValueError, Err ValueError => true
  | Unmodelled, Unmodelled => true
  | _, _ => false
  end.
(* inputs the driver flags as possibly outside the modelled fragment: Unmodelled is forgiven, any
   definite answer of the model must still agree *)
Definition chk_cell_l (x : cell_case) : bool :=
  match verify_redirect_uris (fst x) with Unmodelled => true | _ => chk_cell x end.
Definition chk_urlsplit_l (c : pystr * res (split5 * option pystr)) : bool :=
  match urlsplit (fst c) with Unmodelled => true | _ => chk_urlsplit c end.
Definition chk_split_uri_l (c : pystr * res (pystr * option qdict)) : bool :=
  match split_uri (fst c) with Unmodelled => true | _ => chk_split_uri c end.
Definition diag_cell (x : cell_case) : res (list (pystr * qdict)) := verify_redirect_uris (fst x).
