(* Model/RpExamples.v — concrete configurations, tokens and responses used by the non-vacuity Examples and
   the refutation witnesses of Props/C08.v and Props/C09.v.  Data only. *)
From Coq Require Import String.
From Verif Require Import Lib.Base Lib.PyStr Lib.RpTy Gen.RpTables Model.IdToken Model.RpState.
Open Scope string_scope.

Definition ex_iss : pystr := PS "https://op.example.com".
Definition ex_iss2 : pystr := PS "https://other.example.org".
Definition ex_cid : pystr := PS "Number5".
(* keys: 0 = issuer RSA, 2 = issuer EC, 3 = other issuer RSA, 6 = the client secret *)
Definition ex_jar : jar :=
  [mkJE [] KOct (PS "sk") 6; mkJE ex_cid KOct (PS "sk") 6;
   mkJE ex_iss KRsa (PS "r1") 0; mkJE ex_iss KEc (PS "e1") 2; mkJE ex_iss2 KRsa (PS "o1") 3].
(* a toy left_hash: enough for the examples (the theorems hold for every function) *)
Definition ex_lhash (bits v : pystr) : pystr := (PS "H" ++ bits ++ PS ":" ++ v)%list.

Definition ex_cfg (reg_alg usage_alg : option pystr) (allow_none : bool) : rp_cfg :=
  mkCfg ex_iss (Some ex_iss) ex_cid reg_alg usage_alg allow_none 0 false ex_jar None None [11%nat].
Definition ex_cfg2 : rp_cfg := mkCfg ex_iss2 (Some ex_iss2) ex_cid None (Some (PS "RS256")) false 0 false ex_jar None None [11%nat].

Definition ex_now : Z := 1700000000.
Definition ex_claims (iss nonce sub : pystr) (extra : dict) : dict :=
  ([(PS "iss", VStr iss); (PS "sub", VStr sub); (PS "aud", VList [VStr ex_cid]);
    (PS "exp", VInt 1700000300); (PS "iat", VInt 1699999995); (PS "nonce", VStr nonce)] ++ extra)%list.

(* a genuine RS256 token of the issuer for the flow with nonce N1, delivered with the code C1 *)
Definition ex_tok_rs (nonce : pystr) : token :=
  mkTok (PS "RS256") (Some (PS "r1")) (Some 0%nat)
        (ex_claims ex_iss nonce (PS "diana") [(PS "c_hash", VStr (ex_lhash (PS "256") (PS "C1")))]) None.
Definition ex_tok_es (nonce : pystr) : token :=
  mkTok (PS "ES256") (Some (PS "e1")) (Some 2%nat)
        (ex_claims ex_iss nonce (PS "diana") [(PS "c_hash", VStr (ex_lhash (PS "256") (PS "C1")))]) None.
(* unsigned, no c_hash *)
Definition ex_tok_none (nonce : pystr) : token :=
  mkTok (PS "none") None None (ex_claims ex_iss nonce (PS "diana") []) None.
(* token-endpoint tokens (no hashes); the subject is a parameter *)
Definition ex_tok_te (nonce sub : pystr) : token :=
  mkTok (PS "RS256") (Some (PS "r1")) (Some 0%nat) (ex_claims ex_iss nonce sub []) None.

Definition ex_req (st nonce : pystr) : record :=
  [(PS "redirect_uri", VStr (PS "https://rp.example.com/cb")); (PS "response_type", VStr (PS "code"));
   (PS "nonce", VStr nonce); (PS "scope", VStr (PS "openid")); (PS "state", VStr st); (PS "client_id", VStr ex_cid)].

Definition ex_authz_resp (st : pystr) (t : option token) : response :=
  mkResp ([(PS "state", VStr st); (PS "code", VStr (PS "C1"))] ++
          match t with Some _ => [(PS "id_token", VStr (PS "JWT#1"))] | None => [] end)%list t.
Definition ex_token_resp (t : option token) : response :=
  mkResp ([(PS "access_token", VStr (PS "AT1")); (PS "token_type", VStr (PS "Bearer"))] ++
          match t with Some _ => [(PS "id_token", VStr (PS "JWT#2"))] | None => [] end)%list t.

Definition ex_client (cfg : rp_cfg) : client := mkClient cfg [] [].
(* one client with two pending flows S1/N1 and S2/N2 *)
Definition ex_two_flows (cfg : rp_cfg) : client :=
  step_begin (step_begin (ex_client cfg) (PS "S1") (PS "N1") (ex_req (PS "S1") (PS "N1")))
             (PS "S2") (PS "N2") (ex_req (PS "S2") (PS "N2")).

Definition ex_world : list (pystr * client) :=
  [(ex_iss, ex_client (ex_cfg (Some (PS "RS256")) (Some (PS "RS256")) false)); (ex_iss2, ex_client ex_cfg2)].

(* encrypted delivery: the client owns decryption key 11 and registered RSA-OAEP / A256GCM *)
Definition ex_wrap : jwe_wrap := mkJwe (PS "RSA-OAEP") (PS "A256GCM") (Some 11%nat).
Definition ex_cfg_enc (reg_alg : option pystr) : rp_cfg :=
  mkCfg ex_iss (Some ex_iss) ex_cid reg_alg (Some (PS "RS256")) false 0 false ex_jar
        (Some (PS "RSA-OAEP")) (Some (PS "A256GCM")) [11%nat].
Definition wrapped (t : token) (w : jwe_wrap) : token := mkTok (t_alg t) (t_kid t) (t_signer t) (t_claims t) (Some w).

(* hybrid flows ("code id_token token"): what the provider hands out for the flow started with state st and
   nonce nonce - a code, an access token and an RS256 ID Token with the c_hash / at_hash of exactly these *)
Definition ex_flow (st nonce code atok jwt sub : pystr) : flow :=
  mkFlow st nonce code atok jwt
         (mkTok (PS "RS256") (Some (PS "r1")) (Some 0%nat)
                (ex_claims ex_iss nonce sub [(PS "c_hash", VStr (ex_lhash (PS "256") code));
                                             (PS "at_hash", VStr (ex_lhash (PS "256") atok))]) None).
Definition ex_flow_a : flow := ex_flow (PS "S1") (PS "N1") (PS "C1") (PS "A1") (PS "JWT#A") (PS "diana").
Definition ex_flow_b : flow := ex_flow (PS "S2") (PS "N2") (PS "C2") (PS "A2") (PS "JWT#B") (PS "bob").

(* a history on one client (C08, the nonce clause over histories): sessions S1/N1 and S2/N2; both get their code
   - the response for S2 carries a member called nonce naming N1; S1 is completed; the token response for S2 whose
   ID Token has sub = N1 is refused, the one with sub = erin is accepted (erin -> S2 joins the key map) *)
Definition ex_hist_cfgs : list (pystr * rp_cfg) := [(ex_iss, ex_cfg (Some (PS "RS256")) (Some (PS "RS256")) false)].
Definition ex_code_resp (st : pystr) (extra : record) : response :=
  mkResp ([(PS "state", VStr st); (PS "code", VStr (PS "C1"))] ++ extra)%list None.
Definition ex_hist_pre : list op :=
  [OBegin ex_iss (PS "S1") (PS "N1") (ex_req (PS "S1") (PS "N1"));
   OBegin ex_iss (PS "S2") (PS "N2") (ex_req (PS "S2") (PS "N2"));
   OAuthz ex_iss (ex_code_resp (PS "S1") []) ex_now;
   OAuthz ex_iss (ex_code_resp (PS "S2") [(PS "nonce", VStr (PS "N1"))]) ex_now;
   OToken ex_iss (PS "S1") (ex_token_resp (Some (ex_tok_te (PS "N1") (PS "diana")))) ex_now;
   OToken ex_iss (PS "S2") (ex_token_resp (Some (ex_tok_te (PS "N2") (PS "N1")))) ex_now;
   OToken ex_iss (PS "S2") (ex_token_resp (Some (ex_tok_te (PS "N2") (PS "erin")))) ex_now].
Definition ex_hist_world : list (pystr * client) := run ex_lhash (init_world ex_hist_cfgs) ex_hist_pre.

