(* Model/RpReuse.v — authorization requests under a state value that already has a session record (C08).

   The state of an authorization request is the application's to choose: Authorization.set_state takes
   request_args["state"] / the state keyword argument and mints one (create_key) only when there is none.
   StandAloneClient.init_authorization and RPHandler.begin always mint, so in the histories of Model/RpState.v
   every OBegin comes with a state the client has no record for (fresh_begin).  A second request under a state
   that has a record - re-authentication of a running session, a retry - is an OBegin as well:
     set_state            cstate.set(state, {"iss": issuer})     the record is REPLACED
     oidc_pre_construct   a nonce is drawn unless the application gave one
     oidc_post_construct  cstate.bind_key(nonce, state); cstate.update(state, request)
   which is step_begin verbatim (aset replaces; the earlier nonce stays a key of the map).  "The nonce that was
   sent" for a state is then the nonce of the LATEST request under it.  No proofs here. *)
From Coq Require Import String.
From Verif Require Import Lib.Base Lib.PyStr Lib.RpTy Gen.RpTables Model.IdToken Model.RpState.
Open Scope string_scope.

(* the nonce of the latest authorization request the client for issuer i sent under the state st *)
Definition latest_sent (i : pystr) (ops : list op) (st : pystr) : option pystr :=
  assoc st (List.rev (sent_by i ops)).

(* a begin in such a history: the relying party has a client for the provider, the nonce (drawn by the library
   or given by the application) is new to that client's key map and not empty, and the request that goes out -
   which is what is put on record - carries it.  Nothing is asked of the state. *)
Definition sound_begin (w : list (pystr * client)) (o : op) : Prop :=
  match o with
  | OBegin i st nonce req =>
      has_key i w = true /\ map_of w i nonce = None /\ nonce <> [] /\
      has_key (PS "nonce") req = true /\ (forall v, In (PS "nonce", v) req -> v = VStr nonce)
  | _ => True
  end.
Fixpoint reuse_history (lhash : pystr -> pystr -> pystr) (w : list (pystr * client)) (ops : list op) : Prop :=
  match ops with
  | [] => True
  | o :: r => sound_begin w o /\ reuse_history lhash (fst (step lhash w o)) r
  end.

(* does the history begin a request under a state that has a record at that moment (the new dimension) *)
Fixpoint reuses_state (lh : pystr -> pystr -> pystr) (w : list (pystr * client)) (ops : list op) : bool :=
  match ops with
  | [] => false
  | o :: r =>
      (match o with
       | OBegin i st _ _ => match rec_of w i st with Some _ => true | None => false end
       | _ => false
       end) || reuses_state lh (fst (step lh w o)) r
  end.

(* ---- the nonce clause on a generated trace, with states re-used: replaying the trace in the model, every
   accepted delivery of an ID Token carries the nonce of the LATEST request under the state it was accepted for
   (on a trace whose states are all fresh this is nonce_steps) ---- *)
Fixpoint latest_nonce_steps (lh : pystr -> pystr -> pystr) (w : list (pystr * client)) (pre : list op)
         (tr : list (op * (res record * world_snapshot))) : bool :=
  match tr with
  | [] => true
  | (o, _) :: rest =>
      let '(w1, out) := step lh w o in
      match out with
      | Unmodelled => true
      | Ok stored =>
          (if idtoken_op o && negb (has_key (PS "error") stored) then
             match op_target w o with
             | Some i => nonce_as_sent (List.rev (sent_by i pre)) o stored
             | None => true
             end
           else true) && latest_nonce_steps lh w1 (pre ++ [o]) rest
      | Err _ => latest_nonce_steps lh w1 (pre ++ [o]) rest
      end
  end.
Definition chk_trace_latest_nonce (t : trace_case) : bool :=
  let '(cfgs, tbl, tr) := t in latest_nonce_steps (lhash_of tbl) (init_world cfgs) [] tr.
(* the begins of the trace are sound_begin, as far as that is decidable on the trace: the request names the nonce *)
Definition begin_names_nonce (o : op) : bool :=
  match o with
  | OBegin _ _ nonce req =>
      negb (str_eqb nonce []) && option_eqb pyval_eqb (assoc (PS "nonce") req) (Some (VStr nonce))
  | _ => true
  end.
Definition chk_reuse_history (t : trace_case) : bool :=
  chk_trace t && chk_trace_latest_nonce t &&
  (let '(_, _, tr) := t in forallb (fun x => begin_names_nonce (fst x)) tr).
(* ... and the trace is one of the new class *)
Definition trace_reuses_state (t : trace_case) : bool :=
  let '(cfgs, tbl, tr) := t in reuses_state (lhash_of tbl) (init_world cfgs) (List.map fst tr).
(* what the driver evaluates on every history of the re-used-state families *)
Definition chk_reuse_class (t : trace_case) : bool := chk_reuse_history t && trace_reuses_state t.

(* ---- an example history of the class (for the non-vacuity statements of Props/C08.v): after ex_hist_pre (sessions
   S1/N1 - completed, its ID Token accepted - and S2/N2) the application re-authenticates under S1; the request goes
   out with the fresh nonce N3 and its code response is processed ---- *)
From Verif Require Import Model.RpExamples.
Definition ex_reuse_pre : list op :=
  (ex_hist_pre ++ [OBegin ex_iss (PS "S1") (PS "N3") (ex_req (PS "S1") (PS "N3"));
                   OAuthz ex_iss (ex_code_resp (PS "S1") []) ex_now])%list.
Definition ex_reuse_world : list (pystr * client) := run ex_lhash (init_world ex_hist_cfgs) ex_reuse_pre.
