(* Model/RpState.v — executable model of the relying party's per-issuer client state (properties C08, C09).

   Transcribes
     idpyoidc.client.current.Current                        (_db : state -> record, _map : key -> state)
     StandAloneClient.init_authorization / finalize_auth / get_tokens / get_user_info
     Service.parse_response / _do_response, the three gather_verify_arguments
     oidc Authorization.post_parse_response / update_service_context
     oidc AccessToken.update_service_context, oidc UserInfo.post_parse_response
     RPHandler.finalize_auth / state2issuer / get_client_from_session_key
   on top of the message-level model Model/IdToken.v.  Responses are records whose fields the adversary may
   recombine freely across flows and issuers.  No proofs here. *)
From Coq Require Import String.
From Verif Require Import Lib.Base Lib.PyStr Lib.RpTy Gen.RpTables Model.IdToken.
Open Scope string_scope.

Record rp_cfg := mkCfg {
  cf_issuer : pystr;               (* context.issuer *)
  cf_pi_issuer : option pystr;     (* context.provider_info["issuer"] *)
  cf_client_id : pystr;
  cf_reg_sigalg : option pystr;    (* registration_response["id_token_signed_response_alg"] *)
  cf_usage_sigalg : option pystr;  (* the configured id_token_signed_response_alg usage (fallback) *)
  cf_allow_none : bool;            (* usage verify_args allow_sign_alg_none *)
  cf_skew : Z;                     (* context.clock_skew *)
  cf_allow_missing_kid : bool;     (* context.allow["missing_kid"] *)
  cf_jar : jar;
  cf_encalg : option pystr;        (* id_token_encrypted_response_alg: registered, else configured usage *)
  cf_encenc : option pystr;        (* id_token_encrypted_response_enc: registered, else configured usage *)
  cf_dec : list nat                (* the client's own decryption keys *)
}.

Notation record := (list (pystr * pyval)).
Record client := mkClient { cl_cfg : rp_cfg; cl_db : list (pystr * record); cl_map : list (pystr * pystr) }.

(* the signing algorithm the services expect: what was registered, else what the client is configured to use
   (`_reg_res.get(param) or _context.get_usage(param)`, passed on only when truthy) *)
Definition eff_sigalg (c : rp_cfg) : option pystr :=
  match cf_reg_sigalg c with
  | Some (x :: a) => Some (x :: a)
  | _ => match cf_usage_sigalg c with Some (x :: a) => Some (x :: a) | _ => None end
  end.

(* Authorization / AccessToken gather_verify_arguments *)
Definition svc_kwargs (c : rp_cfg) : kwargs :=
  mkKw (Some (cf_issuer c)) (match cf_client_id c with [] => None | i => Some i end) (eff_sigalg c) None
       (cf_allow_none c) (Some (cf_skew c)) None (cf_allow_missing_kid c) None (cf_jar c)
       (match cf_encalg c with Some (x :: a) => Some (x :: a) | _ => None end)
       (match cf_encenc c with Some (x :: a) => Some (x :: a) | _ => None end) (cf_dec c).

(* ---- Current ---- *)
Definition db_get (db : list (pystr * record)) (k : pystr) : res record :=
  match assoc k db with
  | Some (x :: r) => Ok (x :: r)
  | _ => Err KeyError
  end.
Definition dict_update (a b : record) : record := fold_left (fun acc kv => aset (fst kv) (snd kv) acc) b a.
(* Current.update: the nonce of a session is the one its request was sent with - a member called nonce in what
   is stored later (a response may carry one) that differs from it is dropped; one that is equal changes nothing
   (for a string, equal means the same string), so it is dropped as well *)
Definition drop_nonce (info : record) : record :=
  List.filter (fun kv => negb (str_eqb (fst kv) (PS "nonce"))) info.
Definition keep_nonce (cur info : record) : record :=
  match assoc (PS "nonce") cur with
  | Some (VStr _) => drop_nonce info
  | Some n => match assoc (PS "nonce") info with
              | Some v => if pyval_eqb v n then info else drop_nonce info
              | None => info
              end
  | None => info
  end.
Definition db_update (db : list (pystr * record)) (k : pystr) (info : record) : list (pystr * record) :=
  match assoc k db with
  | None => aset k info db
  | Some cur => aset k (dict_update cur (keep_nonce cur info)) db
  end.

(* Current.bind_key(sub, st) refuses when sub is bound to a different state whose record has sub as its nonce *)
Definition sub_clash (db : list (pystr * record)) (m : list (pystr * pystr)) (st sub : pystr) : bool :=
  match assoc sub m with
  | Some s' => negb (str_eqb s' st) &&
               match assoc s' db with
               | Some rec' => option_eqb pyval_eqb (assoc (PS "nonce") rec') (Some (VStr sub))
               | None => false
               end
  | None => false
  end.

(* Message.to_dict of a response: the space-separated-list serialiser joins the list again *)
Definition resp_to_dict (spec : list pspec) (d : record) : record :=
  List.map (fun kv => match find_spec (fst kv) spec with
                      | Some ps => match ps_type ps, snd kv with
                                   | CSpList, VList l =>
                                       (fst kv, VStr (join [32%N] (List.map (fun v => match v with VStr s => s | _ => [] end) l)))
                                   | _, _ => kv
                                   end
                      | None => kv
                      end) d.

Definition with_expires_at (d : record) (now : Z) : res record :=
  match assoc (PS "expires_in") d with
  | None => Ok d
  | Some (VInt e) => Ok (aset (PS "__expires_at") (VInt (now + e)) d)
  | Some _ => Unmodelled
  end.

Definition state_param (d : record) : res pystr :=
  match assoc (PS "state") d with
  | Some (VStr s) => Ok s
  | Some _ => Unmodelled
  | None => Err KeyError
  end.

(* ---- operations of one client ---- *)
(* init_authorization: the state and the nonce are drawn by the client (fed back as observed); req is the
   authorization request as stored *)
Definition step_begin (c : client) (st nonce : pystr) (req : record) : client :=
  mkClient (cl_cfg c)
           (aset st (dict_update [(PS "iss", VStr (cf_issuer (cl_cfg c)))] req) (cl_db c))
           (aset nonce st (cl_map c)).

Section WithHash.
  Variable lhash : pystr -> pystr -> pystr.

  (* Service.parse_response (sformat "dict") of the authorization service, including post_parse_response *)
  Definition parse_authz (c : client) (r : response) (now : Z) : res record :=
    match r_params r with
    | [] => Err E_ResponseError
    | _ =>
      match from_dict authz_resp_params (r_params r) [] with
      | Err _ => Err ValueError
      | Unmodelled => Unmodelled
      | Ok [] => Unmodelled
      | Ok d =>
          if has_key (PS "error") d then Ok d else
          d1 <- authz_response_verify lhash (svc_kwargs (cl_cfg c)) d (r_idt r) now ;;
          _ <- match assoc (verified_name (PS "id_token")) d1 with
               | Some (VDict (x :: idt)) =>
                   st <- state_param d1 ;;
                   rec <- db_get (cl_db c) st ;;
                   match assoc (PS "nonce") rec with
                   | Some n =>
                       if py_truthy n then
                         match assoc (PS "nonce") (x :: idt) with
                         | Some v => if py_truthy v then (if pyval_eqb n v then Ok tt else Err ValueError)
                                     else Err E_MissingRequiredAttribute
                         | None => Err E_MissingRequiredAttribute
                         end
                       else Ok tt
                   | None => Ok tt
                   end
               | _ => Ok tt
               end ;;
          Ok d1
      end
    end.

  (* StandAloneClient.finalize_auth *)
  Definition step_authz (c : client) (r : response) (now : Z) : client * res record :=
    match parse_authz c r now with
    | Err e => (c, Err e)
    | Unmodelled => (c, Unmodelled)
    | Ok d =>
        if has_key (PS "error") d then (c, Ok (resp_to_dict authz_resp_params d)) else
        match state_param d with
        | Err _ => (c, Err KeyError)
        | Unmodelled => (c, Unmodelled)
        | Ok st =>
            match db_get (cl_db c) st with
            | Err _ => (c, Err KeyError)
            | Unmodelled => (c, Unmodelled)
            | Ok rec =>
                let issuer := match cf_pi_issuer (cl_cfg c) with Some i => i | None => cf_issuer (cl_cfg c) end in
                if negb (option_eqb pyval_eqb (assoc (PS "iss") rec) (Some (VStr issuer))) then (c, Err ValueError)
                else match with_expires_at (resp_to_dict authz_resp_params d) now with
                     | Ok stored => (mkClient (cl_cfg c) (db_update (cl_db c) st stored) (cl_map c), Ok stored)
                     | Err e => (c, Err e)
                     | Unmodelled => (c, Unmodelled)
                     end
            end
        end
    end.

  (* StandAloneClient.get_tokens(st) when the token endpoint answers 200 with the JSON object r *)
  Definition step_token (c : client) (st : pystr) (r : response) (now : Z) : client * res record :=
    match db_get (cl_db c) st with
    | Err e => (c, Err e)
    | Unmodelled => (c, Unmodelled)
    | Ok rec =>
      if negb (has_key (PS "code") rec && has_key (PS "redirect_uri") rec) then (c, Err KeyError) else
      match r_params r with
      | [] => (c, Err E_ResponseError)
      | _ =>
        match from_dict token_resp_params (r_params r) [] with
        | Err _ => (c, Err ValueError)
        | Unmodelled => (c, Unmodelled)
        | Ok [] => (c, Unmodelled)
        | Ok d =>
            if has_key (PS "error") d then (c, Err E_OidcServiceError) else
            match token_response_verify lhash (svc_kwargs (cl_cfg c)) d (r_idt r) now with
            | Err e => (c, Err e)
            | Unmodelled => (c, Unmodelled)
            | Ok d1 =>
                (* AccessToken.update_service_context *)
                let bound :=
                  match assoc (verified_name (PS "id_token")) d1 with
                  | None => Ok (cl_map c)
                  | Some (VDict idt) =>
                      match assoc (PS "nonce") idt with
                      | Some (VStr n) =>
                          match assoc n (cl_map c) with
                          | Some s => if str_eqb s st then
                                        (* ... and it is the nonce this session's request was sent with, not some
                                           other key (a subject, a session id) bound to the session *)
                                        if negb (option_eqb pyval_eqb (assoc (PS "nonce") rec) (Some (VStr n)))
                                        then Err E_ParameterError else
                                        match assoc (PS "sub") idt with
                                        | Some (VStr sub) =>
                                            if sub_clash (cl_db c) (cl_map c) st sub then Err ValueError
                                            else Ok (aset sub st (cl_map c))
                                        | _ => Unmodelled
                                        end
                                      else Err E_ParameterError
                          | None => Err ValueError
                          end
                      | _ => Err ValueError
                      end
                  | Some _ => Unmodelled
                  end in
                match bound with
                | Err e => (c, Err e)
                | Unmodelled => (c, Unmodelled)
                | Ok m =>
                    match with_expires_at (resp_to_dict token_resp_params d1) now with
                    | Ok stored => (mkClient (cl_cfg c) (db_update (cl_db c) st stored) m, Ok stored)
                    | Err e => (c, Err e)
                    | Unmodelled => (c, Unmodelled)
                    end
                end
            end
        end
      end
    end.

  (* StandAloneClient.get_user_info(st) when the userinfo endpoint answers 200 with the JSON object u *)
  Definition step_userinfo (c : client) (st : pystr) (u : record) : client * res record :=
    match db_get (cl_db c) st with
    | Err e => (c, Err e)
    | Unmodelled => (c, Unmodelled)
    | Ok rec =>
      if negb (has_key (PS "access_token") rec) then (c, Err KeyError) else
      match u with
      | [] => (c, Err E_ResponseError)
      | _ =>
        match from_dict userinfo_params u [] with
        | Err _ => (c, Err ValueError)
        | Unmodelled => (c, Unmodelled)
        | Ok [] => (c, Unmodelled)
        | Ok d =>
            if has_key (PS "error") d then (c, Err E_OidcServiceError) else
            match check_required userinfo_params d with
            | Err e => (c, Err e)
            | Unmodelled => (c, Unmodelled)
            | Ok _ =>
                if has_key (PS "error_description") d || has_key (PS "birthdate") d then (c, Unmodelled) else
                let sub_ok :=
                  match assoc (verified_name (PS "id_token")) rec with
                  | None => Ok true
                  | Some (VDict idt) =>
                      match assoc (PS "sub") idt with
                      | None => Ok true
                      | Some s => Ok (option_eqb pyval_eqb (assoc (PS "sub") d) (Some s))
                      end
                  | Some _ => Unmodelled
                  end in
                match sub_ok with
                | Ok true => (mkClient (cl_cfg c) (db_update (cl_db c) st d) (cl_map c), Ok d)
                | Ok false => (c, Err ValueError)
                | Err e => (c, Err e)
                | Unmodelled => (c, Unmodelled)
                end
            end
        end
      end
    end.

  (* oidc RefreshAccessToken.update_service_context, the checks made before anything is recorded (OpenID Connect
     Core 12.2): an ID Token in a refresh response is about the subject of the ID Token the session already has,
     and a nonce in it is bound - in this client's key map - to the very state the refresh was made for and is
     the nonce that state's request was sent with *)
  Definition refresh_bound (c : client) (st : pystr) (rec d1 : record) : res unit :=
    match assoc (verified_name (PS "id_token")) d1 with
    | None => Ok tt
    | Some (VDict idt) =>
        _ <- match assoc (verified_name (PS "id_token")) rec with
             | None => Ok tt
             | Some (VDict before) =>
                 if option_eqb pyval_eqb (assoc (PS "sub") idt) (assoc (PS "sub") before) then Ok tt
                 else Err E_ParameterError
             | Some _ => Unmodelled
             end ;;
        match assoc (PS "nonce") idt with
        | None => Ok tt
        | Some (VStr n) =>
            match assoc n (cl_map c) with
            | Some s => if str_eqb s st && option_eqb pyval_eqb (assoc (PS "nonce") rec) (Some (VStr n))
                        then Ok tt else Err E_ParameterError
            | None => Err ValueError
            end
        | Some _ => Unmodelled
        end
    | Some _ => Unmodelled
    end.

  (* StandAloneClient.refresh_access_token(st) when the token endpoint answers 200 with the JSON object r.
     oauth_pre_construct reads the record of st (KeyError), the request needs its refresh_token; the response is
     an oidc.AccessTokenResponse verified with the arguments of a token response (gather_verify_arguments is
     AccessToken's); update_service_context checks refresh_bound and records the response under the key of the
     REQUEST (Client.service_request: key = the state the caller named).  The key map is not touched. *)
  Definition step_refresh (c : client) (st : pystr) (r : response) (now : Z) : client * res record :=
    match db_get (cl_db c) st with
    | Err e => (c, Err e)
    | Unmodelled => (c, Unmodelled)
    | Ok rec =>
      match assoc (PS "refresh_token") rec with
      | None => (c, Err E_MissingRequiredAttribute)
      | Some (VStr []) => (c, Unmodelled)
      | Some (VStr _) =>
        match r_params r with
        | [] => (c, Err E_ResponseError)
        | _ =>
          match from_dict token_resp_params (r_params r) [] with
          | Err _ => (c, Err ValueError)
          | Unmodelled => (c, Unmodelled)
          | Ok [] => (c, Unmodelled)
          | Ok d =>
              if has_key (PS "error") d then (c, Err E_OidcServiceError) else
              match token_response_verify lhash (svc_kwargs (cl_cfg c)) d (r_idt r) now with
              | Err e => (c, Err e)
              | Unmodelled => (c, Unmodelled)
              | Ok d1 =>
                  match refresh_bound c st rec d1 with
                  | Err e => (c, Err e)
                  | Unmodelled => (c, Unmodelled)
                  | Ok _ =>
                      match with_expires_at (resp_to_dict token_resp_params d1) now with
                      | Ok stored => (mkClient (cl_cfg c) (db_update (cl_db c) st stored) (cl_map c), Ok stored)
                      | Err e => (c, Err e)
                      | Unmodelled => (c, Unmodelled)
                      end
                  end
              end
          end
        end
      | Some _ => (c, Unmodelled)
      end
    end.

  (* ---- several clients behind one RPHandler: issuer2rp in insertion order ---- *)
  Notation world := (list (pystr * client)).

  Inductive op :=
  | OBegin (i : pystr) (st nonce : pystr) (req : record)          (* rph.begin(i) / client_i.init_authorization *)
  | OAuthz (i : pystr) (r : response) (now : Z)                    (* rph.finalize_auth(None, i, r) *)
  | OToken (i : pystr) (st : pystr) (r : response) (now : Z)       (* issuer2rp[i].get_tokens(st) *)
  | OUserinfo (i : pystr) (st : pystr) (u : record)                (* issuer2rp[i].get_user_info(st) *)
  | ORoutedToken (st : pystr) (r : response) (now : Z)             (* rph.get_tokens(st): client found via the state *)
  | ORefresh (i : pystr) (st : pystr) (r : response) (now : Z)     (* issuer2rp[i].refresh_access_token(st) *)
  | ORoutedRefresh (st : pystr) (r : response) (now : Z)           (* rph.refresh_access_token(st) *)
  | ORoutedUserinfo (st : pystr) (u : record).                     (* rph.get_user_info(st) *)

  Definition w_set (w : world) (i : pystr) (c : client) : world := aset i c w.

  (* RPHandler.state2issuer *)
  Fixpoint state2issuer (w : world) (st : pystr) : option pyval :=
    match w with
    | [] => None
    | (_, c) :: r =>
        match db_get (cl_db c) st with
        | Ok rec => match assoc (PS "iss") rec with
                    | Some v => if py_truthy v then Some v else state2issuer r st
                    | None => state2issuer r st
                    end
        | _ => state2issuer r st
        end
    end.

  Definition on_client (w : world) (i : pystr) (f : client -> client * res record) : world * res record :=
    match assoc i w with
    | None => (w, Err KeyError)
    | Some c => let '(c', out) := f c in (w_set w i c', out)
    end.

  Definition step (w : world) (o : op) : world * res record :=
    match o with
    | OBegin i st nonce req =>
        match assoc i w with
        | None => (w, Err KeyError)
        | Some c => (w_set w i (step_begin c st nonce req), Ok [])
        end
    | OAuthz i r now => on_client w i (fun c => step_authz c r now)
    | OToken i st r now => on_client w i (fun c => step_token c st r now)
    | OUserinfo i st u => on_client w i (fun c => step_userinfo c st u)
    | ORoutedToken st r now =>
        match state2issuer w st with
        | Some (VStr i) => on_client w i (fun c => step_token c st r now)
        | Some _ => (w, Unmodelled)
        | None => (w, Err KeyError)
        end
    | ORefresh i st r now => on_client w i (fun c => step_refresh c st r now)
    | ORoutedRefresh st r now =>
        match state2issuer w st with
        | Some (VStr i) => on_client w i (fun c => step_refresh c st r now)
        | Some _ => (w, Unmodelled)
        | None => (w, Err KeyError)
        end
    | ORoutedUserinfo st u =>
        match state2issuer w st with
        | Some (VStr i) => on_client w i (fun c => step_userinfo c st u)
        | Some _ => (w, Unmodelled)
        | None => (w, Err KeyError)
        end
    end.

  Fixpoint run (w : world) (ops : list op) : world :=
    match ops with
    | [] => w
    | o :: r => run (fst (step w o)) r
    end.
End WithHash.

(* ---- vocabulary of the frame / history theorems ---- *)
Definition has_entry (k : pystr) (v : pyval) (d : record) : bool :=
  existsb (fun kv => str_eqb (fst kv) k && pyval_eqb (snd kv) v) d.

(* does the operation carry the state value s (as its explicit state argument or as a state parameter) *)
Definition op_mentions (o : op) (s : pystr) : bool :=
  match o with
  | OBegin _ st _ _ => str_eqb st s
  | OAuthz _ r _ => has_entry (PS "state") (VStr s) (r_params r)
  | OToken _ st _ _ => str_eqb st s
  | OUserinfo _ st _ => str_eqb st s
  | ORoutedToken st _ _ => str_eqb st s
  | ORefresh _ st _ _ | ORoutedRefresh st _ _ | ORoutedUserinfo st _ => str_eqb st s
  end.

(* can the operation (re)bind the key k of a client's key -> state map: a new flow drawing k as its nonce,
   or a token response whose ID token names k as its subject *)
Definition op_may_bind (o : op) (k : pystr) : bool :=
  match o with
  | OBegin _ _ nonce _ => str_eqb nonce k
  | OToken _ _ r _ | ORoutedToken _ r _ =>
      match r_idt r with
      | Some t => has_entry (PS "sub") (VStr k) (t_claims t)
      | None => false
      end
  | _ => false
  end.

(* does the operation start a flow that draws k as its nonce *)
Definition op_draws_nonce (o : op) (k : pystr) : bool :=
  match o with OBegin _ _ nonce _ => str_eqb nonce k | _ => false end.

(* the client an operation is executed on *)
Definition op_target (w : list (pystr * client)) (o : op) : option pystr :=
  match o with
  | OBegin i _ _ _ | OAuthz i _ _ | OToken i _ _ _ | OUserinfo i _ _ | ORefresh i _ _ _ => Some i
  | ORoutedToken st _ _ | ORoutedRefresh st _ _ | ORoutedUserinfo st _ =>
      match state2issuer w st with Some (VStr i) => Some i | _ => None end
  end.

(* ---- back-channel responses ----
   The requests the relying party itself makes for a session: code exchange, refresh, user info.  What comes
   back is whatever the HTTP layer returns; the state the REQUEST was made for is the argument of the call, never
   a member of the response (a `state` member is legal in oauth2.AccessTokenResponse, and any JSON object may
   carry members named state / iss / client_id / nonce / code ...). *)
Definition backchannel_of (o : op) : option pystr :=
  match o with
  | OToken _ st _ _ | ORoutedToken st _ _ | ORefresh _ st _ _ | ORoutedRefresh st _ _
  | OUserinfo _ st _ | ORoutedUserinfo st _ => Some st
  | OBegin _ _ _ _ | OAuthz _ _ _ => None
  end.
(* the refresh requests *)
Definition refresh_of (o : op) : option pystr :=
  match o with ORefresh _ st _ _ | ORoutedRefresh st _ _ => Some st | _ => None end.
(* the members of the response an operation delivers (as delivered, before any parsing) *)
Definition backchannel_members (o : op) : record :=
  match o with
  | OToken _ _ r _ | ORoutedToken _ r _ | ORefresh _ _ r _ | ORoutedRefresh _ r _ => r_params r
  | OUserinfo _ _ u | ORoutedUserinfo _ u => u
  | OBegin _ _ _ _ | OAuthz _ _ _ => []
  end.

Definition rec_of (w : list (pystr * client)) (j s : pystr) : option record :=
  match assoc j w with Some c => assoc s (cl_db c) | None => None end.
Definition map_of (w : list (pystr * client)) (j k : pystr) : option pystr :=
  match assoc j w with Some c => assoc k (cl_map c) | None => None end.

(* the (issuer, state) pairs this relying party issued in a history *)
Fixpoint issued (ops : list op) : list (pystr * pystr) :=
  match ops with
  | [] => []
  | OBegin i st _ _ :: r => (i, st) :: issued r
  | _ :: r => issued r
  end.

(* ---- the nonce clause of C08 over histories ----
   sent_by i ops: the sessions the client for issuer i started in a history, as (state, the nonce its
   authorization request was sent with) *)
Fixpoint sent_by (i : pystr) (ops : list op) : list (pystr * pystr) :=
  match ops with
  | [] => []
  | OBegin j st nonce _ :: r => if str_eqb j i then (st, nonce) :: sent_by i r else sent_by i r
  | _ :: r => sent_by i r
  end.
(* what the relying party draws is fresh (rndstr) and the request it puts on record carries the nonce it drew:
   it has a client for the provider, the state is not a record of that client yet, the nonce is not a key of its
   map yet and is not empty *)
Definition fresh_begin (w : list (pystr * client)) (o : op) : Prop :=
  match o with
  | OBegin i st nonce req =>
      has_key i w = true /\ rec_of w i st = None /\ map_of w i nonce = None /\ nonce <> [] /\
      has_key (PS "nonce") req = true /\ (forall v, In (PS "nonce", v) req -> v = VStr nonce)
  | _ => True
  end.
Fixpoint fresh_history (lhash : pystr -> pystr -> pystr) (w : list (pystr * client)) (ops : list op) : Prop :=
  match ops with
  | [] => True
  | o :: r => fresh_begin w o /\ fresh_history lhash (fst (step lhash w o)) r
  end.
(* the operations that deliver an ID Token, and the session (state) a response was accepted for: the state the
   relying party made the request for (back channel), the state the response names (authorization response) *)
Definition accepted_for (o : op) (stored : record) (st : pystr) : Prop :=
  match backchannel_of o with
  | Some s => s = st
  | None => assoc (PS "state") stored = Some (VStr st)
  end.
(* the same as a decidable check on a generated trace: every accepted ID Token (what is handed back has a verified
   ID Token) carries the nonce sent for the session it was accepted for *)
Definition nonce_as_sent (sent : list (pystr * pystr)) (o : op) (stored : record) : bool :=
  match assoc (verified_name (PS "id_token")) stored with
  | Some (VDict vd) =>
      let st := match backchannel_of o with
                | Some s => Some s
                | None => match assoc (PS "state") stored with Some (VStr s) => Some s | _ => None end
                end in
      match st with
      | Some s => match assoc s sent, assoc (PS "nonce") vd with
                  | Some n, Some v => pyval_eqb v (VStr n)
                  | Some _, None => match refresh_of o with Some _ => true | None => false end
                  | None, _ => false
                  end
      | None => false
      end
  | _ => true
  end.

(* ---- hybrid / implicit front-channel responses, recombined member by member ----
   What a provider hands out for ONE flow: the state and the nonce the flow was started with, the code and the
   access token issued for it at the authorization endpoint, and its ID Token (fl_jwt names the compact
   serialisation, fl_idt is what that JWS is).  A front-channel response of any response type ("code",
   "code id_token", "code token", "code id_token token", "id_token token", "id_token", "token") names a state
   and carries up to three more members; the adversary takes each member from whatever flow it likes. *)
Record flow := mkFlow { fl_state : pystr; fl_nonce : pystr; fl_code : pystr; fl_atok : pystr;
                        fl_jwt : pystr; fl_idt : token }.
Record hybrid := mkHybrid { hy_state : flow; hy_code : option flow; hy_idt : option flow; hy_atok : option flow }.

Definition hybrid_params (h : hybrid) : record :=
  ((PS "state", VStr (fl_state (hy_state h))) ::
   match hy_code h with Some f => [(PS "code", VStr (fl_code f))] | None => [] end ++
   match hy_atok h with
   | Some f => [(PS "access_token", VStr (fl_atok f)); (PS "token_type", VStr (PS "Bearer"))]
   | None => []
   end ++
   match hy_idt h with Some f => [(PS "id_token", VStr (fl_jwt f))] | None => [] end)%list.
Definition hybrid_response (h : hybrid) : response :=
  mkResp (hybrid_params h) (match hy_idt h with Some f => Some (fl_idt f) | None => None end).

(* ground truth of a recombination: every member present comes from the flow the state names *)
Definition same_flow (f g : flow) : bool := str_eqb (fl_state f) (fl_state g).
Definition member_own (h : hybrid) (m : option flow) : bool :=
  match m with Some f => same_flow f (hy_state h) | None => true end.
Definition hybrid_own (h : hybrid) : bool :=
  member_own h (hy_code h) && member_own h (hy_idt h) && member_own h (hy_atok h).

(* what "the ID Token of flow f" means (the provider side of OIDC Core 3.3.2.11): every nonce / c_hash /
   at_hash claim it states is the flow's own nonce / the left hash of the flow's own code / access token;
   the values handed out are not empty *)
Definition claim_only (t : token) (k s : pystr) : Prop := forall v, In (k, v) (t_claims t) -> v = VStr s.
Definition genuine_flow (lhash : pystr -> pystr -> pystr) (f : flow) : Prop :=
  claim_only (fl_idt f) (PS "nonce") (fl_nonce f) /\
  claim_only (fl_idt f) (PS "c_hash") (lhash (hash_bits (t_alg (fl_idt f))) (fl_code f)) /\
  claim_only (fl_idt f) (PS "at_hash") (lhash (hash_bits (t_alg (fl_idt f))) (fl_atok f)) /\
  fl_nonce f <> [] /\ fl_code f <> [] /\ fl_atok f <> [] /\ fl_jwt f <> [].
(* freshness of what the client draws and the provider issues, and no collision of the left hash on the
   issued values: two flows of the universe that agree on one of them are the same flow *)
Definition separate_flows (lhash : pystr -> pystr -> pystr) (fs : list flow) : Prop :=
  forall f g, In f fs -> In g fs ->
    (fl_nonce f = fl_nonce g -> f = g) /\
    (forall b, lhash b (fl_code f) = lhash b (fl_code g) -> f = g) /\
    (forall b, lhash b (fl_atok f) = lhash b (fl_atok g) -> f = g).
Definition hybrid_within (fs : list flow) (h : hybrid) : Prop :=
  In (hy_state h) fs /\ (forall f, hy_code h = Some f -> In f fs) /\
  (forall f, hy_idt h = Some f -> In f fs) /\ (forall f, hy_atok h = Some f -> In f fs).

(* ---- comparison helpers for generated case files ---- *)
Definition db_snapshot := list (pystr * record).
Definition db_eqb (a b : list (pystr * record)) : bool :=
  dict_eqb (List.map (fun kv => (fst kv, VDict (sort_dict (snd kv)))) a)
           (List.map (fun kv => (fst kv, VDict (sort_dict (snd kv)))) b).
Definition map_eqb (a b : list (pystr * pystr)) : bool :=
  dict_eqb (List.map (fun kv => (fst kv, VStr (snd kv))) a) (List.map (fun kv => (fst kv, VStr (snd kv))) b).
Definition world_snapshot := list (pystr * (list (pystr * record) * list (pystr * pystr))).
Fixpoint world_eqb (w : list (pystr * client)) (s : world_snapshot) : bool :=
  match w, s with
  | [], [] => true
  | (i, c) :: w', (j, (db, m)) :: s' => str_eqb i j && db_eqb (cl_db c) db && map_eqb (cl_map c) m && world_eqb w' s'
  | _, _ => false
  end.

(* a trace: initial clients (all with empty stores), the hash table, then (op, observed result, observed snapshot) *)
Definition trace_case :=
  (list (pystr * rp_cfg) * list (pystr * pystr * pystr) * list (op * (res record * world_snapshot)))%type.

Fixpoint check_steps (lh : pystr -> pystr -> pystr) (w : list (pystr * client))
         (tr : list (op * (res record * world_snapshot))) (i : nat) : option nat :=
  match tr with
  | [] => None
  | (o, (obs, snap)) :: rest =>
      let '(w1, out) := step lh w o in
      match out with
      | Unmodelled => None       (* the rest of the trace is outside the modelled fragment *)
      | _ => if res_eqb dict_eqb out obs && world_eqb w1 snap then check_steps lh w1 rest (S i) else Some i
      end
  end.
Definition init_world (cfgs : list (pystr * rp_cfg)) : list (pystr * client) :=
  List.map (fun ic => (fst ic, mkClient (snd ic) [] [])) cfgs.
Definition first_bad_step (t : trace_case) : option nat :=
  let '(cfgs, tbl, tr) := t in check_steps (lhash_of tbl) (init_world cfgs) tr O.
Definition chk_trace (t : trace_case) : bool :=
  match first_bad_step t with None => true | Some _ => false end.
(* does the trace leave the modelled fragment? (diagnostics / evidence) *)
Fixpoint trace_unmodelled (lh : pystr -> pystr -> pystr) (w : list (pystr * client))
         (tr : list (op * (res record * world_snapshot))) : bool :=
  match tr with
  | [] => false
  | (o, _) :: rest =>
      let '(w1, out) := step lh w o in
      match out with Unmodelled => true | _ => trace_unmodelled lh w1 rest end
  end.
Definition chk_modelled (t : trace_case) : bool :=
  let '(cfgs, tbl, tr) := t in negb (trace_unmodelled (lhash_of tbl) (init_world cfgs) tr).

(* ---- the nonce clause on a generated trace (the history theorem, evaluated): replaying the trace in the model,
   every accepted delivery of an ID Token carries the nonce sent for the session it was accepted for ---- *)
Definition idtoken_op (o : op) : bool :=
  match o with
  | OAuthz _ _ _ | OToken _ _ _ _ | ORoutedToken _ _ _ | ORefresh _ _ _ _ | ORoutedRefresh _ _ _ => true
  | _ => false
  end.
Fixpoint nonce_steps (lh : pystr -> pystr -> pystr) (w : list (pystr * client)) (pre : list op)
         (tr : list (op * (res record * world_snapshot))) : bool :=
  match tr with
  | [] => true
  | (o, _) :: rest =>
      let '(w1, out) := step lh w o in
      match out with
      | Unmodelled => true
      | Ok stored =>
          (if idtoken_op o && negb (has_key (PS "error") stored) then
             match op_target w o with
             | Some i => nonce_as_sent (sent_by i pre) o stored
             | None => true
             end
           else true) && nonce_steps lh w1 (pre ++ [o]) rest
      | Err _ => nonce_steps lh w1 (pre ++ [o]) rest
      end
  end.
Definition chk_trace_nonce (t : trace_case) : bool :=
  let '(cfgs, tbl, tr) := t in nonce_steps (lhash_of tbl) (init_world cfgs) [] tr.
Definition chk_history (t : trace_case) : bool := chk_trace t && chk_trace_nonce t.

(* ---- values presented AS A STATE that are not states (C09) ----
   A client keeps two tables side by side: cl_db (state -> record: what init_authorization / begin created) and
   cl_map (Current._map, ONE namespace: nonce -> state, subject -> state, session id -> state, state of a logout
   request -> state).  Only a key of cl_db is a state.  A key of cl_map - whatever it is bound to - presented as the
   `state` of a front-channel response, as the state argument of get_tokens / refresh_access_token /
   get_user_info, or to the look-ups of the RPHandler, is an unknown state. *)
Definition is_begin (o : op) : bool := match o with OBegin _ _ _ _ => true | _ => false end.

(* read-only look-ups through a state value, and the re-basing step of a trace *)
Inductive probe :=
| PIssuer (st : pystr)        (* rph.state2issuer(st): what get_client_from_session_key and every routed call use *)
| PSession (i st : pystr)     (* issuer2rp[i].get_session_information(st) = cstate.get(st) *)
| PSync.                      (* an API call the model has no step for (finalize pipeline, logout): the replay
                                 continues from the OBSERVED stores *)
Definition probe_out (w : list (pystr * client)) (p : probe) : res record :=
  match p with
  | PIssuer st => match state2issuer w st with
                  | Some (VStr i) => Ok [(PS "iss", VStr i)]
                  | Some _ => Unmodelled
                  | None => Ok []
                  end
  | PSession i st => match assoc i w with Some c => db_get (cl_db c) st | None => Err KeyError end
  | PSync => Ok []
  end.
Fixpoint resync (w : list (pystr * client)) (s : world_snapshot) : list (pystr * client) :=
  match w, s with
  | (i, c) :: w', (_, (db, m)) :: s' => (i, mkClient (cl_cfg c) db m) :: resync w' s'
  | _, _ => w
  end.

Definition ptrace_case :=
  (list (pystr * rp_cfg) * list (pystr * pystr * pystr) * list ((op + probe) * (res record * world_snapshot)))%type.
Fixpoint check_psteps (lh : pystr -> pystr -> pystr) (w : list (pystr * client))
         (tr : list ((op + probe) * (res record * world_snapshot))) (i : nat) : option nat :=
  match tr with
  | [] => None
  | (inl o, (obs, snap)) :: rest =>
      let '(w1, out) := step lh w o in
      match out with
      | Unmodelled => None
      | _ => if res_eqb dict_eqb out obs && world_eqb w1 snap then check_psteps lh w1 rest (S i) else Some i
      end
  | (inr PSync, (_, snap)) :: rest => check_psteps lh (resync w snap) rest (S i)
  | (inr p, (obs, snap)) :: rest =>
      match probe_out w p with
      | Unmodelled => None
      | out => if res_eqb dict_eqb out obs && world_eqb w snap then check_psteps lh w rest (S i) else Some i
      end
  end.
Definition first_bad_pstep (t : ptrace_case) : option nat :=
  let '(cfgs, tbl, tr) := t in check_psteps (lhash_of tbl) (init_world cfgs) tr O.

(* the theorem C09_accepted_state_is_record_key, evaluated on a replayed trace: every accepted operation other
   than the start of a flow (handed back without an error member) presents a key of the RECORD store of the client
   it was executed on, and every look-up that finds an issuer / a session was made with a key of a record store *)
Definition record_key (w : list (pystr * client)) (i k : pystr) : bool :=
  match assoc i w with Some c => has_key k (cl_db c) | None => false end.
Definition presents_record_key (w : list (pystr * client)) (o : op) : bool :=
  match op_target w o with
  | Some i => match assoc i w with
              | Some c => existsb (fun kv => op_mentions o (fst kv)) (cl_db c)
              | None => false
              end
  | None => false
  end.
Fixpoint state_psteps (lh : pystr -> pystr -> pystr) (w : list (pystr * client))
         (tr : list ((op + probe) * (res record * world_snapshot))) : bool :=
  match tr with
  | [] => true
  | (inl o, _) :: rest =>
      let '(w1, out) := step lh w o in
      match out with
      | Unmodelled => true
      | Ok stored => (is_begin o || has_key (PS "error") stored || presents_record_key w o) && state_psteps lh w1 rest
      | Err _ => state_psteps lh w1 rest
      end
  | (inr PSync, (_, snap)) :: rest => state_psteps lh (resync w snap) rest
  | (inr (PIssuer st), _) :: rest =>
      (match state2issuer w st with
       | Some _ => existsb (fun ic => has_key st (cl_db (snd ic))) w
       | None => true
       end) && state_psteps lh w rest
  | (inr (PSession i st), _) :: rest =>
      (match probe_out w (PSession i st) with Ok _ => record_key w i st | _ => true end) && state_psteps lh w rest
  end.
Definition chk_ptrace (t : ptrace_case) : bool :=
  match first_bad_pstep t with None => true | Some _ => false end.
Definition chk_ptrace_states (t : ptrace_case) : bool :=
  let '(cfgs, tbl, tr) := t in state_psteps (lhash_of tbl) (init_world cfgs) tr.
Definition chk_bound_keys (t : ptrace_case) : bool := chk_ptrace t && chk_ptrace_states t.
