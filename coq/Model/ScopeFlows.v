(* Model/ScopeFlows.v — the scope computation of the token-exchange and client-credentials grants:
   validate_token_exchange_policy (server/oauth2/token_helper/__init__.py) followed by the requesting client's
   filter in TokenExchangeHelper.post_parse_request, and ClientCredentials.process_request.
   The intersection goes through a Python set, so the ORDER of the resulting list is unspecified: results are
   compared as sets.  No proofs here. *)
From Coq Require Import String.
From Verif Require Import Lib.Base Lib.PyStr.
Open Scope string_scope.

Definition offline : pystr := PS "offline_access".
Inductive xerr := XInvalidScope | XRefreshForbidden.
Inductive xres := XOk (scope : list pystr) | XErr (e : xerr).

Fixpoint dedup (l : list pystr) : list pystr :=
  match l with [] => [] | x :: r => if str_in x r then dedup r else x :: dedup r end.

(* subject_scope: scope of the subject token; requested: the request's scope parameter if any;
   allowed: Scopes.get_allowed_scopes(requesting client); want_refresh: requested_token_type is refresh_token *)
Definition exchange_scope (subject_scope : list pystr) (requested : option (list pystr)) (allowed : list pystr)
           (want_refresh : bool) : xres :=
  if want_refresh && negb (str_in offline subject_scope) then XErr XRefreshForbidden
  else
    let base := match requested with Some r => r | None => subject_scope end in
    let inter := dedup (List.filter (fun x => str_in x subject_scope) base) in
    let filtered := List.filter (fun x => str_in x allowed) inter in
    match filtered with
    | [] => XErr XInvalidScope
    | _ => if want_refresh && negb (str_in offline filtered) then XErr XRefreshForbidden else XOk filtered
    end.

(* ClientCredentials.process_request: the token (and the response) carry the client's configured allowed_scopes *)
Definition client_credentials_scope (client_allowed : option (list pystr)) : list pystr :=
  match client_allowed with Some a => a | None => [] end.

(* ---- checker: (subject scope, requested, allowed, want_refresh, observed: None = refused for scope reasons) ---- *)
Definition subset (a b : list pystr) : bool := forallb (fun x => str_in x b) a.
Definition set_eqb (a b : list pystr) : bool := subset a b && subset b a.
Definition chk_exchange (c : list pystr * option (list pystr) * list pystr * bool * option (list pystr)) : bool :=
  let '(subj, req, allowed, wr, observed) := c in
  match exchange_scope subj req allowed wr, observed with
  | XOk sc, Some o => set_eqb sc o
  | XErr _, None => true
  | _, _ => false
  end.
Definition chk_cc (c : option (list pystr) * list pystr) : bool :=
  list_eqb str_eqb (client_credentials_scope (fst c)) (snd c).
