(* Model/ScopeFlows.v — the scope computation of the token-exchange and client-credentials grants:
   validate_token_exchange_policy (server/oauth2/token_helper/__init__.py) followed by the requesting client's
   filter in TokenExchangeHelper.post_parse_request, and ClientCredentials.process_request.
   The intersection goes through a Python set, so the ORDER of the resulting list is unspecified: results are
   compared as sets.  No proofs here. *)
From Coq Require Import String.
From Verif Require Import Lib.Base Lib.PyStr.
Open Scope string_scope.

Definition offline : pystr := PS "offline_access".
Inductive xerr := XInvalidScope | XRefreshForbidden.
Inductive xres := XOk (scope : list pystr) | XErr (e : xerr).

Fixpoint dedup (l : list pystr) : list pystr :=
  match l with [] => [] | x :: r => if str_in x r then dedup r else x :: dedup r end.

(* subject_scope: scope of the subject token; requested: the request's scope parameter if any;
   allowed: Scopes.get_allowed_scopes(requesting client); want_refresh: requested_token_type is refresh_token *)
Definition exchange_scope (subject_scope : list pystr) (requested : option (list pystr)) (allowed : list pystr)
           (want_refresh : bool) : xres :=
  if want_refresh && negb (str_in offline subject_scope) then XErr XRefreshForbidden
  else
    let base := match requested with Some r => r | None => subject_scope end in
    let inter := dedup (List.filter (fun x => str_in x subject_scope) base) in
    let filtered := List.filter (fun x => str_in x allowed) inter in
    match filtered with
    | [] => XErr XInvalidScope
    | _ => if want_refresh && negb (str_in offline filtered) then XErr XRefreshForbidden else XOk filtered
    end.

(* ClientCredentials.process_request: the token (and the response) carry the client's configured allowed_scopes *)
Definition client_credentials_scope (client_allowed : option (list pystr)) : list pystr :=
  match client_allowed with Some a => a | None => [] end.

(* ---- checker: (subject scope, requested, allowed, want_refresh, observed: None = refused for scope reasons) ---- *)
Definition subset (a b : list pystr) : bool := forallb (fun x => str_in x b) a.
Definition set_eqb (a b : list pystr) : bool := subset a b && subset b a.
Definition chk_exchange (c : list pystr * option (list pystr) * list pystr * bool * option (list pystr)) : bool :=
  let '(subj, req, allowed, wr, observed) := c in
  match exchange_scope subj req allowed wr, observed with
  | XOk sc, Some o => set_eqb sc o
  | XErr _, None => true
  | _, _ => false
  end.
Definition chk_cc (c : option (list pystr) * list pystr) : bool :=
  list_eqb str_eqb (client_credentials_scope (fst c)) (snd c).

(* ---- the authorization endpoint on a request that may name resources (RFC 8707 `resource`), any response type ----
   Authorization._post_parse_request -> validate_resource_indicators_policy (server/oauth2/authorization.py),
   AuthzHandling.__call__ (grant.scope), Authorization.create_authn_response (what is minted, and the response's `scope`).
   requested: the request's scope; allowed: Scopes.get_allowed_scopes(client);
   permitted: None when no resource-indicator policy applies to the request; Some p when the policy ran: p is the
     concatenation of the allowed_scopes lists of the permitted resources the request names and of the client itself
     (the policy cuts the REQUEST's scope down to p before anything else sees it);
   rscopes: the concatenation of the `scope` lists registered for the client-database entries the (rewritten) resource
     parameter names.
   Everything goes through Python sets: results are compared as sets. *)
Record authz_art := mkArt {
  a_grant : list pystr;        (* grant.scope *)
  a_code : list pystr;         (* scope of the code, if the response type has `code` *)
  a_access : list pystr;       (* scope of the access token minted by the authorization endpoint (`token`) *)
  a_idtoken : list pystr;      (* scope of the ID Token minted by the authorization endpoint (`id_token`) *)
  a_response : list pystr }.   (* the `scope` parameter of the authorization response *)
Definition authz_effective (requested : list pystr) (permitted : option (list pystr)) : list pystr :=
  match permitted with
  | None => requested
  | Some p => dedup (List.filter (fun x => str_in x p) requested)
  end.
Definition authz_decide (requested allowed : list pystr) (permitted : option (list pystr)) (rscopes : list pystr) : authz_art :=
  let eff := authz_effective requested permitted in
  let g := List.filter (fun x => str_in x allowed) eff in
  (* every mint_token call of create_authn_response leaves the scope to Grant.mint_token: the grant's *)
  mkArt g g g g (List.filter (fun x => str_in x allowed) (dedup (eff ++ rscopes))).

(* AccessTokenHelper.process_request (OAuth2) when a resource-indicator policy is configured for the token endpoint:
   the policy cuts the scope parameter OF THE TOKEN REQUEST (absent: nothing) down to the named resources' allowed
   scopes and the response states that; the access token is minted with the grant's scope. *)
Definition token_ri_statement (treq permitted : list pystr) : list pystr :=
  dedup (List.filter (fun x => str_in x permitted) treq).
Definition token_ri_token (gscope : list pystr) : list pystr := gscope.

(* ---- checkers ---- *)
Definition opt_set_ok (expected : list pystr) (observed : option (list pystr)) : bool :=
  match observed with Some o => set_eqb expected o | None => true end.
(* (requested, allowed, permitted, rscopes), observed: grant scope, code / access token / ID Token scope where minted,
   the response's scope *)
Definition chk_authz (c : list pystr * list pystr * option (list pystr) * list pystr *
                          (list pystr * option (list pystr) * option (list pystr) * option (list pystr) * list pystr)) : bool :=
  let '(requested, allowed, permitted, rscopes, (og, oc, oa, oi, orsp)) := c in
  let r := authz_decide requested allowed permitted rscopes in
  set_eqb (a_grant r) og && opt_set_ok (a_code r) oc && opt_set_ok (a_access r) oa && opt_set_ok (a_idtoken r) oi
  && set_eqb (a_response r) orsp.
(* (grant scope, scope parameter of the token request, permitted), observed: token scope, response scope *)
Definition chk_token_ri (c : list pystr * list pystr * list pystr * (list pystr * list pystr)) : bool :=
  let '(gscope, treq, permitted, (ot, orsp)) := c in
  set_eqb (token_ri_token gscope) ot && set_eqb (token_ri_statement treq permitted) orsp.
