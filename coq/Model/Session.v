(* Model/Session.v — the provider's session core: grants, tokens, usage accounting, expiry,
   revocation and scope, as exercised through the authorization, token (authorization_code and
   refresh_token grants, OAuth2 and OIDC flavours), userinfo, introspection and revocation
   endpoints and the SessionManager revocation API.

   Transcribed from: server/session/token.py (Item.is_active, max_usage_reached, supports_minting,
   AuthorizationCode/RefreshToken.set_defaults), server/session/grant.py (mint_token, find_scope,
   revoke_token), server/oauth2/token_helper/{__init__,access_token,refresh_token}.py,
   server/oidc/token_helper/{access_token,refresh_token}.py, server/oauth2/token.py,
   server/oidc/userinfo.py, server/oauth2/introspection.py, server/oauth2/token_revocation.py,
   server/session/manager.py (revoke_token, revoke_grant, revoke_client_session, remove_session),
   server/session/grant_manager.py (_revoke_tree, revoke_sub_tree, remove_branch), server/session/database.py
   (delete: a removed grant leaves the database, the nodes above it go with it once they have no other subordinate),
   server/authz (AuthzHandling.__call__).

   The documented session parameter `remove_inactive_token` (session_params; EndpointContext.set_remember_token ->
   SessionManager.remove_inactive_token -> every Grant made by add_grant) is the configuration flag c_remove_inactive:
   with it on, EVERY call of Grant.revoke_token - whatever its arguments - rebuilds grant.issued_token without the tokens
   whose `revoked` is set at that moment (they are handed to remember_token, if there is one, and are "gone": t_gone).
   A gone token still decrypts / verifies and still names its session (get_session_info_by_token does not look at
   issued_token), but Grant.get_token and SessionManager.find_token no longer find it: what each endpoint does then is
   transcribed at every operation below.  Tokens that are merely used up or expired are never dropped by the library.

   Hand-written, executable; tied to the code by harness/sess.py + the drivers of C02/C03/C05
   (the model's outcome of every operation and the whole session state are compared with the real
   provider).  Token values are abstract identifiers (minting order); the byte-level token formats
   are C04's.  No proofs in this file. *)
From Coq Require Import String.
From Verif Require Import Lib.Base Lib.PyStr.
Open Scope string_scope.
Open Scope Z_scope.

Inductive tcls := Code | Access | Refresh | IdTok.
Definition tcls_eqb (a b : tcls) : bool :=
  match a, b with Code, Code | Access, Access | Refresh, Refresh | IdTok, IdTok => true | _, _ => false end.
Definition cls_in (c : tcls) (l : list tcls) : bool := existsb (tcls_eqb c) l.

Record token := mkTok {
  t_grant : nat;                       (* index of the grant whose issued_token list holds it *)
  t_cls : tcls; t_based : option nat; t_used : Z; t_max : option Z;
  t_mints : option (list tcls); t_revoked : bool; t_exp : Z; t_scope : list pystr;
  t_gone : bool }.                     (* dropped from grant.issued_token (remove_inactive_token): only "remembered" *)

Record grant := mkGrant {
  g_user : pystr; g_client : pystr; g_revoked : bool; g_exp : Z; g_scope : list pystr;
  g_areq_scope : list pystr; g_redirect : pystr; g_valid_until : Z;
  g_removed : bool }.                  (* SessionManager.remove_session: the grant is no longer in the database; the
                                          harness keeps the last object, so its fields stay comparable *)

(* a parsed token request waiting to be processed (what Endpoint.parse_request returned) *)
Inductive err := EInvalidGrant | EInvalidRequest | EInvalidToken | EOther.
Inductive preq :=
| PErr (e : err)
| PCode (client : pystr) (code : nat) (redirect : option pystr)
| PRefresh (client : pystr) (tok : nat) (scope : option (list pystr)).

(* Tokens live in one global list in minting order: a token's identifier IS its position.  The
   issued_token list of grant gi is the sub-list of tokens with t_grant = gi (same order). *)
Record st := mkSt { now : Z; grants : list grant; toks : list token; parsed : list preq }.

(* static configuration *)
Record cfg := mkCfg {
  c_oidc : bool;
  c_allowed : pystr -> list pystr;       (* Scopes.get_allowed_scopes(client) *)
  c_code_mints : list tcls; c_code_exp : Z;
  c_access_exp : Z;
  c_refresh_mints : list tcls; c_refresh_exp : Z;
  c_idtok_exp : Z;
  c_grant_exp : Z; c_authn_valid : Z;
  c_revoke_refresh_on_issue : bool;
  c_shared_key : bool;                   (* the opaque token handlers share one key *)
  c_remove_inactive : bool }.            (* session_params.remove_inactive_token *)

Definition init : st := mkSt 1700000000 [] [] [].

(* ---- Item.is_active ---- *)
Definition max_reached (t : token) : bool :=
  match t_max t with Some m => m <=? t_used t | None => false end.
Definition tok_active (n : Z) (t : token) : bool :=
  negb (max_reached t) && negb (t_revoked t) && ((t_exp t =? 0) || (n <=? t_exp t)).
Definition grant_active (n : Z) (g : grant) : bool :=
  negb (g_revoked g) && ((g_exp g =? 0) || (n <=? g_exp g)).
Definition supports_minting (t : token) (c : tcls) : bool :=
  match t_mints t with Some l => cls_in c l | None => false end.

(* ---- looking tokens up ---- *)
Definition find_tok (id : nat) (s : st) : option (grant * token) :=
  match nth_error (toks s) id with
  | Some t => match nth_error (grants s) (t_grant t) with Some g => Some (g, t) | None => None end
  | None => None
  end.
(* Grant.get_token: only tokens of that grant that are (still) in its issued_token list *)
Definition find_in (gi : nat) (id : nat) (ts : list token) : option token :=
  match nth_error ts id with
  | Some t => if Nat.eqb (t_grant t) gi && negb (t_gone t) then Some t else None
  | None => None
  end.

Fixpoint upd_nth {A} (i : nat) (f : A -> A) (l : list A) : list A :=
  match l, i with
  | [], _ => []
  | x :: r, O => f x :: r
  | x :: r, S j => x :: upd_nth j f r
  end.
Definition upd_tok (id : nat) (f : token -> token) (s : st) : st :=
  mkSt (now s) (grants s) (upd_nth id f (toks s)) (parsed s).
Definition upd_grant (gi : nat) (f : grant -> grant) (s : st) : st :=
  mkSt (now s) (upd_nth gi f (grants s)) (toks s) (parsed s).
Definition map_toks (f : token -> token) (s : st) : st :=
  mkSt (now s) (grants s) (List.map f (toks s)) (parsed s).

Definition add_used (d : Z) (t : token) : token :=
  mkTok (t_grant t) (t_cls t) (t_based t) (t_used t + d) (t_max t) (t_mints t) (t_revoked t) (t_exp t) (t_scope t) (t_gone t).
Definition revoke_t (t : token) : token :=
  mkTok (t_grant t) (t_cls t) (t_based t) (t_used t) (t_max t) (t_mints t) true (t_exp t) (t_scope t) (t_gone t).
Definition gone_t (t : token) : token :=
  mkTok (t_grant t) (t_cls t) (t_based t) (t_used t) (t_max t) (t_mints t) (t_revoked t) (t_exp t) (t_scope t) true.
Definition revoke_g (g : grant) : grant :=      (* Grant.revoke() *)
  mkGrant (g_user g) (g_client g) true (g_exp g) (g_scope g) (g_areq_scope g) (g_redirect g) (g_valid_until g) (g_removed g).
Definition remove_g (g : grant) : grant :=      (* Database.delete of the leaf *)
  mkGrant (g_user g) (g_client g) (g_revoked g) (g_exp g) (g_scope g) (g_areq_scope g) (g_redirect g) (g_valid_until g) true.
(* _revoke_tree on a grant: Grant.revoke() + Grant.revoke_token() (every issued token) *)
Definition revoke_grant_at (gi : nat) (s : st) : st :=
  map_toks (fun t => if Nat.eqb (t_grant t) gi then revoke_t t else t) (upd_grant gi revoke_g s).

(* The tail of Grant.revoke_token when remove_inactive_token is set: `remain` keeps the tokens that are not revoked, the
   others leave issued_token.  p: the grants whose revoke_token ran (one grant, or every grant below a revoked node). *)
Definition sweep_p (c : cfg) (p : nat -> bool) (s : st) : st :=
  if c_remove_inactive c then map_toks (fun t => if p (t_grant t) && t_revoked t then gone_t t else t) s else s.
Definition sweep (c : cfg) (gi : nat) (s : st) : st := sweep_p c (Nat.eqb gi) s.

(* ---- Grant.find_scope ---- *)
Fixpoint find_scope (fuel : nat) (ts : list token) (gi : nat) (gscope : list pystr) (based : option nat) : list pystr :=
  match fuel with
  | O => gscope
  | S f =>
      match based with
      | None => gscope
      | Some b =>
          match find_in gi b ts with
          | None => gscope
          | Some t => match t_scope t with
                      | [] => match t_based t with
                              | Some b' => find_scope f ts gi gscope (Some b')
                              | None => gscope
                              end
                      | sc => sc
                      end
          end
      end
  end.
Definition fscope (s : st) (gi : nat) (g : grant) (based : option nat) : list pystr :=
  find_scope (S (length (toks s))) (toks s) gi (g_scope g) based.

(* ---- Grant.revoke_token(based_on=v, recursive=True): everything derived from v ---- *)
Fixpoint derived_from (fuel : nat) (ts : list token) (t : token) (v : nat) : bool :=
  match fuel with
  | O => false
  | S f => match t_based t with
           | None => false
           | Some b => Nat.eqb b v ||
                       match find_in (t_grant t) b ts with Some tb => derived_from f ts tb v | None => false end
           end
  end.
Definition revoke_derived (gi : nat) (v : nat) (s : st) : st :=
  map_toks (fun t => if Nat.eqb (t_grant t) gi && derived_from (S (length (toks s))) (toks s) t v then revoke_t t else t) s.

(* ---- the same call when remove_inactive_token is set ----
   Grant.revoke_token(based_on=v, recursive=True) is a depth-first walk in which every call iterates over the issued_token
   list AS IT IS WHEN THAT CALL STARTS and, when it ends, replaces grant.issued_token by the not-revoked members of the
   list it iterated over.  The first call that ends therefore takes every token that is revoked by then off the list -
   also tokens that had been revoked earlier by other means (token.revoke() of the revocation endpoint or of
   revoke_refresh_on_issue, a non-recursive SessionManager.revoke_token) - and the calls that start afterwards no longer
   see them: what was minted from such a token is then not reached by the walk. *)
Fixpoint listed_from (i gi : nat) (ts : list token) : list nat :=
  match ts with
  | [] => []
  | t :: r => if Nat.eqb (t_grant t) gi && negb (t_gone t) then i :: listed_from (S i) gi r else listed_from (S i) gi r
  end.
Definition listed_ids (gi : nat) (ts : list token) : list nat := listed_from 0 gi ts.
Definition sweep_toks (gi : nat) (ts : list token) : list token :=
  List.map (fun t => if Nat.eqb (t_grant t) gi && t_revoked t then gone_t t else t) ts.
Definition based_is (t : token) (v : nat) : bool := match t_based t with Some b => Nat.eqb b v | None => false end.
Fixpoint walk (fuel : nat) (gi v : nat) (ts : list token) : list token :=
  match fuel with
  | O => ts
  | S f =>
      sweep_toks gi
        (fold_left (fun ts' id => match nth_error ts' id with
                                  | Some t => if based_is t v then walk f gi id (upd_nth id revoke_t ts') else ts'
                                  | None => ts'
                                  end)
                   (listed_ids gi ts) ts)
  end.
Definition walk_derived (gi v : nat) (s : st) : st :=
  mkSt (now s) (grants s) (walk (S (length (toks s))) gi v (toks s)) (parsed s).
(* Grant.revoke_token(based_on=v) resp. Grant.revoke_token(value=v) (v itself is revoked by the caller) under the
   configuration c *)
Definition cascade (c : cfg) (gi v : nat) (s : st) : st :=
  if c_remove_inactive c then walk_derived gi v s else revoke_derived gi v s.

(* ---- Grant.mint_token (+ the expires_at set by the caller) ---- *)
Definition e_mint_refused : exc := Refused 1.      (* MintingNotAllowed *)
Definition mint (s : st) (gi : nat) (cls : tcls) (based : option nat) (scope : option (list pystr))
           (mx : option Z) (mints : option (list tcls)) (exp_in : Z) : res (st * nat) :=
  match nth_error (grants s) gi with
  | None => Err KeyError
  | Some g =>
      if negb (grant_active (now s) g) then Err AttributeError     (* mint_token returns None; caller crashes *)
      else
        let chk := match based with
                   | None => Ok tt
                   | Some b => match find_in gi b (toks s) with
                               | None => Err KeyError
                               | Some bt => if negb (supports_minting bt cls) then Err e_mint_refused
                                            else if negb (tok_active (now s) bt) then Err e_mint_refused
                                            else Ok tt
                               end
                   end in
        _ <- chk ;;
        let sc := match scope with Some sc => sc | None => match based with Some _ => fscope s gi g based | None => g_scope g end end in
        let id := length (toks s) in
        let t := mkTok gi cls based 0 (match cls with Code => Some 1 | _ => mx end)
                       (match cls, mints with
                        | Code, None => Some [Access; Refresh; IdTok]
                        | Refresh, None => Some [Access; Refresh]
                        | _, m => m end)
                       false (if exp_in =? 0 then 0 else now s + exp_in) sc false in
        let ts1 := match based with Some b => upd_nth b (add_used 1) (toks s) | None => toks s end in
        Ok (mkSt (now s) (grants s) (ts1 ++ [t]) (parsed s), id)
  end.

(* ---- what a presented string resolves to ---- *)
Inductive tokref := TRef (id : nat) | Garbage.
Inductive resolved := RTok (id : nat) (g : grant) (t : token) | RUnknown | RWrongClass | RTooOld | RCrash.
(* get_session_info_by_token(value, handler_key=k) *)
Definition resolve_as (c : cfg) (k : tcls) (r : tokref) (s : st) : resolved :=
  match r with
  | Garbage => RUnknown
  | TRef id => match find_tok id s with
               | None => RUnknown
               | Some (g, t) =>
                   match t_cls t with
                   | IdTok => RUnknown                     (* a JWT does not decrypt *)
                   | cl => if tcls_eqb cl k then
                             (* the value decrypts, the session it names is gone: InvalidBranchID propagates *)
                             if g_removed g then RCrash else RTok id g t
                           else if c_shared_key c then RWrongClass else RUnknown
                   end
               end
  end.
(* get_session_info_by_token(value) over all handlers in order *)
Definition resolve_any (r : tokref) (s : st) : resolved :=
  match r with
  | Garbage => RUnknown
  | TRef id => match find_tok id s with
               | None => RUnknown
               | Some (g, t) =>
                   match t_cls t with
                   | IdTok =>
                       (* IDToken.info: cryptojwt JWT.unpack (skew 15 s) raises VerificationError once
                          now >= exp + 15; before that is_expired(exp) raises ToOld once now > exp;
                          otherwise the payload carries the session id and the token resolves *)
                       if t_exp t + 15 <=? now s then RCrash
                       else if t_exp t <? now s then RTooOld
                       else if g_removed g then RCrash
                       else RTok id g t
                   | _ => if g_removed g then RCrash else RTok id g t
                   end
               end
  end.

(* ---- outcomes ---- *)
Inductive out :=
| OOk | OSkip | OExc
| OErr (e : err)
| OAuthz (code : nat) (scope : list pystr)
| OTokens (acc ref idt : option nat) (scope : list pystr)
| OUserinfo
| OActive (scope : list pystr) (client : pystr) (cls : tcls)
| OInactive
| OLogin                                 (* the authorization endpoint wants the user to authenticate (again); nothing is issued *)
(* the authorization response of an implicit / hybrid (or plain code) request: what it carries by parameter, and the
   scope it states *)
| OAuthzRT (code acc idt : option nat) (scope : list pystr).

Definition offline : pystr := PS "offline_access".
Definition openid : pystr := PS "openid".
Definition filter_scopes (c : cfg) (client : pystr) (sc : list pystr) : list pystr :=
  List.filter (fun x => str_in x (c_allowed c client)) sc.
Definition subset (a b : list pystr) : bool := forallb (fun x => str_in x b) a.

(* ---- operations ---- *)
Inductive op :=
| Authorize (user client : pystr) (scope : list pystr)
| TokenParse (client : pystr) (code : tokref) (redirect : option pystr)
| RefreshParse (client : pystr) (tok : tokref) (scope : option (list pystr))
| Process (idx : nat) (issue_refresh : option bool)
| Userinfo (tok : tokref)
| Introspect (client : pystr) (tok : tokref)
| RevokeEP (client : pystr) (tok : tokref)
| ApiRevoke (tok : nat) (recursive : bool)
| RevokeGrant (gi : nat)
| RevokeClient (gi : nat)
| RemoveGrant (gi : nat)               (* SessionManager.remove_session(session id of grant gi) *)
| RevokeUser (gi : nat)                (* revoke_sub_tree(session id of grant gi, 0): the whole user session (logout everywhere) *)
| Tick (d : Z)
(* An authorization request from a browser that presents the provider's session cookie: the cookie the provider set
   when it answered the (latest) authorization whose code is in grant prev; no cookie when there is no such grant.
   `user` is who the authentication method logs in if a login takes place.  fresh = false: state, nonce and every other
   parameter besides client, scope and redirect_uri are those of the request that created grant prev; fresh = true: a
   nonce never sent before (so the request differs from every stored one). *)
| AuthorizeCookie (prev : nat) (user client : pystr) (scope : list pystr) (redirect : pystr) (fresh : bool)
(* An authorization request (no cookie) with any response type: want_code / want_token / want_idt say whether
   response_type contains `code` / `token` / `id_token`.  The authorization endpoint ITSELF mints the access token and the
   ID Token of an implicit / hybrid response (Authorization.create_authn_response). *)
| AuthorizeRT (user client : pystr) (scope : list pystr) (want_code want_token want_idt : bool).

Definition redirect_of (client : pystr) : pystr := PS "https://" ++ client ++ PS ".example.com/cb".

(* Authorization.create_session / SessionManager.create_grant + AuthzHandling.__call__ + the code minted by
   create_authn_response: a NEW grant for (u, cl), bound to the redirect_uri and scope of this request; valid_until is
   that of the authentication event (a new one for a login, the one of the earlier grant on the cookie path) *)
Definition do_authorize_at (c : cfg) (s : st) (u cl : pystr) (sc : list pystr) (redir : pystr) (valid_until : Z) : st * out :=
  let gsc := match sc with [] => [] | _ => filter_scopes c cl sc end in
  let g := mkGrant u cl false (now s + c_grant_exp c) gsc sc redir valid_until false in
  let gi := length (grants s) in
  let s1 := mkSt (now s) (grants s ++ [g]) (toks s) (parsed s) in
  match mint s1 gi Code None None (Some 1) (Some (c_code_mints c)) (c_code_exp c) with
  | Ok (s2, id) => (s2, OAuthz id (filter_scopes c cl sc))
  | _ => (s1, OExc)
  end.
Definition do_authorize (c : cfg) (s : st) (u cl : pystr) (sc : list pystr) : st * out :=
  do_authorize_at c s u cl sc (redirect_of cl) (now s + c_authn_valid c).

(* AuthzHandling.__call__ on a grant that exists already (the cookie path kept it): the grant's scope - the scope of
   the request if the grant has none - goes through Scopes.filter_scopes, exactly as for a new grant *)
Definition reuse_scope (c : cfg) (g : grant) (sc : list pystr) : list pystr :=
  filter_scopes c (g_client g) (match g_scope g with [] => sc | gs => gs end).
Definition regrant (c : cfg) (n : Z) (sc : list pystr) (g : grant) : grant :=
  mkGrant (g_user g) (g_client g) (g_revoked g) (n + c_grant_exp c) (reuse_scope c g sc) (g_areq_scope g) (g_redirect g)
          (g_valid_until g) (g_removed g).
(* request == grant.authorization_request *)
Definition same_request (g : grant) (sc : list pystr) (redir : pystr) (fresh : bool) : bool :=
  negb fresh && str_eqb redir (g_redirect g) && list_eqb str_eqb sc (g_areq_scope g).

(* Authorization.setup_auth with a session cookie (UserAuthnMethod.cookie_info, SessionManager.__getitem__) *)
Definition do_authorize_cookie (c : cfg) (s : st) (prev : nat) (u cl : pystr) (sc : list pystr) (redir : pystr)
           (fresh : bool) : st * out :=
  match nth_error (grants s) prev with
  | None => do_authorize_at c s u cl sc redir (now s + c_authn_valid c)            (* no cookie: a login *)
  | Some g =>
      (* the session the cookie names is gone, or it is a session with another client: the cookie says nothing *)
      if g_removed g || negb (str_eqb (g_client g) cl) then do_authorize_at c s u cl sc redir (now s + c_authn_valid c)
      else if negb (grant_active (now s) g) then (s, OLogin)                       (* revoked or expired: authenticate again *)
      else if negb (now s <? g_valid_until g) then (s, OLogin)                     (* the authentication is too old *)
      else if same_request g sc redir fresh then
        (* the very same request: the grant is kept and authorised again, one more code is minted in it *)
        let s1 := upd_grant prev (regrant c (now s) sc) s in
        match mint s1 prev Code None None (Some 1) (Some (c_code_mints c)) (c_code_exp c) with
        | Ok (s2, id) => (s2, OAuthz id (filter_scopes c cl sc))
        | _ => (s1, OExc)
        end
      else
        (* any difference: a new grant for the cookie's user under the same authentication event *)
        do_authorize_at c s (g_user g) cl sc redir (g_valid_until g)
  end.

(* Authorization.create_authn_response: one mint_token per member of the response type, in the order code, token,
   id_token; every one of them without based_on and without a scope argument, so Grant.mint_token gives it the grant's
   scope.  (The ID Token was minted with the raw requested scope until /repo 90c6f61.)  Lifetimes: the class's usage rule,
   or the token handler's lifetime where there is none - the same numbers the token endpoint uses. *)
Definition mint_if (b : bool) (s : st) (gi : nat) (cls : tcls) (mx : option Z) (mints : option (list tcls)) (e : Z)
  : res (st * option nat) :=
  if b then match mint s gi cls None None mx mints e with
            | Ok (s', id) => Ok (s', Some id)
            | Err x => Err x
            | Unmodelled => Unmodelled
            end
  else Ok (s, None).
Definition do_authorize_rt (c : cfg) (s : st) (u cl : pystr) (sc : list pystr) (wc wt wi : bool) : st * out :=
  let gsc := match sc with [] => [] | _ => filter_scopes c cl sc end in
  let g := mkGrant u cl false (now s + c_grant_exp c) gsc sc (redirect_of cl) (now s + c_authn_valid c) false in
  let gi := length (grants s) in
  let s1 := mkSt (now s) (grants s ++ [g]) (toks s) (parsed s) in
  match mint_if wc s1 gi Code (Some 1) (Some (c_code_mints c)) (c_code_exp c) with
  | Ok (s2, code) =>
      match mint_if wt s2 gi Access None None (c_access_exp c) with
      | Ok (s3, acc) =>
          match mint_if wi s3 gi IdTok None None (c_idtok_exp c) with
          | Ok (s4, idt) => (s4, OAuthzRT code acc idt (filter_scopes c cl sc))
          | _ => (s3, OExc)
          end
      | _ => (s2, OExc)
      end
  | _ => (s1, OExc)
  end.

Definition push_parsed (s : st) (p : preq) : st := mkSt (now s) (grants s) (toks s) (parsed s ++ [p]).

Definition do_token_parse (c : cfg) (s : st) (cl : pystr) (r : tokref) (redir : option pystr) : st * out :=
  match resolve_as c Code r s with
  | RUnknown => (push_parsed s (PErr EInvalidGrant), OErr EInvalidGrant)
  | RWrongClass | RTooOld | RCrash => (s, OExc)   (* WrongTokenClass propagates out of parse_request; nothing is stored *)
  | RTok id g t =>
      if t_gone t then
        (* the grant no longer lists the code: grant.get_token -> None, "Wrong token type" (both flavours); the OIDC helper
           does not reach its `if code.used` branch *)
        (push_parsed s (PErr EInvalidRequest), OErr EInvalidRequest)
      else if c_oidc c && negb (t_used t =? 0) then
        (* a used code: invalidate everything minted from it *)
        let s1 := cascade c (t_grant t) id s in
        (push_parsed s1 (PErr EInvalidGrant), OErr EInvalidGrant)
      else if negb (tok_active (now s) t) then
        let e := if c_oidc c then EInvalidGrant else EInvalidRequest in
        (push_parsed s (PErr e), OErr e)
      else (push_parsed s (PCode cl id redir), OOk)
  end.

Definition do_refresh_parse (c : cfg) (s : st) (cl : pystr) (r : tokref) (sc : option (list pystr)) : st * out :=
  match resolve_as c Refresh r s with
  | RUnknown => (push_parsed s (PErr EInvalidGrant), OErr EInvalidGrant)
  | RWrongClass | RTooOld | RCrash => (s, OExc)
  | RTok id g t =>
      if t_gone t then (push_parsed s (PErr EInvalidRequest), OErr EInvalidRequest)      (* get_token -> None: "Wrong token type" *)
      else if negb (tok_active (now s) t) then (push_parsed s (PErr EInvalidRequest), OErr EInvalidRequest)
      else match sc with
           | Some rs => if subset rs (fscope s (t_grant t) g (t_based t)) then (push_parsed s (PRefresh cl id sc), OOk)
                        else (push_parsed s (PErr EInvalidRequest), OErr EInvalidRequest)
           | None => (push_parsed s (PRefresh cl id sc), OOk)
           end
  end.

(* AccessTokenHelper.process_request, OAuth2 and OIDC *)
Definition do_code_process (c : cfg) (s : st) (cl : pystr) (code : nat) (redir : option pystr)
           (issue_kw : option bool) : st * out :=
  match find_tok code s with
  | None => (s, OExc)
  | Some (g, t) =>
      let gi := t_grant t in
      if g_removed g then (s, OExc)                              (* InvalidBranchID: the session was removed meanwhile *)
      else if negb (str_eqb (g_client g) cl) then (s, OErr EInvalidGrant)
      else if t_gone t then (s, OExc)                            (* _based_on = None; `_based_on.usage_rules` raises *)
      else match redir with
           | None => (s, OExc)                                   (* req["redirect_uri"] -> KeyError *)
           | Some r =>
               if negb (str_eqb r (g_redirect g)) then (s, OErr EInvalidRequest)
               else
                 let mints := match t_mints t with Some l => l | None => [] end in
                 let issue_refresh :=
                   if c_oidc c then match issue_kw with
                                    | Some b => b
                                    | None => str_in offline (g_scope g) end
                   else if str_in offline (g_scope g) && cls_in Refresh mints then true
                        else match issue_kw with Some b => b | None => false end in
                 let want_refresh := issue_refresh && cls_in Refresh mints in
                 let want_idt := c_oidc c && str_in openid (g_areq_scope g) && cls_in IdTok mints in
                 if negb (cls_in Access mints) then (s, OExc)    (* `token` never bound *)
                 else
                   match mint s gi Access (Some code) None None None (c_access_exp c) with
                   | Err (Refused _) =>
                       (* grant.mint_token raises idpyoidc.server.session.MintingNotAllowed.  The OAuth2 helper
                          catches that class and swallows it (`token` stays unbound); the OIDC helper catches the
                          different class idpyoidc.server.session.token.MintingNotAllowed, so the exception reaches
                          Token.process_request, which answers invalid_request *)
                       if c_oidc c then (s, OErr EInvalidRequest)
                       else if want_refresh || want_idt then (s, OExc)     (* UnboundLocalError *)
                       else (upd_tok code (add_used 1) s, OExc)            (* register_usage, then KeyError *)
                   | Err _ => (s, OExc)
                   | Unmodelled => (s, OExc)
                   | Ok (s1, acc) =>
                       (* refresh *)
                       let r2 := if want_refresh then
                                   match mint (upd_tok code (add_used (-1)) s1) gi Refresh (Some code) None None
                                              (Some (c_refresh_mints c)) (c_refresh_exp c) with
                                   | Ok (s2, rid) => Ok (s2, Some rid)
                                   | Err (Refused n) => if c_oidc c then Err (Refused n)
                                                        else Ok (upd_tok code (add_used (-1)) s1, None)
                                   | Err e => Err e
                                   | Unmodelled => Unmodelled
                                   end
                                 else Ok (s1, None) in
                       match r2 with
                       | Ok (s2, rid) =>
                           let r3 := if want_idt then
                                       match mint (upd_tok code (add_used (-1)) s2) gi IdTok (Some code) None None None
                                                  (c_idtok_exp c) with
                                       | Ok (s3, iid) => Ok (s3, Some iid)
                                       | Err e => Err e
                                       | Unmodelled => Unmodelled
                                       end
                                     else Ok (s2, None) in
                           match r3 with
                           | Ok (s3, iid) => (upd_tok code (add_used 1) s3, OTokens (Some acc) rid iid (g_scope g))
                           | Err (Refused _) => (upd_tok code (add_used (-1)) s2, OErr EInvalidRequest)
                           | _ => (s2, OExc)
                           end
                       | Err (Refused _) => (upd_tok code (add_used (-1)) s1, OErr EInvalidRequest)
                       | _ => (s1, OExc)
                       end
                   end
           end
  end.

(* RefreshTokenHelper.process_request, OAuth2 and OIDC *)
Definition do_refresh_process (c : cfg) (s : st) (cl : pystr) (tok : nat) (rsc : option (list pystr))
           (issue_kw : option bool) : st * out :=
  match find_tok tok s with
  | None => (s, OExc)
  | Some (g, t) =>
      let gi := t_grant t in
      if g_removed g then (s, OExc)
      else if negb (str_eqb (g_client g) cl) then (s, OErr EInvalidGrant)
      else if t_gone t then
        (* the refresh token left the grant between parse and process: token = None.  OIDC: `token.based_on` raises at
           once.  OAuth2: find_scope(None) is the grant's scope, an access token WITHOUT based_on is minted (and stays in the
           grant), then `token.usage_rules` raises - the new token is never returned *)
        if c_oidc c then (s, OExc)
        else match mint s gi Access None (Some (match rsc with Some x => x | None => g_scope g end)) None None (c_access_exp c) with
             | Ok (s1, _) => (s1, OExc)
             | _ => (s, OExc)
             end
      else
        let base := if c_oidc c then fscope s gi g (t_based t) else fscope s gi g (Some tok) in
        let sc := match rsc with Some x => x | None => base end in
        match mint s gi Access (Some tok) (Some sc) None None (c_access_exp c) with
        | Err (Refused _) => (s, OErr EInvalidRequest)     (* MintingNotAllowed caught by Token.process_request *)
        | Err _ => (s, OExc)
        | Unmodelled => (s, OExc)
        | Ok (s1, acc) =>
            let mints := match t_mints t with Some l => l | None => [] end in
            let issue_refresh :=
              if c_oidc c then match issue_kw with Some b => b | None => str_in offline sc end
              else match issue_kw with Some b => b | None => false end in
            let r2 := if cls_in Refresh mints && issue_refresh then
                        match mint s1 gi Refresh (Some tok) (Some sc) (t_max t) (t_mints t) (c_refresh_exp c) with
                        | Ok (s2, rid) => Ok (s2, Some rid)
                        | Err (Refused _) => Err (Refused 1)
                        | Err e => Err e
                        | Unmodelled => Unmodelled
                        end
                      else Ok (s1, None) in
            match r2 with
            | Ok (s2, rid) =>
                let r3 := if c_oidc c && cls_in IdTok mints && str_in openid sc then
                            match mint s2 gi IdTok (Some tok) (Some sc) None None (c_idtok_exp c) with
                            | Ok (s3, iid) => Ok (s3, Some iid)
                            | Err e => Err e
                            | Unmodelled => Unmodelled
                            end
                          else Ok (s2, None) in
                match r3 with
                | Ok (s3, iid) =>
                    let s4 := upd_tok tok (add_used 1) s3 in
                    let s5 := if c_revoke_refresh_on_issue c then upd_tok tok revoke_t s4 else s4 in
                    (s5, OTokens (Some acc) rid iid sc)
                | Err (Refused _) => (s2, OErr EInvalidRequest)
                | _ => (s2, OExc)
                end
            | Err (Refused _) => (s1, OErr EInvalidRequest)
            | _ => (s1, OExc)
            end
        end
  end.

Definition do_process (c : cfg) (s : st) (idx : nat) (kw : option bool) : st * out :=
  match nth_error (parsed s) idx with
  | None => (s, OSkip)
  | Some (PErr e) => (s, OErr e)
  | Some (PCode cl code redir) => do_code_process c s cl code redir kw
  | Some (PRefresh cl tok sc) => do_refresh_process c s cl tok sc kw
  end.

Definition do_userinfo (c : cfg) (s : st) (r : tokref) : st * out :=
  match resolve_as c Access r s with
  | RTok id g t =>
      if t_gone t then (s, OExc)                                  (* get_token -> None; `token.is_active()` raises *)
      else if negb (tok_active (now s) t) then (s, OErr EInvalidToken)
      else if negb (now s <=? g_valid_until g) then (s, OExc)     (* `info` never bound *)
      else (s, OUserinfo)
  | _ => (s, OErr EInvalidToken)
  end.

Definition do_introspect (c : cfg) (s : st) (cl : pystr) (r : tokref) : st * out :=
  match resolve_any r s with
  | RTok id g t =>
      if t_gone t then (s, OExc)                                 (* get_token -> None; `_token.resources` raises, before the audience test *)
      else if negb (str_eqb cl (g_client g)) then (s, OInactive) (* audience restriction: resources = [client] *)
      else match t_cls t with
           | Access | Refresh =>
               if tok_active (now s) t then
                 (s, OActive (match t_scope t with
                              | [] => match t_based t with Some _ => fscope s (t_grant t) g (t_based t) | None => g_scope g end
                              | sc => sc end) (g_client g) (t_cls t))
               else (s, OInactive)
           | _ => (s, OInactive)
           end
  | RCrash => (s, OExc)                                (* VerificationError("Token expired") is not caught *)
  | _ => (s, OInactive)
  end.

Definition do_revoke_ep (c : cfg) (s : st) (cl : pystr) (r : tokref) : st * out :=
  match resolve_any r s with
  | RTok id g t =>
      if negb (str_eqb cl (g_client g)) then (s, OErr EInvalidGrant)
      else if t_gone t then (s, OExc)                    (* get_token -> None; `_token.token_class` raises *)
      else match t_cls t with
           | IdTok => (s, OErr EOther)                   (* unsupported_token_type *)
           | _ => (upd_tok id revoke_t s, OOk)
           end
  | RTooOld | RCrash => (s, OExc)                      (* neither exception is caught by the endpoint *)
  | _ => (s, OOk)
  end.

(* SessionManager.revoke_token of a token its grant lists, default configuration *)
Definition do_api_revoke (s : st) (id : nat) (recursive : bool) : st * out :=
  match find_tok id s with
  | None => (s, OSkip)
  | Some (g, t) =>
      if g_removed g then (s, OExc)                  (* find_token: KeyError, nothing is touched *)
      else
      let s1 := upd_tok id revoke_t s in
      (if recursive then revoke_derived (t_grant t) id s1 else s1, OOk)
  end.
(* ... in general: a token that left its grant is not found (UnknownToken, nothing is touched); with
   remove_inactive_token the recursive form is grant.revoke_token(value=...): the walk from the token, and whatever is
   revoked in the grant leaves it *)
Definition do_api_revoke_c (c : cfg) (s : st) (id : nat) (recursive : bool) : st * out :=
  match find_tok id s with
  | Some (g, t) =>
      if negb (g_removed g) && t_gone t then (s, OExc)
      else if negb (g_removed g) && recursive && c_remove_inactive c then
        (sweep c (t_grant t) (walk_derived (t_grant t) id (upd_tok id revoke_t s)), OOk)
      else do_api_revoke s id recursive
  | None => do_api_revoke s id recursive
  end.

Definition same_branch (g h : grant) : bool := str_eqb (g_user g) (g_user h) && str_eqb (g_client g) (g_client h).
Definition same_user (g h : grant) : bool := str_eqb (g_user g) (g_user h).
(* the grants a node of the database still knows: those below it that were not removed *)
Definition live_branch (g h : grant) : bool := same_branch g h && negb (g_removed h).
Definition live_user (g h : grant) : bool := same_user g h && negb (g_removed h).
(* revoke_client_session: the client node and every grant below it (with all their tokens) *)
Definition in_branch (g : grant) (s : st) (gi : nat) : bool :=
  match nth_error (grants s) gi with Some h => live_branch g h | None => false end.
Definition revoke_branch (g : grant) (s : st) : st :=
  mkSt (now s) (List.map (fun h => if live_branch g h then revoke_g h else h) (grants s))
       (List.map (fun t => if in_branch g s (t_grant t) then revoke_t t else t) (toks s)) (parsed s).
(* revoke_sub_tree(sid, 0): the user node, every client node below it, every grant below those, all their tokens *)
Definition in_user (g : grant) (s : st) (gi : nat) : bool :=
  match nth_error (grants s) gi with Some h => live_user g h | None => false end.
Definition revoke_user (g : grant) (s : st) : st :=
  mkSt (now s) (List.map (fun h => if live_user g h then revoke_g h else h) (grants s))
       (List.map (fun t => if in_user g s (t_grant t) then revoke_t t else t) (toks s)) (parsed s).

Definition step (c : cfg) (s : st) (o : op) : st * out :=
  match o with
  | Authorize u cl sc => do_authorize c s u cl sc
  | TokenParse cl r redir => do_token_parse c s cl r redir
  | RefreshParse cl r sc => do_refresh_parse c s cl r sc
  | Process i kw => do_process c s i kw
  | Userinfo r => do_userinfo c s r
  | Introspect cl r => do_introspect c s cl r
  | RevokeEP cl r => do_revoke_ep c s cl r
  | ApiRevoke id rec => do_api_revoke_c c s id rec
  | RevokeGrant gi => match nth_error (grants s) gi with
                      | Some g => if g_removed g then (s, OExc)          (* get_grant: KeyError *)
                                  else (sweep c gi (revoke_grant_at gi s), OOk)
                      | None => (s, OSkip) end
  | RevokeClient gi => match nth_error (grants s) gi with
                       | Some g =>
                           (* the session id names the path user/client/grant; the client node exists as long as
                              one grant below it does (also a grant of a later login, also when grant gi is gone) *)
                           if existsb (live_branch g) (grants s) then (sweep_p c (in_branch g s) (revoke_branch g s), OOk) else (s, OExc)
                       | None => (s, OSkip) end
  | RemoveGrant gi => match nth_error (grants s) gi with
                      | Some _ => (upd_grant gi remove_g s, OOk)         (* a second removal finds nothing and returns *)
                      | None => (s, OSkip) end
  | RevokeUser gi => match nth_error (grants s) gi with
                     | Some g => if existsb (live_user g) (grants s) then (sweep_p c (in_user g s) (revoke_user g s), OOk) else (s, OExc)
                     | None => (s, OSkip) end
  | Tick d => (mkSt (now s + Z.max 0 d) (grants s) (toks s) (parsed s), OOk)
  | AuthorizeCookie prev u cl sc redir fresh => do_authorize_cookie c s prev u cl sc redir fresh
  | AuthorizeRT u cl sc wc wt wi => do_authorize_rt c s u cl sc wc wt wi
  end.

Fixpoint run (c : cfg) (s : st) (ops : list op) : st * list out :=
  match ops with
  | [] => (s, [])
  | o :: r => let '(s1, x) := step c s o in let '(s2, xs) := run c s1 r in (s2, x :: xs)
  end.
