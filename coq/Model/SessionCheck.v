(* Model/SessionCheck.v — configuration instances and the trace checker used by the generated
   correspondence cases of C02 / C03 / C05 (harness/sess.py drives the real provider). *)
From Coq Require Import String.
From Verif Require Import Lib.Base Lib.PyStr Model.Session.
Open Scope string_scope.
Open Scope Z_scope.

Definition default_scopes : list pystr :=
  [PS "openid"; PS "profile"; PS "email"; PS "address"; PS "phone"; PS "offline_access"].
Definition allowed_of (cl : pystr) : list pystr :=
  if str_eqb cl (PS "client_1") then [PS "openid"; PS "profile"; PS "email"; PS "offline_access"]
  else if str_eqb cl (PS "client_2") then [PS "openid"; PS "email"; PS "address"; PS "offline_access"; PS "phone"]
  else default_scopes.
Definition mk_cfg (oidc revoke_on_issue : bool) : cfg :=
  mkCfg oidc allowed_of [Access; Refresh; IdTok] 300 600 [Access; Refresh; IdTok] 3600 300 43200 3600
        revoke_on_issue true false.
(* the boundary registration: the third client is allowed no scope at all (allowed_scopes = []), which is not the
   same as having no allowed_scopes entry (= every scope the provider knows) *)
Definition allowed_of_e3 (e3 : bool) (cl : pystr) : list pystr :=
  if e3 && str_eqb cl (PS "client_12") then [] else allowed_of cl.
Definition mk_cfg3 (oidc revoke_on_issue e3 : bool) : cfg :=
  mkCfg oidc (allowed_of_e3 e3) [Access; Refresh; IdTok] 300 600 [Access; Refresh; IdTok] 3600 300 43200 3600
        revoke_on_issue true false.

(* hr: the provider has no usage rule at all (neither in grant_config nor per client): every token gets the lifetime
   of its token handler (code 600, access 3600, refresh 86400 in the harness configuration) and what it may mint is the
   default of its class (AuthorizationCode.set_defaults / RefreshToken.set_defaults) *)
Definition mk_cfg4 (oidc revoke_on_issue e3 hr : bool) : cfg :=
  if hr then
    mkCfg oidc (allowed_of_e3 e3) [Access; Refresh; IdTok] 600 3600 [Access; Refresh] 86400 300 43200 3600
          revoke_on_issue true false
  else mk_cfg3 oidc revoke_on_issue e3.
(* ri: session_params.remove_inactive_token is on *)
Definition with_remove_inactive (ri : bool) (c : cfg) : cfg :=
  mkCfg (c_oidc c) (c_allowed c) (c_code_mints c) (c_code_exp c) (c_access_exp c) (c_refresh_mints c) (c_refresh_exp c)
        (c_idtok_exp c) (c_grant_exp c) (c_authn_valid c) (c_revoke_refresh_on_issue c) (c_shared_key c) ri.
Definition mk_cfg5 (oidc revoke_on_issue e3 hr ri : bool) : cfg := with_remove_inactive ri (mk_cfg4 oidc revoke_on_issue e3 hr).

Definition opt_eqb {A} (e : A -> A -> bool) (x y : option A) : bool :=
  match x, y with Some a, Some b => e a b | None, None => true | _, _ => false end.
Definition strs_eqb := list_eqb str_eqb.
Definition err_eqb (a b : err) : bool :=
  match a, b with
  | EInvalidGrant, EInvalidGrant | EInvalidRequest, EInvalidRequest | EInvalidToken, EInvalidToken | EOther, EOther => true
  | _, _ => false end.
Definition out_eqb (a b : out) : bool :=
  match a, b with
  | OOk, OOk | OSkip, OSkip | OExc, OExc | OUserinfo, OUserinfo | OInactive, OInactive | OLogin, OLogin => true
  | OErr x, OErr y => err_eqb x y
  | OAuthz c s, OAuthz c' s' =>   (* the response scope goes through a Python set: order-insensitive *)
      Nat.eqb c c' && subset s s' && subset s' s && Nat.eqb (length s) (length s')
  | OTokens a r i s, OTokens a' r' i' s' =>
      opt_eqb Nat.eqb a a' && opt_eqb Nat.eqb r r' && opt_eqb Nat.eqb i i' && strs_eqb s s'
  | OActive s c k, OActive s' c' k' => strs_eqb s s' && str_eqb c c' && tcls_eqb k k'
  | OAuthzRT c a i s, OAuthzRT c' a' i' s' =>      (* the stated scope went through a Python set: compared as a set (a value requested twice is stated once) *)
      opt_eqb Nat.eqb c c' && opt_eqb Nat.eqb a a' && opt_eqb Nat.eqb i i' && subset s s' && subset s' s
  | _, _ => false
  end.
Definition tok_eqb (a b : token) : bool :=
  Nat.eqb (t_grant a) (t_grant b) && tcls_eqb (t_cls a) (t_cls b) && opt_eqb Nat.eqb (t_based a) (t_based b)
  && (t_used a =? t_used b) && opt_eqb Z.eqb (t_max a) (t_max b)
  && opt_eqb (list_eqb tcls_eqb) (t_mints a) (t_mints b) && Bool.eqb (t_revoked a) (t_revoked b)
  && (t_exp a =? t_exp b) && strs_eqb (t_scope a) (t_scope b).
Definition grant_eqb (a b : grant) : bool :=
  str_eqb (g_user a) (g_user b) && str_eqb (g_client a) (g_client b) && Bool.eqb (g_revoked a) (g_revoked b)
  && (g_exp a =? g_exp b) && strs_eqb (g_scope a) (g_scope b) && strs_eqb (g_areq_scope a) (g_areq_scope b)
  && str_eqb (g_redirect a) (g_redirect b) && (g_valid_until a =? g_valid_until b)
  && Bool.eqb (g_removed a) (g_removed b).

(* what the harness reads off the real provider: the grants (in creation order) and, per grant, its
   issued_token list with the harness-assigned identifiers (minting order) *)
Definition snap := (list grant * list (list (nat * token)))%type.
Fixpoint ids_from (i : nat) (ts : list token) : list (nat * token) :=
  match ts with [] => [] | t :: r => (i, t) :: ids_from (S i) r end.
Definition issued (s : st) (gi : nat) : list (nat * token) :=
  List.filter (fun it => Nat.eqb (t_grant (snd it)) gi && negb (t_gone (snd it))) (ids_from 0 (toks s)).
Definition snapshot (s : st) : snap :=
  (grants s, List.map (issued s) (seq 0 (length (grants s)))).
Definition itok_eqb (a b : nat * token) : bool := Nat.eqb (fst a) (fst b) && tok_eqb (snd a) (snd b).
Definition snap_eqb (a b : snap) : bool :=
  list_eqb grant_eqb (fst a) (fst b) && list_eqb (list_eqb itok_eqb) (snd a) (snd b).

(* a case: configuration, the operations with the implementation's outcomes, the implementation's final state *)
Definition hist := (bool * bool * bool * bool * bool * list (op * out) * snap)%type.
Fixpoint outs_ok (c : cfg) (s : st) (tr : list (op * out)) : bool * st :=
  match tr with
  | [] => (true, s)
  | (o, x) :: r => let '(s1, y) := step c s o in
                   if out_eqb x y then outs_ok c s1 r else (false, s1)
  end.
Definition chk_hist (h : hist) : bool :=
  let '(oidc, roi, e3, hr, ri, tr, fin) := h in
  let '(ok, s) := outs_ok (mk_cfg5 oidc roi e3 hr ri) init tr in
  ok && snap_eqb (snapshot s) fin.

(* diagnostics: index of the first differing outcome and the model's outcome there, or the model's final state *)
Fixpoint first_diff (c : cfg) (s : st) (i : nat) (tr : list (op * out)) : option (nat * out) + st :=
  match tr with
  | [] => inr s
  | (o, x) :: r => let '(s1, y) := step c s o in
                   if out_eqb x y then first_diff c s1 (S i) r else inl (Some (i, y))
  end.
Definition diag_hist (h : hist) :=
  let '(oidc, roi, e3, hr, ri, tr, fin) := h in
  match first_diff (mk_cfg5 oidc roi e3 hr ri) init 0 tr with
  | inl d => inl d
  | inr s => inr (snapshot s)
  end.
