(* Model/Sub.v — subject identifiers: idpyoidc.server.session.manager.public_id / pairwise_id /
   ephemeral_id, SessionManager.create_grant (sub = sub_func[sub_type](uid, salt, sector_identifier)) and
   Authorization._subject_args (subject type and sector taken from the client's registration).
   The hash is an environment function (a Section variable); the correspondence run instantiates it with a
   table of SHA-256 digests computed by hashlib for every preimage that occurs.  No proofs here. *)
From Coq Require Import String.
From Verif Require Import Lib.Base Lib.PyStr.
Open Scope string_scope.

Inductive subtype := Public | Pairwise | Ephemeral | UnknownType.

(* what the client record says: subject_type, sector_id, sector_identifier_uri (each may be absent/empty) *)
Record creg := mkCreg { r_subject_type : option pystr; r_sector_id : option pystr; r_sector_uri : option pystr }.

Definition truthy (o : option pystr) : option pystr := match o with Some [] => None | x => x end.
Definition subtype_of (r : creg) : subtype :=
  match truthy (r_subject_type r) with
  | None => Public                                    (* _cinfo.get("subject_type") or "public" *)
  | Some t => if str_eqb t (PS "public") then Public
              else if str_eqb t (PS "pairwise") then Pairwise
              else if str_eqb t (PS "ephemeral") then Ephemeral else UnknownType
  end.
(* the text whose host names the sector: sector_id, else sector_identifier_uri, else the request's redirect_uri *)
Definition sector_source (r : creg) (redirect_uri : pystr) : pystr :=
  match truthy (r_sector_id r) with
  | Some x => x
  | None => match truthy (r_sector_uri r) with Some x => x | None => redirect_uri end
  end.

Section Sub.
  Variable H : pystr -> pystr.          (* hashlib.sha256(text.encode()).hexdigest() *)
  Variable host_of : pystr -> pystr.    (* urlparse(text).hostname or "" *)

  Inductive subval := SHash (digest : pystr) | SFresh (n : nat) | SKeyError.

  (* sub_func[sub_type](uid, salt=salt, sector_identifier=sector); `fresh` numbers the uuid4 draws *)
  Definition sub_of (typ : subtype) (uid salt sector : pystr) (fresh : nat) : subval :=
    match typ with
    | Public => SHash (H (uid ++ salt))                    (* "{}{}".format(uid, salt) *)
    | Pairwise => SHash (H (uid ++ sector ++ salt))        (* "{}{}{}".format(uid, sector_identifier, salt) *)
    | Ephemeral => SFresh fresh
    | UnknownType => SKeyError
    end.

  Definition grant_sub (r : creg) (redirect_uri uid salt : pystr) (fresh : nat) : subval :=
    sub_of (subtype_of r) uid salt (host_of (sector_source r redirect_uri)) fresh.
End Sub.

(* ---- hexdigest alphabet (for opacity) ---- *)
Definition hexchar (n : N) : N := if (n <? 10)%N then (48 + n)%N else (87 + n)%N.      (* lower case *)
Fixpoint hex_of_bytes (bs : list N) : pystr :=
  match bs with [] => [] | b :: r => hexchar (b / 16) :: hexchar (b mod 16) :: hex_of_bytes r end.
Definition is_hex (c : N) : bool := ((48 <=? c) && (c <=? 57) || (97 <=? c) && (c <=? 102))%N.

(* ---- correspondence: the hash as a finite table of (preimage, digest) pairs supplied by the harness ---- *)
Definition table_hash (tbl : list (pystr * pystr)) (x : pystr) : pystr :=
  match assoc x tbl with Some d => d | None => PS "?" end.
Definition table_host (tbl : list (pystr * pystr)) (x : pystr) : pystr :=
  match assoc x tbl with Some d => d | None => PS "?" end.
(* case: hash table, host table, client record, redirect_uri, uid, salt, observed sub (None for ephemeral: only freshness is judged) *)
Definition sub_case := (list (pystr * pystr) * list (pystr * pystr) * creg * pystr * pystr * pystr * option pystr)%type.
Definition chk_sub (c : sub_case) : bool :=
  let '(ht, hosts, r, redirect, uid, salt, observed) := c in
  match grant_sub (table_hash ht) (table_host hosts) r redirect uid salt O, observed with
  | SHash d, Some o => str_eqb d o
  | SFresh _, None => true
  | _, _ => false
  end.

(* ---- what the registration endpoint stores for a client that registered itself (Registration.client_registration_setup
   / _verify_sector_identifier): subject_type as asked, and for a sector_identifier_uri that passed verification both
   sector_identifier_uri and sector_id = that very URI (not its host: Authorization._subject_args takes the host later) ---- *)
Definition registered_record (asked_type asked_sector : option pystr) : creg :=
  mkCreg asked_type (match truthy asked_sector with Some u => Some u | None => None end) asked_sector.
Definition creg_eqb (a b : creg) : bool :=
  let oe := fun x y => match truthy x, truthy y with Some p, Some q => str_eqb p q | None, None => true | _, _ => false end in
  oe (r_subject_type a) (r_subject_type b) && oe (r_sector_id a) (r_sector_id b) && oe (r_sector_uri a) (r_sector_uri b).
(* case: asked subject_type, asked sector_identifier_uri, the record found in the client database afterwards *)
Definition chk_registered (c : option pystr * option pystr * creg) : bool :=
  let '(t, s, stored) := c in creg_eqb (registered_record t s) stored.
