(* Model/Sub.v — subject identifiers: idpyoidc.server.session.manager.public_id / pairwise_id /
   ephemeral_id, SessionManager.create_grant (sub = sub_func[sub_type](uid, salt, sector_identifier)) and
   Authorization._subject_args (subject type and sector taken from the client's registration).
   The hash is an environment function (a Section variable); the correspondence run instantiates it with a
   table of SHA-256 digests computed by hashlib for every preimage that occurs.  No proofs here. *)
From Coq Require Import String.
From Verif Require Import Lib.Base Lib.PyStr.
Open Scope string_scope.

Inductive subtype := Public | Pairwise | Ephemeral | UnknownType.

(* what the client record says: subject_type, sector_id, sector_identifier_uri (each may be absent/empty) *)
Record creg := mkCreg { r_subject_type : option pystr; r_sector_id : option pystr; r_sector_uri : option pystr }.

Definition truthy (o : option pystr) : option pystr := match o with Some [] => None | x => x end.
Definition subtype_of (r : creg) : subtype :=
  match truthy (r_subject_type r) with
  | None => Public                                    (* _cinfo.get("subject_type") or "public" *)
  | Some t => if str_eqb t (PS "public") then Public
              else if str_eqb t (PS "pairwise") then Pairwise
              else if str_eqb t (PS "ephemeral") then Ephemeral else UnknownType
  end.
(* the text whose host names the sector: sector_id, else sector_identifier_uri, else the request's redirect_uri *)
Definition sector_source (r : creg) (redirect_uri : pystr) : pystr :=
  match truthy (r_sector_id r) with
  | Some x => x
  | None => match truthy (r_sector_uri r) with Some x => x | None => redirect_uri end
  end.

Section Sub.
  Variable H : pystr -> pystr.          (* hashlib.sha256(text.encode()).hexdigest() *)
  Variable host_of : pystr -> pystr.    (* urlparse(text).hostname or "" *)

  Inductive subval := SHash (digest : pystr) | SFresh (n : nat) | SKeyError.

  (* sub_func[sub_type](uid, salt=salt, sector_identifier=sector); `fresh` numbers the uuid4 draws *)
  Definition sub_of (typ : subtype) (uid salt sector : pystr) (fresh : nat) : subval :=
    match typ with
    | Public => SHash (H (uid ++ salt))                    (* "{}{}".format(uid, salt) *)
    | Pairwise => SHash (H (uid ++ sector ++ salt))        (* "{}{}{}".format(uid, sector_identifier, salt) *)
    | Ephemeral => SFresh fresh
    | UnknownType => SKeyError
    end.

  Definition grant_sub (r : creg) (redirect_uri uid salt : pystr) (fresh : nat) : subval :=
    sub_of (subtype_of r) uid salt (host_of (sector_source r redirect_uri)) fresh.
End Sub.

(* ---- hexdigest alphabet (for opacity) ---- *)
Definition hexchar (n : N) : N := if (n <? 10)%N then (48 + n)%N else (87 + n)%N.      (* lower case *)
Fixpoint hex_of_bytes (bs : list N) : pystr :=
  match bs with [] => [] | b :: r => hexchar (b / 16) :: hexchar (b mod 16) :: hex_of_bytes r end.
Definition is_hex (c : N) : bool := ((48 <=? c) && (c <=? 57) || (97 <=? c) && (c <=? 102))%N.

(* ---- correspondence: the hash as a finite table of (preimage, digest) pairs supplied by the harness ---- *)
Definition table_hash (tbl : list (pystr * pystr)) (x : pystr) : pystr :=
  match assoc x tbl with Some d => d | None => PS "?" end.
Definition table_host (tbl : list (pystr * pystr)) (x : pystr) : pystr :=
  match assoc x tbl with Some d => d | None => PS "?" end.
(* case: hash table, host table, client record, redirect_uri, uid, salt, observed sub (None for ephemeral: only freshness is judged) *)
Definition sub_case := (list (pystr * pystr) * list (pystr * pystr) * creg * pystr * pystr * pystr * option pystr)%type.
Definition chk_sub (c : sub_case) : bool :=
  let '(ht, hosts, r, redirect, uid, salt, observed) := c in
  match grant_sub (table_hash ht) (table_host hosts) r redirect uid salt O, observed with
  | SHash d, Some o => str_eqb d o
  | SFresh _, None => true
  | _, _ => false
  end.

(* ---- what the registration endpoint stores for a client that registered itself (Registration.client_registration_setup
   / _verify_sector_identifier): subject_type as asked, and for a sector_identifier_uri that passed verification both
   sector_identifier_uri and sector_id = that very URI (not its host: Authorization._subject_args takes the host later) ---- *)
Definition registered_record (asked_type asked_sector : option pystr) : creg :=
  mkCreg asked_type (match truthy asked_sector with Some u => Some u | None => None end) asked_sector.
Definition creg_eqb (a b : creg) : bool :=
  let oe := fun x y => match truthy x, truthy y with Some p, Some q => str_eqb p q | None, None => true | _, _ => false end in
  oe (r_subject_type a) (r_subject_type b) && oe (r_sector_id a) (r_sector_id b) && oe (r_sector_uri a) (r_sector_uri b).
(* case: asked subject_type, asked sector_identifier_uri, the record found in the client database afterwards *)
Definition chk_registered (c : option pystr * option pystr * creg) : bool :=
  let '(t, s, stored) := c in creg_eqb (registered_record t s) stored.

(* ==== configured subject minters (session_params.sub_func) ====
   EndpointContext.do_sub_func walks the configured dict in its order and stores, under each key, the object the entry
   names ({"class": C, "kwargs": {...}} -> C(kwargs...); {"function": f} -> f; an entry with neither is skipped);
   SessionManager.__init__ then fills in public_id / pairwise_id / ephemeral_id for the three standard keys that are
   still absent; create_grant calls sub_func[sub_type](uid, salt=<session salt>, sector_identifier=<sector host>).
   A minter is described by what it hashes: a fixed prefix, the user id, the sector (or not), and its own salt or -
   when it has none - the session salt handed in by create_grant.  The library's own classes / functions: *)
Inductive minter :=
| MHash (prefix : pystr) (use_sector : bool) (own_salt : option pystr)
| MFresh.
Definition cls_PublicID (salt : pystr) : minter := MHash [] false (Some salt).     (* PublicID(salt=..): public_id(uid, self.salt) *)
Definition cls_PairWiseID (salt : pystr) : minter := MHash [] true (Some salt).    (* PairWiseID(salt=..): pairwise_id(uid, sector, self.salt) *)
Definition fn_public_id : minter := MHash [] false None.
Definition fn_pairwise_id : minter := MHash [] true None.
Definition fn_ephemeral_id : minter := MFresh.

(* one entry of the configured dict *)
Inductive centry := EMinter (m : minter) | ESkipped.

(* do_sub_func: for key, args in sub_func.items(): self._sub_func[key] = ... *)
Fixpoint load_sub_func (conf : list (pystr * centry)) (acc : list (pystr * minter)) : list (pystr * minter) :=
  match conf with
  | [] => acc
  | (k, EMinter m) :: r => load_sub_func r (aset k m acc)
  | (_, ESkipped) :: r => load_sub_func r acc
  end.
(* SessionManager.__init__: if "public" not in sub_func: sub_func["public"] = public_id ... *)
Definition fill_default (k : pystr) (m : minter) (tbl : list (pystr * minter)) : list (pystr * minter) :=
  if has_key k tbl then tbl else aset k m tbl.
Definition minter_table (conf : list (pystr * centry)) : list (pystr * minter) :=
  fill_default (PS "ephemeral") fn_ephemeral_id
    (fill_default (PS "pairwise") fn_pairwise_id
      (fill_default (PS "public") fn_public_id (load_sub_func conf []))).

(* the dictionary key create_grant uses: _cinfo.get("subject_type") or "public" *)
Definition type_key_of (r : creg) : pystr :=
  match truthy (r_subject_type r) with None => PS "public" | Some t => t end.

(* SPECIFICATION side: what the configuration says about key k (the last entry for k that names a minter; a Python dict
   has one entry per key) and what serves a key nothing is configured for *)
Fixpoint configured (conf : list (pystr * centry)) (k : pystr) : option minter :=
  match conf with
  | [] => None
  | (k', e) :: r =>
      match configured r k with
      | Some m => Some m
      | None => if str_eqb k k' then match e with EMinter m => Some m | ESkipped => None end else None
      end
  end.
Definition default_minter (k : pystr) : option minter :=
  if str_eqb k (PS "public") then Some fn_public_id
  else if str_eqb k (PS "pairwise") then Some fn_pairwise_id
  else if str_eqb k (PS "ephemeral") then Some fn_ephemeral_id else None.

Section SubConf.
  Variable H : pystr -> pystr.
  Variable host_of : pystr -> pystr.

  (* m(uid, salt=salt, sector_identifier=sector) *)
  Definition mint (m : minter) (uid salt sector : pystr) (fresh : nat) : subval :=
    match m with
    | MHash p us own =>
        SHash (H (p ++ uid ++ (if us then sector else []) ++ match own with Some s => s | None => salt end))
    | MFresh => SFresh fresh
    end.

  (* sub_func[key](uid, salt=.., sector_identifier=..) on the table the provider built from its configuration *)
  Definition table_sub (conf : list (pystr * centry)) (key uid salt sector : pystr) (fresh : nat) : subval :=
    match assoc key (minter_table conf) with
    | Some m => mint m uid salt sector fresh
    | None => SKeyError
    end.

  Definition grant_sub_conf (conf : list (pystr * centry)) (r : creg) (redirect_uri uid salt : pystr) (fresh : nat) : subval :=
    table_sub conf (type_key_of r) uid salt (host_of (sector_source r redirect_uri)) fresh.
End SubConf.

(* ==== THE REQUEST as an explicit input ====
   What the authorization endpoint holds when it creates the grant is the ASSEMBLED request (front channel parameters, merged
   with a request object / replaced by a pushed request): its redirect_uri and every other member by name - protocol parameters
   and EXTENSION parameters alike (an authorization request may carry members the provider does not know; they stay in the
   message).  One place looks at it on the way to the sub:
     Authorization._subject_args(request):   _sector = cinfo.get("sector_id") or cinfo.get("sector_identifier_uri")
                                             if not _sector: _sector = request.get("redirect_uri", "")
                                             sub_type = cinfo.get("subject_type") or "public";  sector_identifier = urlparse(_sector).hostname or ""
     SessionManager.create_session / create_grant(auth_req, sub_type, sector_identifier):
                                             sub = sub_func[sub_type](user_id, salt=.., sector_identifier=sector_identifier)
   (create_grant once fell back on auth_req.get("sector_identifier_uri") when the registration yielded no sector host; repaired in
   /repo c7c9b10: the request is not consulted for the sector at all).  No member of the request is read - not sector_identifier_uri,
   subject_type / sub_type / salt / sub / user_id / claims ...; the members are an argument of the model all the same, and the
   theorems of Props/C18.v say it is irrelevant. *)
Record areq := mkAreq { rq_redirect : pystr; rq_members : list (pystr * pystr) }.
Definition plain_request (redirect_uri : pystr) : areq := mkAreq redirect_uri [].

Section SubRq.
  Variable H : pystr -> pystr.
  Variable host_of : pystr -> pystr.

  (* the sector_identifier _subject_args hands to create_session / create_grant *)
  Definition subject_sector (r : creg) (rq : areq) : pystr := host_of (sector_source r (rq_redirect rq)).
  (* the sector create_grant feeds to the minter: that one, whatever the request holds *)
  Definition grant_sector (r : creg) (rq : areq) : pystr := subject_sector r rq.

  (* the sub of the grant a request creates: built-in minters / configured minters *)
  Definition grant_sub_rq (r : creg) (rq : areq) (uid salt : pystr) (fresh : nat) : subval :=
    sub_of H (subtype_of r) uid salt (grant_sector r rq) fresh.
  Definition grant_sub_conf_rq (conf : list (pystr * centry)) (r : creg) (rq : areq) (uid salt : pystr) (fresh : nat) : subval :=
    table_sub H conf (type_key_of r) uid salt (grant_sector r rq) fresh.
End SubRq.

(* the registration names a sector of its own (sector_id or sector_identifier_uri): then not even the redirect_uri of the request plays a part *)
Definition has_sector (r : creg) : bool :=
  match truthy (r_sector_id r), truthy (r_sector_uri r) with None, None => false | _, _ => true end.

(* case: hash table, host table, configuration (in dict order; [] = nothing configured), client record, the assembled request,
   uid, session salt, observed sub (None: a fresh-value minter serves the client's type) *)
Definition rsub_case := (list (pystr * pystr) * list (pystr * pystr) * list (pystr * centry) * creg * areq * pystr * pystr * option pystr)%type.
Definition chk_rsub (c : rsub_case) : bool :=
  let '(ht, hosts, conf, r, rq, uid, salt, observed) := c in
  match grant_sub_conf_rq (table_hash ht) (table_host hosts) conf r rq uid salt O, observed with
  | SHash d, Some o => str_eqb d o
  | SFresh _, None => true
  | _, _ => false
  end.

(* ---- correspondence for configured providers ---- *)
(* case: hash table, host table, configuration (in dict order), client record, redirect_uri, uid, session salt, observed sub
   (None when the generator configured a fresh-value minter for the client's type: only freshness is judged) *)
Definition subc_case := (list (pystr * pystr) * list (pystr * pystr) * list (pystr * centry) * creg * pystr * pystr * pystr * option pystr)%type.
Definition chk_subc (c : subc_case) : bool :=
  let '(ht, hosts, conf, r, redirect, uid, salt, observed) := c in
  match grant_sub_conf (table_hash ht) (table_host hosts) conf r redirect uid salt O, observed with
  | SHash d, Some o => str_eqb d o
  | SFresh _, None => true
  | _, _ => false
  end.
(* case: hash table, configuration, key, uid, salt handed in, sector handed in, value the provider's sub_func[key] returned
   (None when the generator's configuration makes a fresh-value minter serve that key: only freshness is judged, by the oracle) *)
Definition table_case := (list (pystr * pystr) * list (pystr * centry) * pystr * pystr * pystr * pystr * option pystr)%type.
Definition chk_table (c : table_case) : bool :=
  let '(ht, conf, key, uid, salt, sector, observed) := c in
  match table_sub (table_hash ht) conf key uid salt sector O, observed with
  | SHash d, Some o => str_eqb d o
  | SFresh _, None => true
  | _, _ => false
  end.
(* the keys of the table, in order (dict order of the provider's sub_func after start-up) *)
Definition chk_table_keys (c : list (pystr * centry) * list pystr) : bool :=
  let '(conf, keys) := c in
  let ks := map fst (minter_table conf) in
  Nat.eqb (length ks) (length keys) && forallb (fun p => str_eqb (fst p) (snd p)) (combine ks keys).

(* ==== where the salt of PublicID / PairWiseID comes from, over the life of a deployment ====
   PairWiseID.__init__(salt="", filename="") (PublicID inherits it):
       if salt:                      self.salt = salt
       elif filename:
           if os.path.isfile(filename):   self.salt = open(filename).read()                     -- READ
           elif os.path.exists(filename): raise ConfigurationError                              -- not a file
           else: self.salt = rndstr(24); fp = open(filename, "w"); fp.write(self.salt)           -- CREATE
       else:                          self.salt = rndstr(24)
   The file system is an association list file name -> state (a name that is not listed does not exist).  A file's content is
   its decoded text BEFORE the newline translation of Python's text mode; open(..).read() translates "\r\n" and a lone "\r"
   to "\n" (universal newlines) and strips nothing; fp.write(text) of a file opened with "w" stores the text as it is
   ("\n" -> os.linesep = "\n" on POSIX). *)
Fixpoint read_text (raw : pystr) : pystr :=
  match raw with
  | [] => []
  | c :: r =>
      if (c =? 13)%N
      then 10%N :: match r with
                   | d :: r' => if (d =? 10)%N then read_text r' else read_text r
                   | [] => []
                   end
      else c :: read_text r
  end.
Definition write_text (text : pystr) : pystr := text.

Inductive fstate := FFile (raw : pystr) | FOther.            (* a regular file with this content | a directory, ... *)
Definition fsys := list (pystr * fstate).

Inductive salt_source := SrcExplicit (s : pystr) | SrcFile (fname : pystr) | SrcNone.
Definition source_of (salt filename : pystr) : salt_source :=
  match salt with
  | _ :: _ => SrcExplicit salt
  | [] => match filename with _ :: _ => SrcFile filename | [] => SrcNone end
  end.

Inductive init_result := InitOk (salt : pystr) (fs : fsys) | InitConfigurationError.
(* the salt an instance gets from its source, given the files it finds and its own random draw; and the files it leaves *)
Definition salt_of (src : salt_source) (fs : fsys) (rnd : pystr) : init_result :=
  match src with
  | SrcExplicit s => InitOk s fs
  | SrcFile f =>
      match assoc f fs with
      | Some (FFile raw) => InitOk (read_text raw) fs                       (* READ *)
      | Some FOther => InitConfigurationError
      | None => InitOk rnd (aset f (FFile (write_text rnd)) fs)              (* CREATE *)
      end
  | SrcNone => InitOk rnd fs
  end.

(* a deployment's session_params.sub_func: library classes described by their constructor arguments, everything else as before *)
Inductive dentry := DClass (pairwise : bool) (salt filename : pystr) | DPlain (e : centry).
Definition class_minter (pairwise : bool) (salt : pystr) : minter := if pairwise then cls_PairWiseID salt else cls_PublicID salt.

(* start-up of one provider instance (do_sub_func constructs the entries in dict order): the configuration the instance
   works with - in the terms of the sections above - and the files afterwards; None: the start-up fails.  rnd i is the
   random draw available to the i-th entry *)
Fixpoint start_up (d : list (pystr * dentry)) (i : nat) (rnd : nat -> pystr) (fs : fsys) : option (list (pystr * centry) * fsys) :=
  match d with
  | [] => Some ([], fs)
  | (k, DPlain e) :: r =>
      match start_up r (S i) rnd fs with Some (c, fs') => Some ((k, e) :: c, fs') | None => None end
  | (k, DClass pw salt fn) :: r =>
      match salt_of (source_of salt fn) fs (rnd i) with
      | InitOk s fs1 =>
          match start_up r (S i) rnd fs1 with Some (c, fs') => Some ((k, EMinter (class_minter pw s)) :: c, fs') | None => None end
      | InitConfigurationError => None
      end
  end.

(* every class entry has a salt that outlives the instance (given, or kept in a file) *)
Fixpoint persistent (d : list (pystr * dentry)) : bool :=
  match d with
  | [] => true
  | (_, DPlain _) :: r => persistent r
  | (_, DClass _ salt fn) :: r => match source_of salt fn with SrcNone => false | _ => persistent r end
  end.

(* ---- correspondence for the life cycle ---- *)
Definition fstate_eqb (a b : fstate) : bool :=
  match a, b with FFile x, FFile y => str_eqb x y | FOther, FOther => true | _, _ => false end.
Definition rnd_of (rnds : list pystr) (i : nat) : pystr := nth i rnds [].
(* case: the configuration, the draws, the files before the instance started, and what was seen afterwards: None = the
   start-up raised ConfigurationError, Some l = it succeeded and l lists the state of every file the configuration names
   (None = does not exist) *)
Definition start_case := (list (pystr * dentry) * list pystr * fsys * option (list (pystr * option fstate)))%type.
Definition chk_start (c : start_case) : bool :=
  let '(d, rnds, fs, observed) := c in
  match start_up d O (rnd_of rnds) fs, observed with
  | None, None => true
  | Some (_, fs'), Some l =>
      forallb (fun p => match assoc (fst p) fs', snd p with
                        | Some a, Some b => fstate_eqb a b
                        | None, None => true
                        | _, _ => false
                        end) l
  | _, _ => false
  end.
(* case: hash table, host table, configuration, draws, files before the instance started, client record, redirect_uri, uid,
   session salt, observed sub of a login at that instance (None: a fresh-value minter serves the client's type) *)
Definition life_case := (list (pystr * pystr) * list (pystr * pystr) * list (pystr * dentry) * list pystr * fsys * creg * pystr * pystr * pystr * option pystr)%type.
Definition chk_life (c : life_case) : bool :=
  let '(ht, hosts, d, rnds, fs, r, redirect, uid, salt, observed) := c in
  match start_up d O (rnd_of rnds) fs with
  | None => false
  | Some (conf, _) =>
      match grant_sub_conf (table_hash ht) (table_host hosts) conf r redirect uid salt O, observed with
      | SHash dg, Some o => str_eqb dg o
      | SFresh _, None => true
      | _, _ => false
      end
  end.
