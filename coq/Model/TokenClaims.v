(* Model/TokenClaims.v — what a JWT-formatted access / refresh token SAYS about the session it was minted for.
   A JWT-formatted token (idpyoidc.server.token.jwt_token.JWTToken) has two readers: the provider itself reads the
   embedded session id, the class and the expiry (Model/TokenFmt.v jwt_token / jwt_info) and resolves the session in
   its database; everybody else who holds the provider's public key (a resource server) validates the signature and
   reads the CLAIMS the provider signed next to them: client_id, sub, scope, aud.  Those claims are collected by
   Grant.payload_arguments / ExchangeGrant.payload_arguments (idpyoidc.server.session.grant) from the grant the
   token is minted in and the token object on record.  This file models the grants the minting paths of the token
   endpoint produce (code redemption and refresh: the grant of the authorization; RFC 8693 token exchange asked for
   by the client the subject token belongs to: the same grant; asked for by ANOTHER client: an exchange grant in a
   session of its own, SessionManager.create_exchange_session; client_credentials: a grant without user), the
   payload of a token minted in them, and what the introspection endpoint states about the same token.
   No proofs here; tied to the code by harness/c04_claims.py (every handed-out token of every path on real
   providers: chk_claims). *)
From Coq Require Import String.
From Verif Require Import Lib.Base Lib.PyStr Lib.Crypto Model.Lv Model.TokenFmt.
Open Scope string_scope.

Inductive gkind := GAuthz | GExchange | GClientCred.
(* a grant as the session manager holds it.  g_user / g_client: the branch of the session database the grant hangs in
   (what a session id of the grant resolves to); g_areq_client: client_id of the authorization request the grant
   carries (an exchange grant carries the authorization request of the grant the subject token came from);
   g_xreq_client: client_id of the token exchange request an exchange grant was created for *)
Record grant := mkGrant { g_kind : gkind; g_user : pystr; g_client : pystr; g_sub : pystr; g_resources : list pystr;
                          g_areq_client : option pystr; g_xreq_client : option pystr }.
(* how a grant came about *)
Inductive gpath :=
| PAuthz (user client sub : pystr)         (* authorization endpoint: create_session, grant.resources = [client] *)
| PExchange (orig : gpath) (by_ : pystr)   (* token exchange of a token of grant orig asked for by another client by_ *)
| PCc (client : pystr).                    (* client_credentials: branch ["client_credentials", client] *)
Definition cc_user : pystr := PS "client_credentials".
Fixpoint grant_of (p : gpath) : grant :=
  match p with
  | PAuthz u c s => mkGrant GAuthz u c s [c] (Some c) None
  | PExchange o b => let g := grant_of o in mkGrant GExchange (g_user g) b (g_sub g) [] (g_areq_client g) (Some b)
  | PCc c => mkGrant GClientCred cc_user c [] [] None None
  end.
(* the token object on record (SessionToken): its scope (mint_token: the scope the request was granted, else that of
   the token it is based on, else the grant's) and its resources (audience / resource of an exchange request) *)
Record tokrec := mkTok { t_scope : list pystr; t_resources : list pystr }.

(* ---- the claims ---- *)
Record claims := mkClaims { c_client : option pystr; c_sub : option pystr; c_scope : list pystr; c_aud : option (list pystr) }.
Definition nonempty (l : list pystr) : option (list pystr) := match l with [] => None | _ => Some l end.
Definition first_nonempty (a b : list pystr) : list pystr := match a with [] => b | _ => a end.
(* whose client_id the payload names: Grant - the authorization request's; ExchangeGrant - the EXCHANGE request's *)
Definition payload_client (g : grant) : option pystr :=
  match g_kind g with GExchange => g_xreq_client g | _ => g_areq_client g end.
Definition payload_arguments (g : grant) (t : tokrec) : claims :=
  mkClaims (payload_client g)
           (match payload_client g with Some _ => Some (g_sub g) | None => None end)
           (t_scope t)
           (match g_kind g with
            | GExchange => nonempty (g_resources g)      (* "aud": self.resources; an empty audience is not stated *)
            | _ => nonempty (first_nonempty (t_resources t) (g_resources g))
            end).
(* the refuted reading (Props/C04.v): the client named is that of the authorization request the grant CARRIES, the
   exchange request only fills in when there is none *)
Definition payload_client_carried (g : grant) : option pystr :=
  match g_areq_client g with Some c => Some c | None => g_xreq_client g end.
Definition payload_arguments_carried (g : grant) (t : tokrec) : claims :=
  mkClaims (payload_client_carried g)
           (match payload_client_carried g with Some _ => Some (g_sub g) | None => None end)
           (t_scope t) (c_aud (payload_arguments g t)).

(* ---- what the introspection endpoint states about the same token (Introspection._introspect): the client of the
   session the value resolves to, the grant's sub, the token's scope, the token's audience else the grant's ---- *)
Record istmt := mkIstmt { i_client : pystr; i_sub : pystr; i_scope : list pystr; i_aud : option (list pystr) }.
Definition introspection_of (g : grant) (t : tokrec) : istmt :=
  mkIstmt (g_client g) (g_sub g) (t_scope t) (nonempty (first_nonempty (t_resources t) (g_resources g))).

(* one accepted string, two readers: every party / scope / audience the claims STATE is the one of the session *)
Definition opt_is (x : pystr) (o : option pystr) : bool := match o with Some y => str_eqb x y | None => true end.
Definition claims_agree (c : claims) (i : istmt) : bool :=
  opt_is (i_client i) (c_client c) && opt_is (i_sub i) (c_sub c) && list_eqb str_eqb (c_scope c) (i_scope i)
  && match c_aud c with Some a => option_eqb (list_eqb str_eqb) (Some a) (i_aud i) | None => true end.

(* ---- a JWT-formatted token: the term the provider reads (TokenFmt.mint: class, session id, expiry under the
   handler's signing key) and the claims signed with it.  sid is a session id of the grant at path p ---- *)
Record jwt_full := mkJwtFull { j_tok : term; j_claims : claims }.
Definition mint_jwt (cfg : hconf) (c : tk) (nonce rnd sid exp : pystr) (p : gpath) (t : tokrec) : jwt_full :=
  mkJwtFull (mint cfg (MTok c) nonce rnd sid exp) (payload_arguments (grant_of p) t).

(* ---- checker for the generated cases: path, token on record (scope the response stated, audience asked for),
   observed: the (user, client) the provider resolves the value to, the claims of a JWT-formatted value (None: opaque
   slot), the introspection answer (None: not active) ---- *)
Definition oclaims := (option pystr * option pystr * list pystr * option (list pystr))%type.
Definition ointro := (pystr * pystr * list pystr * option (list pystr))%type.
Definition claims_case := (gpath * (list pystr * list pystr) * (pystr * pystr) * option oclaims * option ointro)%type.
Definition claims_tuple (c : claims) : oclaims := (c_client c, c_sub c, c_scope c, c_aud c).
Definition intro_tuple (i : istmt) : ointro := (i_client i, i_sub i, i_scope i, i_aud i).
Definition oclaims_eqb (a b : oclaims) : bool :=
  let '(c1, s1, sc1, a1) := a in let '(c2, s2, sc2, a2) := b in
  option_eqb str_eqb c1 c2 && option_eqb str_eqb s1 s2 && list_eqb str_eqb sc1 sc2 && option_eqb (list_eqb str_eqb) a1 a2.
Definition ointro_eqb (a b : ointro) : bool :=
  let '(c1, s1, sc1, a1) := a in let '(c2, s2, sc2, a2) := b in
  str_eqb c1 c2 && str_eqb s1 s2 && list_eqb str_eqb sc1 sc2 && option_eqb (list_eqb str_eqb) a1 a2.
Definition diag_claims (c : claims_case) : (pystr * pystr) * oclaims * ointro :=
  let '(p, (sc, res), _, _, _) := c in
  let g := grant_of p in let t := mkTok sc res in
  ((g_user g, g_client g), claims_tuple (payload_arguments g t), intro_tuple (introspection_of g t)).
Definition chk_claims (c : claims_case) : bool :=
  let '(p, (sc, res), (u, cl), oc, oi) := c in
  let g := grant_of p in let t := mkTok sc res in
  str_eqb (g_user g) u && str_eqb (g_client g) cl
  && match oc with Some o => oclaims_eqb (claims_tuple (payload_arguments g t)) o | None => true end
  && match oi with Some o => ointro_eqb (intro_tuple (introspection_of g t)) o | None => true end.
