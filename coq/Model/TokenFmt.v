(* Model/TokenFmt.v — token value formats: idpyoidc.server.token.DefaultToken (opaque:
   base64(Fernet(lv_pack(rnd, class, sid, exp)))) and JWTToken / IDToken (signed JWT with sid, token_class, exp),
   TokenHandler.get_handler's ordered fall-through, and the class / key separation they give.
   Cryptography is symbolic (Lib/Crypto.v): Fernet = AEnc, JWS = Sig.  No proofs here. *)
From Coq Require Import String.
From Verif Require Import Lib.Base Lib.PyStr Lib.Crypto Model.Lv.
Open Scope string_scope.

Inductive tk := KCode | KAccess | KRefresh.
Definition tk_eqb (a b : tk) : bool := match a, b with KCode, KCode | KAccess, KAccess | KRefresh, KRefresh => true | _, _ => false end.
Definition tk_name (c : tk) : pystr :=
  match c with KCode => PS "authorization_code" | KAccess => PS "access_token" | KRefresh => PS "refresh_token" end.
Definition tk_alt (c : tk) : pystr := match c with KCode => PS "A" | KAccess => PS "T" | KRefresh => PS "R" end.
Definition class_ok (h : tk) (c : pystr) : bool := str_eqb c (tk_name h) || str_eqb c (tk_alt h).

Inductive terr := EUnknownToken | EWrongClass | ETooOld | EKeyError.
Inductive tres (A : Type) := TOk (a : A) | TErr (e : terr).
Arguments TOk {A} a. Arguments TErr {A} e.

(* ---- DefaultToken ---- *)
(* __call__: the plaintext and the token *)
Definition opaque_plain (rnd : pystr) (cls : pystr) (sid exp : pystr) : pystr := lv_pack [rnd; cls; sid; exp].
Definition opaque_token (k : nat) (nonce rnd : pystr) (cls : tk) (sid exp : pystr) : term :=
  AEnc k nonce (Atom (opaque_plain rnd (tk_name cls) sid exp)).
(* info: split_token (decrypt, lv_unpack), dict(zip(["_id","token_class","sid","exp"], parts)), class check.
   Returns the session id if there is a third field. *)
Definition opaque_info (k : nat) (h : tk) (t : term) : tres (option pystr) :=
  match adec k t with
  | Some (Atom plain) =>
      match lv_unpack plain with
      | Ok (_ :: c :: rest) => if class_ok h c then TOk (match rest with sid :: _ => Some sid | [] => None end)
                               else TErr EWrongClass
      | Ok _ => TErr EKeyError                    (* fewer than two fields: _res["token_class"] *)
      | _ => TErr EUnknownToken                   (* lv_unpack raises ValueError: not caught as a TokenException *)
      end
  | _ => TErr EUnknownToken
  end.

(* ---- JWT based tokens: payload = (class claim or none, sid claim or none, exp) ---- *)
Definition jwt_payload (cls : option pystr) (sid : option pystr) (exp : pystr) : term :=
  Pair (match cls with Some c => Pair (Atom (PS "token_class")) (Atom c) | None => Atom (PS "no-class") end)
       (Pair (match sid with Some s => Pair (Atom (PS "sid")) (Atom s) | None => Atom (PS "no-sid") end) (Atom exp)).
Definition jwt_token (k : nat) (cls : option pystr) (sid : option pystr) (exp : pystr) : term := Sig k (jwt_payload cls sid exp).
Definition jwt_info (pubk : nat) (h : tk) (expired : pystr -> bool) (t : term) : tres (option pystr) :=
  match sig_verify pubk t with
  | Some (Pair c (Pair s (Atom exp))) =>
      match c with
      | Pair (Atom _) (Atom cl) =>
          if class_ok h cl then
            if expired exp then TErr ETooOld
            else TOk (match s with Pair (Atom _) (Atom sid) => Some sid | _ => None end)
          else TErr EWrongClass
      | _ => TErr EWrongClass          (* no token_class claim: `None not in [...]` *)
      end
  | _ => TErr EUnknownToken
  end.

(* ---- checkers for the correspondence ---- *)
(* the plaintext the real handler encrypted, recovered by the harness with the handler's own key *)
Definition chk_plain (c : pystr * pystr * pystr * pystr * pystr) : bool :=
  let '(rnd, cls, sid, exp, plain) := c in
  str_eqb (opaque_plain rnd cls sid exp) plain
  && res_eqb (list_eqb str_eqb) (lv_unpack plain) (Ok [rnd; cls; sid; exp]).
(* the outcome of handler[h].info on a token minted by handler[m]; same_key tells whether both use one key *)
Definition out_code (r : tres (option pystr)) : nat :=
  match r with TOk (Some _) => 0 | TOk None => 1 | TErr EUnknownToken => 2 | TErr EWrongClass => 3 | TErr ETooOld => 4 | TErr EKeyError => 5 end.
Definition tk_of (n : nat) : tk := match n with O => KCode | S O => KAccess | _ => KRefresh end.
Definition chk_info (c : nat * nat * bool * nat) : bool :=
  let '(h, m, same_key, observed) := c in
  let t := opaque_token (if same_key then 0 else m) (PS "n") (PS "rnd") (tk_of m) (PS "sid") (PS "99") in
  Nat.eqb (out_code (opaque_info (if same_key then 0 else h) (tk_of h) t)) observed.

(* ---- SLOTS: the places where an endpoint takes a token value, and the handler it asks ----
   A provider has one handler per class slot (opaque with its Fernet key, or JWT with its signing key) and an
   ID Token handler.  SessionManager.get_session_info_by_token(value, handler_key=K) asks handler K only;
   without handler_key it goes through TokenHandler.get_handler: the handlers in handler_order, first that
   does not raise.  The slots:
     SCode      token endpoint, `code`                       handler_key = authorization_code
     SRefresh   token endpoint, `refresh_token`              handler_key = refresh_token
     SUserinfo  userinfo, the bearer token that is the request's subject      handler_key = access_token
     SBearer    `Authorization: Bearer` / body `access_token` offered as the CLIENT'S CREDENTIAL (client
                authentication methods bearer_header / bearer_body, endpoint.get_client_id_from_token)
                                                             handler_key = access_token
     SGeneric   the `token` parameter of introspection / revocation: class-agnostic lookup *)
Inductive hspec := HOpaque (k : nat) | HJwt (k : nat).
Record hconf := mkHconf { h_code : hspec; h_access : hspec; h_refresh : hspec; h_idt : nat }.
Definition h_of (cfg : hconf) (c : tk) : hspec :=
  match c with KCode => h_code cfg | KAccess => h_access cfg | KRefresh => h_refresh cfg end.
Inductive mclass := MTok (c : tk) | MIdToken.
(* what the provider mints in class m for session sid *)
Definition mint (cfg : hconf) (m : mclass) (nonce rnd sid exp : pystr) : term :=
  match m with
  | MTok c => match h_of cfg c with
              | HOpaque k => opaque_token k nonce rnd c sid exp
              | HJwt k => jwt_token k (Some (tk_name c)) (Some sid) exp
              end
  | MIdToken => jwt_token (h_idt cfg) None (Some sid) exp
  end.
Definition handler_info (cfg : hconf) (expired : pystr -> bool) (h : tk) (t : term) : tres (option pystr) :=
  match h_of cfg h with HOpaque k => opaque_info k h t | HJwt k => jwt_info k h expired t end.
(* IDToken.info: signature and expiry, NO class check; the session id if the payload has one *)
Definition idt_info (pubk : nat) (expired : pystr -> bool) (t : term) : tres (option pystr) :=
  match sig_verify pubk t with
  | Some (Pair _ (Pair s (Atom exp))) =>
      if expired exp then TErr ETooOld else TOk (match s with Pair (Atom _) (Atom sid) => Some sid | _ => None end)
  | _ => TErr EUnknownToken
  end.
Definition is_ok {A} (r : tres A) : bool := match r with TOk _ => true | TErr _ => false end.
(* TokenHandler.get_handler with handler_order = [authorization_code, access_token, refresh_token, id_token] *)
Definition generic_info (cfg : hconf) (expired : pystr -> bool) (t : term) : tres (option pystr) :=
  if is_ok (handler_info cfg expired KCode t) then handler_info cfg expired KCode t
  else if is_ok (handler_info cfg expired KAccess t) then handler_info cfg expired KAccess t
  else if is_ok (handler_info cfg expired KRefresh t) then handler_info cfg expired KRefresh t
  else if is_ok (idt_info (h_idt cfg) expired t) then idt_info (h_idt cfg) expired t
  else TErr EUnknownToken.

Inductive slot := SCode | SRefresh | SUserinfo | SBearer | SGeneric.
Definition slot_handler (s : slot) : option tk :=
  match s with SCode => Some KCode | SRefresh => Some KRefresh | SUserinfo => Some KAccess | SBearer => Some KAccess
             | SGeneric => None end.
Definition slot_resolve (cfg : hconf) (expired : pystr -> bool) (s : slot) (t : term) : tres (option pystr) :=
  match slot_handler s with Some h => handler_info cfg expired h t | None => generic_info cfg expired t end.
(* the session a value resolves to at a slot: get_session_info_by_token raises WrongTokenClass without a sid,
   get_session_info raises for a session id the database does not hold.  db: session id -> client id *)
Definition slot_client (cfg : hconf) (expired : pystr -> bool) (db : list (pystr * pystr)) (s : slot) (t : term) : option pystr :=
  match slot_resolve cfg expired s t with
  | TOk (Some sid) => assoc sid db
  | _ => None
  end.

(* correspondence: a provider configuration of the harness, a genuine token of class m of this provider
   (foreign = false) or of a second instance, offered at a slot; observed = the client the real provider
   resolved / authenticated, if any.
   kinds: per class slot 0 = opaque, 1 = JWT; distinct: the opaque handlers have a key each;
   idt_own_key: ID Tokens are signed with another key than JWT access tokens (another algorithm);
   foreign_keys: the other instance has other opaque keys (the signing keys come from one key file) *)
Definition cfg_of (kc ka kr : nat) (distinct idt_own_key : bool) (off : nat) : hconf :=
  let hs (n i : nat) := match n with O => HOpaque (off + (if distinct then i else 0)) | _ => HJwt 50 end in
  mkHconf (hs kc 0%nat) (hs ka 1%nat) (hs kr 2%nat) (if idt_own_key then 51%nat else 50%nat).
Definition mclass_of (n : nat) : mclass := match n with 3%nat => MIdToken | _ => MTok (tk_of n) end.
Definition slot_of (n : nat) : slot := match n with 0%nat => SCode | 1%nat => SRefresh | 2%nat => SUserinfo | 3%nat => SBearer | _ => SGeneric end.
Definition chk_slot (c : (nat * nat * nat * bool * bool) * (nat * bool * bool) * nat * pystr * option pystr) : bool :=
  let '((kc, ka, kr, distinct, idt_own_key), (m, foreign, foreign_keys), s, client, observed) := c in
  let cfg := cfg_of kc ka kr distinct idt_own_key 0%nat in
  let cfg' := if foreign then cfg_of kc ka kr distinct idt_own_key (if foreign_keys then 100%nat else 0%nat) else cfg in
  let sid := if foreign then PS "sid of the other instance" else PS "sid" in
  let t := mint cfg' (mclass_of m) (PS "n") (PS "rnd") sid (PS "99") in
  option_eqb str_eqb (slot_client cfg (fun _ => false) [(PS "sid", client)] (slot_of s) t) observed.
