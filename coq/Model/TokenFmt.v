(* Model/TokenFmt.v — token value formats: idpyoidc.server.token.DefaultToken (opaque:
   base64(Fernet(lv_pack(rnd, class, sid, exp)))) and JWTToken / IDToken (signed JWT with sid, token_class, exp),
   TokenHandler.get_handler's ordered fall-through, and the class / key separation they give.
   Cryptography is symbolic (Lib/Crypto.v): Fernet = AEnc, JWS = Sig.  No proofs here. *)
From Coq Require Import String.
From Verif Require Import Lib.Base Lib.PyStr Lib.Crypto Model.Lv.
Open Scope string_scope.

Inductive tk := KCode | KAccess | KRefresh.
Definition tk_eqb (a b : tk) : bool := match a, b with KCode, KCode | KAccess, KAccess | KRefresh, KRefresh => true | _, _ => false end.
Definition tk_name (c : tk) : pystr :=
  match c with KCode => PS "authorization_code" | KAccess => PS "access_token" | KRefresh => PS "refresh_token" end.
Definition tk_alt (c : tk) : pystr := match c with KCode => PS "A" | KAccess => PS "T" | KRefresh => PS "R" end.
Definition class_ok (h : tk) (c : pystr) : bool := str_eqb c (tk_name h) || str_eqb c (tk_alt h).

Inductive terr := EUnknownToken | EWrongClass | ETooOld | EKeyError.
Inductive tres (A : Type) := TOk (a : A) | TErr (e : terr).
Arguments TOk {A} a. Arguments TErr {A} e.

(* ---- DefaultToken ---- *)
(* __call__: the plaintext and the token *)
Definition opaque_plain (rnd : pystr) (cls : pystr) (sid exp : pystr) : pystr := lv_pack [rnd; cls; sid; exp].
Definition opaque_token (k : nat) (nonce rnd : pystr) (cls : tk) (sid exp : pystr) : term :=
  AEnc k nonce (Atom (opaque_plain rnd (tk_name cls) sid exp)).
(* info: split_token (decrypt, lv_unpack), dict(zip(["_id","token_class","sid","exp"], parts)), class check.
   Returns the session id if there is a third field. *)
Definition opaque_info (k : nat) (h : tk) (t : term) : tres (option pystr) :=
  match adec k t with
  | Some (Atom plain) =>
      match lv_unpack plain with
      | Ok (_ :: c :: rest) => if class_ok h c then TOk (match rest with sid :: _ => Some sid | [] => None end)
                               else TErr EWrongClass
      | Ok _ => TErr EKeyError                    (* fewer than two fields: _res["token_class"] *)
      | _ => TErr EUnknownToken                   (* lv_unpack raises ValueError: not caught as a TokenException *)
      end
  | _ => TErr EUnknownToken
  end.

(* ---- JWT based tokens: payload = (class claim or none, sid claim or none, exp) ---- *)
Definition jwt_payload (cls : option pystr) (sid : option pystr) (exp : pystr) : term :=
  Pair (match cls with Some c => Pair (Atom (PS "token_class")) (Atom c) | None => Atom (PS "no-class") end)
       (Pair (match sid with Some s => Pair (Atom (PS "sid")) (Atom s) | None => Atom (PS "no-sid") end) (Atom exp)).
Definition jwt_token (k : nat) (cls : option pystr) (sid : option pystr) (exp : pystr) : term := Sig k (jwt_payload cls sid exp).
Definition jwt_info (pubk : nat) (h : tk) (expired : pystr -> bool) (t : term) : tres (option pystr) :=
  match sig_verify pubk t with
  | Some (Pair c (Pair s (Atom exp))) =>
      match c with
      | Pair (Atom _) (Atom cl) =>
          if class_ok h cl then
            if expired exp then TErr ETooOld
            else TOk (match s with Pair (Atom _) (Atom sid) => Some sid | _ => None end)
          else TErr EWrongClass
      | _ => TErr EWrongClass          (* no token_class claim: `None not in [...]` *)
      end
  | _ => TErr EUnknownToken
  end.

(* ---- checkers for the correspondence ---- *)
(* the plaintext the real handler encrypted, recovered by the harness with the handler's own key *)
Definition chk_plain (c : pystr * pystr * pystr * pystr * pystr) : bool :=
  let '(rnd, cls, sid, exp, plain) := c in
  str_eqb (opaque_plain rnd cls sid exp) plain
  && res_eqb (list_eqb str_eqb) (lv_unpack plain) (Ok [rnd; cls; sid; exp]).
(* the outcome of handler[h].info on a token minted by handler[m]; same_key tells whether both use one key *)
Definition out_code (r : tres (option pystr)) : nat :=
  match r with TOk (Some _) => 0 | TOk None => 1 | TErr EUnknownToken => 2 | TErr EWrongClass => 3 | TErr ETooOld => 4 | TErr EKeyError => 5 end.
Definition tk_of (n : nat) : tk := match n with O => KCode | S O => KAccess | _ => KRefresh end.
Definition chk_info (c : nat * nat * bool * nat) : bool :=
  let '(h, m, same_key, observed) := c in
  let t := opaque_token (if same_key then 0 else m) (PS "n") (PS "rnd") (tk_of m) (PS "sid") (PS "99") in
  Nat.eqb (out_code (opaque_info (if same_key then 0 else h) (tk_of h) t)) observed.

(* ---- SLOTS: the places where an endpoint takes a token value, and the handler it asks ----
   A provider has one handler per class slot (opaque with its Fernet key, or JWT with its signing key) and an
   ID Token handler.  SessionManager.get_session_info_by_token(value, handler_key=K) asks handler K only;
   without handler_key it goes through TokenHandler.get_handler: the handlers in handler_order, first that
   does not raise.  The slots:
     SCode      token endpoint, `code`                       handler_key = authorization_code
     SRefresh   token endpoint, `refresh_token`              handler_key = refresh_token
     SUserinfo  userinfo, the bearer token that is the request's subject      handler_key = access_token
     SBearer    `Authorization: Bearer` / body `access_token` offered as the CLIENT'S CREDENTIAL (client
                authentication methods bearer_header / bearer_body, endpoint.get_client_id_from_token)
                                                             handler_key = access_token
     SGeneric   the `token` parameter of introspection / revocation: class-agnostic lookup *)
Inductive hspec := HOpaque (k : nat) | HJwt (k : nat).
Record hconf := mkHconf { h_code : hspec; h_access : hspec; h_refresh : hspec; h_idt : nat }.
Definition h_of (cfg : hconf) (c : tk) : hspec :=
  match c with KCode => h_code cfg | KAccess => h_access cfg | KRefresh => h_refresh cfg end.
Inductive mclass := MTok (c : tk) | MIdToken.
(* what the provider mints in class m for session sid *)
Definition mint (cfg : hconf) (m : mclass) (nonce rnd sid exp : pystr) : term :=
  match m with
  | MTok c => match h_of cfg c with
              | HOpaque k => opaque_token k nonce rnd c sid exp
              | HJwt k => jwt_token k (Some (tk_name c)) (Some sid) exp
              end
  | MIdToken => jwt_token (h_idt cfg) None (Some sid) exp
  end.
Definition handler_info (cfg : hconf) (expired : pystr -> bool) (h : tk) (t : term) : tres (option pystr) :=
  match h_of cfg h with HOpaque k => opaque_info k h t | HJwt k => jwt_info k h expired t end.
(* IDToken.info: signature and expiry, NO class check; the session id if the payload has one *)
Definition idt_info (pubk : nat) (expired : pystr -> bool) (t : term) : tres (option pystr) :=
  match sig_verify pubk t with
  | Some (Pair _ (Pair s (Atom exp))) =>
      if expired exp then TErr ETooOld else TOk (match s with Pair (Atom _) (Atom sid) => Some sid | _ => None end)
  | _ => TErr EUnknownToken
  end.
Definition is_ok {A} (r : tres A) : bool := match r with TOk _ => true | TErr _ => false end.
(* TokenHandler.get_handler with handler_order = [authorization_code, access_token, refresh_token, id_token] *)
Definition generic_info (cfg : hconf) (expired : pystr -> bool) (t : term) : tres (option pystr) :=
  if is_ok (handler_info cfg expired KCode t) then handler_info cfg expired KCode t
  else if is_ok (handler_info cfg expired KAccess t) then handler_info cfg expired KAccess t
  else if is_ok (handler_info cfg expired KRefresh t) then handler_info cfg expired KRefresh t
  else if is_ok (idt_info (h_idt cfg) expired t) then idt_info (h_idt cfg) expired t
  else TErr EUnknownToken.

Inductive slot := SCode | SRefresh | SUserinfo | SBearer | SGeneric.
Definition slot_handler (s : slot) : option tk :=
  match s with SCode => Some KCode | SRefresh => Some KRefresh | SUserinfo => Some KAccess | SBearer => Some KAccess
             | SGeneric => None end.
Definition slot_resolve (cfg : hconf) (expired : pystr -> bool) (s : slot) (t : term) : tres (option pystr) :=
  match slot_handler s with Some h => handler_info cfg expired h t | None => generic_info cfg expired t end.
(* the session a value resolves to at a slot: get_session_info_by_token raises WrongTokenClass without a sid,
   get_session_info raises for a session id the database does not hold.  db: session id -> client id *)
Definition slot_client (cfg : hconf) (expired : pystr -> bool) (db : list (pystr * pystr)) (s : slot) (t : term) : option pystr :=
  match slot_resolve cfg expired s t with
  | TOk (Some sid) => assoc sid db
  | _ => None
  end.

(* correspondence: a provider configuration of the harness, a genuine token of class m of this provider
   (foreign = false) or of a second instance, offered at a slot; observed = the client the real provider
   resolved / authenticated, if any.
   kinds: per class slot 0 = opaque, 1 = JWT; distinct: the opaque handlers have a key each;
   idt_own_key: ID Tokens are signed with another key than JWT access tokens (another algorithm);
   foreign_keys: the other instance has other opaque keys (the signing keys come from one key file) *)
Definition cfg_of (kc ka kr : nat) (distinct idt_own_key : bool) (off : nat) : hconf :=
  let hs (n i : nat) := match n with O => HOpaque (off + (if distinct then i else 0)) | _ => HJwt 50 end in
  mkHconf (hs kc 0%nat) (hs ka 1%nat) (hs kr 2%nat) (if idt_own_key then 51%nat else 50%nat).
Definition mclass_of (n : nat) : mclass := match n with 3%nat => MIdToken | _ => MTok (tk_of n) end.
Definition slot_of (n : nat) : slot := match n with 0%nat => SCode | 1%nat => SRefresh | 2%nat => SUserinfo | 3%nat => SBearer | _ => SGeneric end.
Definition chk_slot (c : (nat * nat * nat * bool * bool) * (nat * bool * bool) * nat * pystr * option pystr) : bool :=
  let '((kc, ka, kr, distinct, idt_own_key), (m, foreign, foreign_keys), s, client, observed) := c in
  let cfg := cfg_of kc ka kr distinct idt_own_key 0%nat in
  let cfg' := if foreign then cfg_of kc ka kr distinct idt_own_key (if foreign_keys then 100%nat else 0%nat) else cfg in
  let sid := if foreign then PS "sid of the other instance" else PS "sid" in
  let t := mint cfg' (mclass_of m) (PS "n") (PS "rnd") sid (PS "99") in
  option_eqb str_eqb (slot_client cfg (fun _ => false) [(PS "sid", client)] (slot_of s) t) observed.

(* ================================================================== REQUESTS IN FLIGHT
   The endpoint objects that resolve tokens (userinfo, introspection, token_revocation, token) are the shared,
   long-lived instances of the server; a host that serves more than one request at a time calls, per request,
   parse_request, process_request and do_response, and the calls that belong to different requests interleave
   freely.  What an endpoint answers is modelled as a state-passing machine: every call gets and returns the
   state of the endpoint object (and of everything the endpoints share: session manager, handlers).  The faithful
   model of the code (tep_model) has the one-point state: parse_request resolves the value the request carries
   (bearer credential at userinfo, post_parse_request of the token endpoint), process_request resolves the value
   the request carries ONCE MORE, nothing is kept between the calls.  The session an answer stands for is
   therefore a function of the presented value alone (tanswer1).  No proofs here; tied to the code by the
   flights of harness/drv_C04.py (schedules run on the real endpoints). *)
Record sess := mkSess { s_id : nat; s_user : pystr; s_client : pystr }.
(* the session a value resolves to at a slot; db: session id -> session *)
Definition slot_session {A : Type} (cfg : hconf) (expired : pystr -> bool) (db : list (pystr * A)) (s : slot) (t : term) : option A :=
  match slot_resolve cfg expired s t with
  | TOk (Some sid) => assoc sid db
  | _ => None
  end.
(* which class the class-agnostic lookup found (the class of the token object the value stands for) *)
Definition generic_class (cfg : hconf) (expired : pystr -> bool) (t : term) : option mclass :=
  if is_ok (handler_info cfg expired KCode t) then Some (MTok KCode)
  else if is_ok (handler_info cfg expired KAccess t) then Some (MTok KAccess)
  else if is_ok (handler_info cfg expired KRefresh t) then Some (MTok KRefresh)
  else if is_ok (idt_info (h_idt cfg) expired t) then Some MIdToken
  else None.

(* THE ASKER (introspection).  The introspection endpoint answers the authenticated client that ASKS about a value;
   this need not be the client the token was minted for: a protected resource that validates the bearer tokens it is
   handed is a registered client of its own.  Whether an asker gets an answer at all is the audience rule:
   the endpoint's enforce_audience_restriction setting (p_enforce_default), overridden by the asker's own registration
   (p_enforce), and - when enforced - membership of the asker in the audience of the token (the token object's
   `resources`, else the grant's; default: the session's own client).  p_aud: (session, class) -> audience on record *)
Record prov := mkProv { p_cfg : hconf; p_expired : pystr -> bool; p_db : list (pystr * sess);
                        p_enforce_default : bool; p_enforce : list (pystr * bool); p_aud : list (nat * nat * list pystr) }.
Definition tk_num (c : tk) : nat := match c with KCode => 0%nat | KAccess => 1%nat | KRefresh => 2%nat end.
Fixpoint aud_lookup (g c : nat) (l : list (nat * nat * list pystr)) : option (list pystr) :=
  match l with
  | [] => None
  | (g', c', a) :: r => if Nat.eqb g g' && Nat.eqb c c' then Some a else aud_lookup g c r
  end.
Definition tok_aud (P : prov) (s : sess) (t : term) : list pystr :=
  match generic_class (p_cfg P) (p_expired P) t with
  | Some (MTok c) => match aud_lookup (s_id s) (tk_num c) (p_aud P) with Some a => a | None => [s_client s] end
  | _ => []
  end.
Definition enforced (P : prov) (asker : pystr) : bool :=
  match assoc asker (p_enforce P) with Some b => b | None => p_enforce_default P end.
(* may the asker be told about the token of session s that the value t stands for? *)
Definition may_ask (P : prov) (s : sess) (t : term) (asker : pystr) : bool :=
  negb (enforced P asker) || existsb (str_eqb asker) (tok_aud P s t).
Inductive tep := EpUserinfo | EpIntrospect | EpRevoke | EpRefresh | EpCode.
Definition ep_slot (e : tep) : slot :=
  match e with EpUserinfo => SUserinfo | EpIntrospect | EpRevoke => SGeneric | EpRefresh => SRefresh | EpCode => SCode end.
(* one request: the endpoint, the value it presents, the client its own credential (secret) authenticates *)
Record treq := mkTreq { r_ep : tep; r_tok : term; r_by : pystr }.
Inductive tanswer := TRefused | TSession (s : sess).

(* classes an endpoint acts on after the class-agnostic lookup: introspection reports access and refresh tokens,
   revocation takes codes, access and refresh tokens *)
Definition ep_class_ok (P : prov) (r : treq) : bool :=
  match r_ep r with
  | EpIntrospect => match generic_class (p_cfg P) (p_expired P) (r_tok r) with Some (MTok KAccess) | Some (MTok KRefresh) => true | _ => false end
  | EpRevoke => match generic_class (p_cfg P) (p_expired P) (r_tok r) with Some (MTok _) => true | _ => false end
  | _ => true
  end.
(* what the introspection endpoint has to say about a value, before anybody asked: the session the value stands
   for (class-agnostic lookup, access and refresh tokens only).  No asker in it. *)
Definition tintrospect_view (P : prov) (t : term) : option sess :=
  match slot_session (p_cfg P) (p_expired P) (p_db P) SGeneric t with
  | Some s => if ep_class_ok P (mkTreq EpIntrospect t []) then Some s else None
  | None => None
  end.
(* process_request: the session the value THIS request carries stands for; the token and revocation endpoints serve
   the client the token was minted for only (userinfo: the client credential is the token itself); introspection
   answers every asker the audience rule admits - the asker (r_by) decides WHETHER there is an answer, the answer is
   the session of the token *)
Definition tprocess (P : prov) (r : treq) : tanswer :=
  match slot_session (p_cfg P) (p_expired P) (p_db P) (ep_slot (r_ep r)) (r_tok r) with
  | Some s =>
      match r_ep r with
      | EpUserinfo => TSession s
      | EpIntrospect => if may_ask P s (r_tok r) (r_by r) && ep_class_ok P r then TSession s else TRefused
      | _ => if str_eqb (s_client s) (r_by r) && ep_class_ok P r then TSession s else TRefused
      end
  | None => TRefused
  end.
(* the refuted variant (Props/C04.v): an introspection that names the ASKER as the client of the session *)
Definition tprocess_asker_named (P : prov) (r : treq) : tanswer :=
  match tprocess P r with
  | TSession s => match r_ep r with EpIntrospect => TSession (mkSess (s_id s) (s_user s) (r_by r)) | _ => TSession s end
  | TRefused => TRefused
  end.
(* parse_request: userinfo authenticates the bearer credential (slot SBearer), the token endpoint's
   post_parse_request looks the code / refresh token up; introspection and revocation check the secret only *)
Definition tparse (P : prov) (r : treq) : bool :=
  match r_ep r with
  | EpUserinfo => match slot_session (p_cfg P) (p_expired P) (p_db P) SBearer (r_tok r) with Some _ => true | None => false end
  | EpRefresh | EpCode => match slot_session (p_cfg P) (p_expired P) (p_db P) (ep_slot (r_ep r)) (r_tok r) with Some _ => true | None => false end
  | _ => true
  end.
(* the answer to a request that is alone at the provider *)
Definition tanswer1 (P : prov) (r : treq) : tanswer := if tparse P r then tprocess P r else TRefused.

(* ---- an endpoint object: its state and its calls ---- *)
Record tendpoint (S : Type) := mk_tendpoint {
  te_init : S;
  te_parse : S -> treq -> S * bool;            (* parse_request: accepted? *)
  te_process : S -> treq -> S * tanswer;       (* process_request *)
  te_respond : S -> treq -> tanswer -> S * tanswer }.   (* do_response *)
Arguments te_init {S}. Arguments te_parse {S}. Arguments te_process {S}. Arguments te_respond {S}.
(* the faithful model: no state *)
Definition tep_model (P : prov) : tendpoint unit :=
  mk_tendpoint unit tt (fun _ r => (tt, tparse P r)) (fun _ r => (tt, tprocess P r)) (fun _ _ a => (tt, a)).
(* an endpoint object that does keep something between calls: what parse_request resolved, used by the next
   process_request whatever request that belongs to (for the refuted variant in Props/C04.v) *)
Definition tep_remember (P : prov) : tendpoint (option tanswer) :=
  mk_tendpoint (option tanswer) None
    (fun s r => if tparse P r then (Some (tprocess P r), true) else (s, false))
    (fun s r => (None, match s with Some a => a | None => tprocess P r end))
    (fun s _ a => (s, a)).

(* ---- the host: requests by number, what it keeps per request between calls ---- *)
Inductive tevent := TvParse (i : nat) | TvProcess (i : nat) | TvRespond (i : nat).
Inductive tslot := TsParsed | TsAnswer (a : tanswer).
Definition ttable := list (nat * tslot).
Fixpoint ttget (i : nat) (t : ttable) : option tslot :=
  match t with [] => None | (j, s) :: r => if Nat.eqb i j then Some s else ttget i r end.
Fixpoint ttdel (i : nat) (t : ttable) : ttable :=
  match t with [] => [] | (j, s) :: r => if Nat.eqb i j then ttdel i r else (j, s) :: ttdel i r end.
Definition ttset (i : nat) (s : tslot) (t : ttable) : ttable := (i, s) :: ttdel i t.
(* one call; returns the new state, the new table, and what is handed out (request number, answer) *)
Definition tstep {S} (E : tendpoint S) (reqs : list treq) (st : S * ttable) (ev : tevent) : (S * ttable) * list (nat * tanswer) :=
  let '(s, t) := st in
  match ev with
  | TvParse i =>
      match nth_error reqs i with
      | None => (st, [])
      | Some r => let '(s', ok) := te_parse E s r in
                  if ok then ((s', ttset i TsParsed t), []) else ((s', ttdel i t), [(i, TRefused)])
      end
  | TvProcess i =>
      match nth_error reqs i, ttget i t with
      | Some r, Some TsParsed => let '(s', a) := te_process E s r in ((s', ttset i (TsAnswer a) t), [])
      | _, _ => (st, [])
      end
  | TvRespond i =>
      match nth_error reqs i, ttget i t with
      | Some r, Some (TsAnswer a) => let '(s', b) := te_respond E s r a in ((s', ttdel i t), [(i, b)])
      | _, _ => (st, [])
      end
  end.
Fixpoint trun_from {S} (E : tendpoint S) (reqs : list treq) (st : S * ttable) (sched : list tevent) : list (nat * tanswer) :=
  match sched with
  | [] => []
  | ev :: rest => let '(st', out) := tstep E reqs st ev in out ++ trun_from E reqs st' rest
  end.
Definition run_tflight {S} (E : tendpoint S) (reqs : list treq) (sched : list tevent) : list (nat * tanswer) :=
  trun_from E reqs (te_init E, []) sched.
(* the same request, alone at a fresh endpoint *)
Definition town_answer {S} (E : tendpoint S) (r : treq) : tanswer :=
  let '(s1, ok) := te_parse E (te_init E) r in
  if ok then let '(s2, a) := te_process E s1 r in snd (te_respond E s2 r a) else TRefused.

(* ---- checker for the generated flights ---- *)
Inductive tokspec := TMinted (m : nat) (sid : pystr) | TForeign (m : nat) (foreign_keys : bool) | TGarbage.
Record tspec := mkTspec { ts_ep : nat; ts_tok : tokspec; ts_by : pystr }.
Definition tep_of (n : nat) : tep :=
  match n with 0%nat => EpUserinfo | 1%nat => EpIntrospect | 2%nat => EpRevoke | 3%nat => EpRefresh | _ => EpCode end.
(* the audience configuration of a case: the endpoint's setting, the per-client overrides, the audiences on record *)
Definition audcase := (bool * list (pystr * bool) * list (nat * nat * list pystr))%type.
Definition tfcase := ((nat * nat * nat * bool * bool) * list (pystr * sess) * audcase * list tspec * list tevent * list (nat * option nat))%type.
Definition treq_of (c : nat * nat * nat * bool * bool) (q : tspec) : treq :=
  let '(kc, ka, kr, distinct, idt_own_key) := c in
  let cfg := cfg_of kc ka kr distinct idt_own_key 0%nat in
  let t := match ts_tok q with
           | TMinted m sid => mint cfg (mclass_of m) (PS "n") (PS "rnd") sid (PS "99")
           | TForeign m fk => mint (cfg_of kc ka kr distinct idt_own_key (if fk then 100%nat else 0%nat)) (mclass_of m)
                                   (PS "n") (PS "rnd") (PS "sid of the other instance") (PS "99")
           | TGarbage => Atom (PS "garbage")
           end in
  mkTreq (tep_of (ts_ep q)) t (ts_by q).
Definition prov_of (c : nat * nat * nat * bool * bool) (db : list (pystr * sess)) (ac : audcase) : prov :=
  let '(kc, ka, kr, distinct, idt_own_key) := c in
  let '(dflt, over, auds) := ac in
  mkProv (cfg_of kc ka kr distinct idt_own_key 0%nat) (fun _ => false) db dflt over auds.
Definition tanswer_id (a : tanswer) : option nat := match a with TRefused => None | TSession s => Some (s_id s) end.
Fixpoint tfind (i : nat) (l : list (nat * tanswer)) : option tanswer :=
  match l with [] => None | (j, a) :: r => if Nat.eqb i j then Some a else tfind i r end.
Definition diag_tflight (c : tfcase) : list (nat * option nat) :=
  let '(k, db, ac, specs, sched, obs) := c in
  map (fun x => (fst x, tanswer_id (snd x))) (run_tflight (tep_model (prov_of k db ac)) (map (treq_of k) specs) sched).
Definition chk_tflight (c : tfcase) : bool :=
  let '(k, db, ac, specs, sched, obs) := c in
  let P := prov_of k db ac in
  let reqs := map (treq_of k) specs in
  let out := run_tflight (tep_model P) reqs sched in
  Nat.eqb (length out) (length obs)
  (* what the machine hands out for request i is what the real endpoint handed out for it ... *)
  && forallb (fun o => match tfind (fst o) out with Some a => option_eqb Nat.eqb (tanswer_id a) (snd o) | None => false end) obs
  (* ... and, independently of the machine, the answer of that request alone *)
  && forallb (fun o => match nth_error reqs (fst o) with Some r => option_eqb Nat.eqb (tanswer_id (tanswer1 P r)) (snd o) | None => false end) obs.

(* ================================================================== WHERE THE HANDLER KEYS COME FROM
   A provider instance gets the key of each opaque class handler (DefaultToken) and of its session manager either
   from the deployment (token_handler_args ... kwargs.crypt_conf with a key, or a password AND a salt; session_params
   encrypter likewise) or the LIBRARY generates it: the documented set-up `"code": {"lifetime": 600}`, `kwargs: {}`,
   a crypt_conf that names only the class / only a password / key_defs without a key file, DefaultToken built with no
   crypt configuration (init_encrypter(None) -> default_crypt_config() -> os.urandom), session_params without
   encrypter.  A generated key is a DRAW from the process's random source: `sup d` is the key material of the d-th
   draw; building an instance consumes one draw per generated key, and so does every other library call that builds an
   encrypter in between (other servers, cookie handlers, DefaultToken objects).  A key derived from a given password
   and a generated salt counts as one generated key.  JWT class handlers sign with a key of the provider's key jar,
   which the deployment supplies (a key file).  No proofs here; tied to the code by harness/drv_C04.py (key material
   read off really built handlers: chk_ifresh; who accepts whose tokens: chk_icross). *)
Inductive ksrc := KsGiven (k : nat) | KsGen.
Inductive hsrc := HsOpaque (s : ksrc) | HsJwt (k : nat).
Record ispec := mk_ispec { is_code : hsrc; is_access : hsrc; is_refresh : hsrc; is_idt : nat; is_sm : ksrc }.
(* an instance: its handlers, and the key of its session manager (session ids inside tokens are encrypted with it) *)
Record inst := mk_inst { in_cfg : hconf; in_sm : nat }.
(* one step of a process's history: a provider instance is built | something else draws m times *)
Inductive istep := IInst (s : ispec) | IOther (m : nat).

Section IBuild.
  Variable sup : nat -> nat.
  Definition ktake (s : ksrc) (n : nat) : nat * nat :=
    match s with KsGiven k => (k, n) | KsGen => (sup n, S n) end.
  Definition htake (s : hsrc) (n : nat) : hspec * nat :=
    match s with HsOpaque ks => (HOpaque (fst (ktake ks n)), snd (ktake ks n)) | HsJwt k => (HJwt k, n) end.
  (* the instance built when n draws have been made, and the number of draws made afterwards
     (SessionManager.__init__: the token handlers code, token, refresh in this order, then the database encrypter) *)
  Definition iconstruct (s : ispec) (n : nat) : inst * nat :=
    let '(hc, n1) := htake (is_code s) n in
    let '(ha, n2) := htake (is_access s) n1 in
    let '(hr, n3) := htake (is_refresh s) n2 in
    let '(km, n4) := ktake (is_sm s) n3 in
    (mk_inst (mkHconf hc ha hr (is_idt s)) km, n4).
  Fixpoint ibuild_all (l : list istep) (n : nat) : list inst :=
    match l with
    | [] => []
    | IInst s :: r => let '(i, n') := iconstruct s n in i :: ibuild_all r n'
    | IOther m :: r => ibuild_all r (n + m)
    end.
End IBuild.

(* a value whose plaintext is that of t, encrypted anew under key k (what the holder of k makes of a plaintext) *)
Definition reencrypt (k : nat) (nonce : pystr) (t : term) : term :=
  match t with AEnc _ _ m => AEnc k nonce m | _ => t end.

(* correspondence 1 (freshness): the key material observed on the real handlers and session managers of a history.
   The driver numbers raw key BYTES (equal bytes <=> equal number; harness-given keys carry the number the
   specification names, all below gen_base).  The model builds the same history from a supply of pairwise different
   draws; both must show the same shape and the same equalities between all key slots of all instances, and given
   keys must be the keys in use. *)
Definition gen_base : nat := 1000%nat.
Definition sup0 (d : nat) : nat := (gen_base + d)%nat.
Definition hkey (h : hspec) : option nat := match h with HOpaque k => Some k | HJwt _ => None end.
Definition ikeys (i : inst) : list (option nat) :=
  [hkey (h_code (in_cfg i)); hkey (h_access (in_cfg i)); hkey (h_refresh (in_cfg i)); Some (in_sm i)].
Definition okey_eqb (a b : option nat) : bool :=
  match a, b with Some x, Some y => Nat.eqb x y | _, _ => false end.
Definition same_shape (a b : option nat) : bool :=
  match a, b with None, None | Some _, Some _ => true | _, _ => false end.
Definition given_kept (p : option nat * option nat) : bool :=
  match p with
  | (Some m, Some o) => if (m <? gen_base)%nat then Nat.eqb m o else true
  | _ => true
  end.
Definition ifresh_case : Type := (list istep * list (list (option nat)))%type.
Definition ifresh_model (c : ifresh_case) : list (option nat) := flat_map ikeys (ibuild_all sup0 (fst c) 0).
Definition chk_ifresh (c : ifresh_case) : bool :=
  let m := ifresh_model c in
  let o := concat (snd c) in
  Nat.eqb (length m) (length o) &&
  let z := combine m o in
  forallb (fun p => same_shape (fst p) (snd p)) z && forallb given_kept z &&
  forallb (fun p => forallb (fun q => Bool.eqb (okey_eqb (fst p) (fst q)) (okey_eqb (snd p) (snd q))) z) z.

(* correspondence 2 (who accepts whose tokens): instance i of the history mints a token of class m for one of its
   sessions; it is offered as it is, or with its plaintext encrypted anew under key slot q (0-2: the class handlers,
   3: the session manager) of instance i', to instance j: at the slot's handler (sm = false: handler.info /
   TokenHandler.info) or at the session manager (sm = true: get_session_info_by_token; also what the endpoints
   answer).  observed: accepted or not.  An instance's database holds its own sessions only. *)
Definition isid (i : nat) : pystr := PS "sid-" ++ [N.of_nat (48 + i)].
Definition no_inst : inst := mk_inst (mkHconf (HJwt 0) (HJwt 0) (HJwt 0) 0) 0.
Definition icross_case : Type := (list istep * nat * nat * nat * option (nat * nat) * nat * bool * bool)%type.
Definition icross_token (c : icross_case) : term :=
  let '(steps, i, j, m, re, s, sm, _) := c in
  let is_ := ibuild_all sup0 steps 0 in
  let t := mint (in_cfg (nth i is_ no_inst)) (MTok (tk_of m)) (PS "n") (PS "rnd") (isid i) (PS "99") in
  match re with
  | Some (i', q) => match nth q (ikeys (nth i' is_ no_inst)) None with Some k => reencrypt k (PS "n2") t | None => t end
  | None => t
  end.
Definition icross_accepts (cfg : hconf) (j : nat) (t : term) (s : nat) (sm : bool) : bool :=
  if sm then match slot_client cfg (fun _ => false) [(isid j, PS "client")] (slot_of s) t with Some _ => true | None => false end
  else match slot_resolve cfg (fun _ => false) (slot_of s) t with TOk (Some _) => true | _ => false end.
Definition icross_model (c : icross_case) : bool :=
  let '(steps, i, j, m, re, s, sm, _) := c in
  icross_accepts (in_cfg (nth j (ibuild_all sup0 steps 0) no_inst)) j (icross_token c) s sm.
Definition chk_icross (c : icross_case) : bool :=
  let '(_, _, _, _, _, _, _, obs) := c in Bool.eqb (icross_model c) obs.
(* the same for one value at all the places it is offered: the three class handlers and the class-agnostic lookup at the
   handler, then the same four at the session manager (bare handlers: the first four only) *)
Definition igroup_slots : list (nat * bool) :=
  [(0, false); (1, false); (2, false); (4, false); (0, true); (1, true); (2, true); (4, true)]%nat.
Definition igroup_case : Type := (list istep * nat * nat * nat * option (nat * nat) * list bool)%type.
Definition igroup_model (c : igroup_case) : list bool :=
  let '(steps, i, j, m, re, _) := c in
  let cfg := in_cfg (nth j (ibuild_all sup0 steps 0) no_inst) in
  let t := icross_token (steps, i, j, m, re, 0, false, false)%nat in
  map (fun p => icross_accepts cfg j t (fst p) (snd p)) igroup_slots.
Definition chk_igroup (c : igroup_case) : bool :=
  let '(_, _, _, _, _, obs) := c in
  (length obs <=? 8)%nat && list_eqb Bool.eqb (firstn (length obs) (igroup_model c)) obs.
