(* Model/TokenFmt.v — token value formats: idpyoidc.server.token.DefaultToken (opaque:
   base64(Fernet(lv_pack(rnd, class, sid, exp)))) and JWTToken / IDToken (signed JWT with sid, token_class, exp),
   TokenHandler.get_handler's ordered fall-through, and the class / key separation they give.
   Cryptography is symbolic (Lib/Crypto.v): Fernet = AEnc, JWS = Sig.  No proofs here. *)
From Coq Require Import String.
From Verif Require Import Lib.Base Lib.PyStr Lib.Crypto Model.Lv.
Open Scope string_scope.

Inductive tk := KCode | KAccess | KRefresh.
Definition tk_eqb (a b : tk) : bool := match a, b with KCode, KCode | KAccess, KAccess | KRefresh, KRefresh => true | _, _ => false end.
Definition tk_name (c : tk) : pystr :=
  match c with KCode => PS "authorization_code" | KAccess => PS "access_token" | KRefresh => PS "refresh_token" end.
Definition tk_alt (c : tk) : pystr := match c with KCode => PS "A" | KAccess => PS "T" | KRefresh => PS "R" end.
Definition class_ok (h : tk) (c : pystr) : bool := str_eqb c (tk_name h) || str_eqb c (tk_alt h).

Inductive terr := EUnknownToken | EWrongClass | ETooOld | EKeyError.
Inductive tres (A : Type) := TOk (a : A) | TErr (e : terr).
Arguments TOk {A} a. Arguments TErr {A} e.

(* ---- DefaultToken ---- *)
(* __call__: the plaintext and the token *)
Definition opaque_plain (rnd : pystr) (cls : pystr) (sid exp : pystr) : pystr := lv_pack [rnd; cls; sid; exp].
Definition opaque_token (k : nat) (nonce rnd : pystr) (cls : tk) (sid exp : pystr) : term :=
  AEnc k nonce (Atom (opaque_plain rnd (tk_name cls) sid exp)).
(* info: split_token (decrypt, lv_unpack), dict(zip(["_id","token_class","sid","exp"], parts)), class check.
   Returns the session id if there is a third field. *)
Definition opaque_info (k : nat) (h : tk) (t : term) : tres (option pystr) :=
  match adec k t with
  | Some (Atom plain) =>
      match lv_unpack plain with
      | Ok (_ :: c :: rest) => if class_ok h c then TOk (match rest with sid :: _ => Some sid | [] => None end)
                               else TErr EWrongClass
      | Ok _ => TErr EKeyError                    (* fewer than two fields: _res["token_class"] *)
      | _ => TErr EUnknownToken                   (* lv_unpack raises ValueError: not caught as a TokenException *)
      end
  | _ => TErr EUnknownToken
  end.

(* ---- JWT based tokens: payload = (class claim or none, sid claim or none, exp) ---- *)
Definition jwt_payload (cls : option pystr) (sid : option pystr) (exp : pystr) : term :=
  Pair (match cls with Some c => Pair (Atom (PS "token_class")) (Atom c) | None => Atom (PS "no-class") end)
       (Pair (match sid with Some s => Pair (Atom (PS "sid")) (Atom s) | None => Atom (PS "no-sid") end) (Atom exp)).
Definition jwt_token (k : nat) (cls : option pystr) (sid : option pystr) (exp : pystr) : term := Sig k (jwt_payload cls sid exp).
Definition jwt_info (pubk : nat) (h : tk) (expired : pystr -> bool) (t : term) : tres (option pystr) :=
  match sig_verify pubk t with
  | Some (Pair c (Pair s (Atom exp))) =>
      match c with
      | Pair (Atom _) (Atom cl) =>
          if class_ok h cl then
            if expired exp then TErr ETooOld
            else TOk (match s with Pair (Atom _) (Atom sid) => Some sid | _ => None end)
          else TErr EWrongClass
      | _ => TErr EWrongClass          (* no token_class claim: `None not in [...]` *)
      end
  | _ => TErr EUnknownToken
  end.

(* ---- checkers for the correspondence ---- *)
(* the plaintext the real handler encrypted, recovered by the harness with the handler's own key *)
Definition chk_plain (c : pystr * pystr * pystr * pystr * pystr) : bool :=
  let '(rnd, cls, sid, exp, plain) := c in
  str_eqb (opaque_plain rnd cls sid exp) plain
  && res_eqb (list_eqb str_eqb) (lv_unpack plain) (Ok [rnd; cls; sid; exp]).
(* the outcome of handler[h].info on a token minted by handler[m]; same_key tells whether both use one key *)
Definition out_code (r : tres (option pystr)) : nat :=
  match r with TOk (Some _) => 0 | TOk None => 1 | TErr EUnknownToken => 2 | TErr EWrongClass => 3 | TErr ETooOld => 4 | TErr EKeyError => 5 end.
Definition tk_of (n : nat) : tk := match n with O => KCode | S O => KAccess | _ => KRefresh end.
Definition chk_info (c : nat * nat * bool * nat) : bool :=
  let '(h, m, same_key, observed) := c in
  let t := opaque_token (if same_key then 0 else m) (PS "n") (PS "rnd") (tk_of m) (PS "sid") (PS "99") in
  Nat.eqb (out_code (opaque_info (if same_key then 0 else h) (tk_of h) t)) observed.
