(* Model/Uri.v — the fragment of urllib.parse (CPython 3.12: unquote, urlsplit, urlparse, the
   hostname / port properties, parse_qsl, parse_qs) that idpyoidc.server.oauth2.authorization.verify_uri
   depends on, and verify_uri / get_uri / the redirect decision of Authorization._post_parse_request.
   Hand-written, total, executable.  Everything outside the ASCII fragment (non-ASCII code points in the
   input, percent-escapes that decode to bytes >= 0x80, bracketed hosts outside a small literal table)
   is Unmodelled.  Tied to the code by harness/drv_C06.py: every generated string is run through the real
   urllib.parse functions and the real verify_uri, and compared with this model inside coqc. *)
From Coq Require Import String.
From Verif Require Import Lib.Base Lib.PyStr Lib.Urlenc.
Open Scope N_scope.

(* ------------------------------------------------------------------ small string helpers *)
Definition is_ascii (s : pystr) : bool := forallb (fun c => c <? 128) s.
Definition nonempty (s : pystr) : bool := match s with [] => false | _ => true end.
Definition lower1 (c : N) : N := if (65 <=? c) && (c <=? 90) then c + 32 else c.
Definition lower (s : pystr) : pystr := List.map lower1 s.
Definition has_c (c : N) (s : pystr) : bool := existsb (fun x => x =? c) s.

(* s.rpartition(c): None when c does not occur, else (before the last c, after the last c) *)
Definition rsplit1_c (sep : N) (s : pystr) : option (pystr * pystr) :=
  match split1_c sep (List.rev s) with
  | Some (a, b) => Some (List.rev b, List.rev a)
  | None => None
  end.
Definition after_last (sep : N) (s : pystr) : pystr :=
  match rsplit1_c sep s with Some (_, b) => b | None => s end.
Definition before_last (sep : N) (s : pystr) : pystr :=           (* s.rsplit(c, 1)[0] *)
  match rsplit1_c sep s with Some (a, _) => a | None => s end.
(* s.partition(c) = (before, found, after) *)
Definition before_first (sep : N) (s : pystr) : pystr :=
  match split1_c sep s with Some (a, _) => a | None => s end.
Definition after_first (sep : N) (s : pystr) : pystr :=
  match split1_c sep s with Some (_, b) => b | None => [] end.

(* ------------------------------------------------------------------ unquote *)
(* _unquote_impl on an ASCII string: split at '%'; an item whose first two characters are hex digits
   contributes that byte, otherwise the '%' stays. *)
Fixpoint unquote_raw (s : pystr) : list N :=
  match s with
  | [] => []
  | c :: t =>
    if c =? 37 then
      match t with
      | h :: l :: r => match hexval h, hexval l with
                       | Some a, Some b => (16 * a + b) :: unquote_raw r
                       | _, _ => 37 :: unquote_raw t
                       end
      | _ => 37 :: unquote_raw t
      end
    else c :: unquote_raw t
  end.
Definition unquote (s : pystr) : res pystr :=
  if negb (is_ascii s) then Unmodelled
  else let d := unquote_raw s in if is_ascii d then Ok d else Unmodelled.

(* ------------------------------------------------------------------ urlsplit / urlparse *)
Record parsed := mkParsed { scheme : pystr; netloc : pystr; path : pystr; params : pystr;
                            query : pystr; fragment : pystr }.

Fixpoint lstrip_c0 (s : pystr) : pystr :=
  match s with c :: r => if c <=? 32 then lstrip_c0 r else s | [] => [] end.
Definition remove_unsafe (s : pystr) : pystr :=
  filter (fun c => negb ((c =? 9) || (c =? 10) || (c =? 13))) s.

Definition is_alpha (c : N) : bool := ((65 <=? c) && (c <=? 90)) || ((97 <=? c) && (c <=? 122)).
Definition scheme_char (c : N) : bool := is_alpha c || is_digit c || (c =? 43) || (c =? 45) || (c =? 46).

(* (scheme, rest) *)
Definition split_scheme (url : pystr) : pystr * pystr :=
  match split1_c 58 url with
  | Some (c :: a, b) => if is_alpha c && forallb scheme_char (c :: a) then (lower (c :: a), b) else ([], url)
  | _ => ([], url)
  end.

(* _splitnetloc(url, 2) on the text after the leading "//" *)
Fixpoint span_netloc (s : pystr) : pystr * pystr :=
  match s with
  | [] => ([], [])
  | c :: r => if (c =? 47) || (c =? 63) || (c =? 35) then ([], s)
              else let '(a, b) := span_netloc r in (c :: a, b)
  end.

(* _check_bracketed_host through ipaddress.ip_address: only a literal table is modelled *)
Definition v6_ok : list pystr :=
  [ PS "::1"%string; PS "0000:0000:0000:0000:0000:0000:0000:0001"%string; PS "0:0:0:0:0:0:0:1"%string; PS "::"%string; PS "2001:db8::1"%string ].
Definition v6_bad : list pystr := [ []; PS "127.0.0.1"%string; PS "localhost"%string ].
Definition check_brackets (nl : pystr) : res unit :=
  let o := has_c 91 nl in let c := has_c 93 nl in
  if (o && negb c) || (c && negb o) then Err ValueError
  else if o && c then
    let h := before_first 93 (after_first 91 nl) in
    if str_in h v6_ok then Ok tt else if str_in h v6_bad then Err ValueError else Unmodelled
  else Ok tt.

Definition urlsplit (url0 : pystr) : res parsed :=
  if negb (is_ascii url0) then Unmodelled else
  let url := remove_unsafe (lstrip_c0 url0) in
  let '(sch, rest) := split_scheme url in
  let '(nl, rest2) := match rest with
                      | 47 :: 47 :: r => span_netloc r
                      | _ => ([], rest)
                      end in
  _ <- check_brackets nl ;;
  let '(rest3, frag) := match split1_c 35 rest2 with Some (a, b) => (a, b) | None => (rest2, []) end in
  let '(pth, qry) := match split1_c 63 rest3 with Some (a, b) => (a, b) | None => (rest3, []) end in
  Ok (mkParsed sch nl pth [] qry frag).

Definition uses_params : list pystr :=
  [ []; PS "ftp"%string; PS "hdl"%string; PS "prospero"%string; PS "http"%string; PS "imap"%string; PS "https"%string; PS "shttp"%string; PS "rtsp"%string;
    PS "rtsps"%string; PS "rtspu"%string; PS "sip"%string; PS "sips"%string; PS "mms"%string; PS "sftp"%string; PS "tel"%string ].

(* _splitparams: the first ';' of the last path segment *)
Definition splitparams (url : pystr) : pystr * pystr :=
  match rsplit1_c 47 url with
  | Some (pre, seg) =>
      match split1_c 59 seg with
      | Some (a, b) => (pre ++ 47 :: a, b)
      | None => (url, [])
      end
  | None => match split1_c 59 url with Some (a, b) => (a, b) | None => (url, []) end
  end.

Definition urlparse (url : pystr) : res parsed :=
  p <- urlsplit url ;;
  if str_in (scheme p) uses_params && has_c 59 (path p) then
    let '(u, prm) := splitparams (path p) in
    Ok (mkParsed (scheme p) (netloc p) u prm (query p) (fragment p))
  else Ok p.

(* _hostinfo: (hostname text, port text); hi is the text behind the last at-sign *)
Definition hostinfo_hi (hi : pystr) : pystr * pystr :=
  match split1_c 91 hi with
  | Some (_, bracketed) =>
      (before_first 93 bracketed, after_first 58 (after_first 93 bracketed))
  | None => (before_first 58 hi, after_first 58 hi)
  end.
Definition hostinfo (nl : pystr) : pystr * pystr := hostinfo_hi (after_last 64 nl).
(* .hostname: None when empty; lower-cased up to a '%' (zone id) *)
Definition hostname (p : parsed) : option pystr :=
  let h := fst (hostinfo (netloc p)) in
  match h with
  | [] => None
  | _ => match split1_c 37 h with
         | Some (a, z) => Some (lower a ++ 37 :: z)
         | None => Some (lower h)
         end
  end.
(* .port: None when empty, ValueError unless ASCII digits with value <= 65535 *)
Definition port (p : parsed) : res (option Z) :=
  let t := snd (hostinfo (netloc p)) in
  match t with
  | [] => Ok None
  | _ => if forallb is_digit t then
           match nat_of_digits t with
           | Some n => if (Z.of_nat n <=? 65535)%Z then Ok (Some (Z.of_nat n)) else Err ValueError
           | None => Err ValueError
           end
         else Err ValueError
  end.

(* ------------------------------------------------------------------ parse_qsl / parse_qs *)
Definition qunquote (s : pystr) : res pystr := unquote (replace_c 43 32 s).

Fixpoint qsl_fields (keep_blank : bool) (fields : list pystr) : res (list (pystr * pystr)) :=
  match fields with
  | [] => Ok []
  | f :: r =>
      match f with
      | [] => qsl_fields keep_blank r
      | _ =>
        match split1_c 61 f with
        | None => if keep_blank then n <- qunquote f ;; t <- qsl_fields keep_blank r ;; Ok ((n, []) :: t)
                  else qsl_fields keep_blank r
        | Some (n0, v0) =>
            if nonempty v0 || keep_blank then
              n <- qunquote n0 ;; v <- qunquote v0 ;; t <- qsl_fields keep_blank r ;; Ok ((n, v) :: t)
            else qsl_fields keep_blank r
        end
      end
  end.
Definition parse_qsl (keep_blank : bool) (qs : pystr) : res (list (pystr * pystr)) :=
  match qs with [] => Ok [] | _ => qsl_fields keep_blank (split_c 38 qs) end.

Definition qdict := list (pystr * list pystr).
Fixpoint qd_add (k v : pystr) (d : qdict) : qdict :=
  match d with
  | [] => [(k, [v])]
  | (k', l) :: r => if str_eqb k k' then (k', l ++ [v]) :: r else (k', l) :: qd_add k v r
  end.
Definition qd_of_pairs (l : list (pystr * pystr)) : qdict :=
  fold_left (fun d kv => qd_add (fst kv) (snd kv) d) l [].
Definition parse_qs (keep_blank : bool) (qs : pystr) : res qdict := l <- parse_qsl keep_blank qs ;; Ok (qd_of_pairs l).

(* Python dict equality on dicts with unique keys *)
Definition qd_eqb (a b : qdict) : bool :=
  Nat.eqb (length a) (length b) &&
  forallb (fun kv => match assoc (fst kv) b with
                     | Some v => list_eqb str_eqb (snd kv) v
                     | None => false end) a.

(* ------------------------------------------------------------------ verify_uri *)
Definition uri_error : exc := Refused 1.          (* idpyoidc.exception.URIError *)
Definition redirect_error : exc := Refused 2.     (* idpyoidc.server.exception.RedirectURIError *)
Definition parameter_error : exc := Refused 3.    (* idpyoidc.exception.ParameterError *)
Definition unknown_client : exc := Refused 4.     (* idpyoidc.server.exception.UnknownClient *)

(* a registered entry: a plain string, or (base, query dict or None) *)
Inductive reg := RStr (u : pystr) | RPair (base : pystr) (q : option qdict).

Definition basic_checks (p : parsed) : res unit :=
  if nonempty (fragment p) then Err uri_error else
  match hostname p with
  | None => Err uri_error
  | Some _ =>
      if nonempty (path p) && negb (starts_with [47] (path p)) then Err uri_error else
      match port p with
      | Ok _ => Ok tt
      | Err _ => Err uri_error
      | Unmodelled => Unmodelled
      end
  end.

Definition loopbacks : list pystr :=
  [ PS "127.0.0.1"%string; PS "::1"%string; PS "0000:0000:0000:0000:0000:0000:0000:0001"%string ].
Definition is_http (p : parsed) : bool := str_eqb (scheme p) (PS "http"%string).
Definition is_localhost (p : parsed) : bool :=
  match hostname p with Some h => str_in h loopbacks | None => false end.
Definition set_netloc (p : parsed) (nl : pystr) : parsed :=
  mkParsed (scheme p) nl (path p) (params p) (query p) (fragment p).
Definition remove_port (p : parsed) : res parsed :=
  po <- port p ;;
  match po with
  | None => Ok p
  | Some z => if (z =? 0)%Z || negb (nonempty (netloc p)) then Ok p
              else Ok (set_netloc p (before_last 58 (netloc p)))
  end.
Definition norm_native (p : parsed) : res parsed :=
  if is_http p && is_localhost p then remove_port p else Ok p.

(* urlparse(uri_base)._replace(query=None), (uri_qs_obj or {}); a plain string contributes
   parse_qs(urlparse(uri).query) *)
Definition parse_reg (r : reg) : res (parsed * qdict) :=
  match r with
  | RStr u => p <- urlparse u ;; qd <- parse_qs false (query p) ;; Ok (p, qd)
  | RPair b q => p <- urlparse b ;; Ok (p, match q with Some d => d | None => [] end)
  end.

Fixpoint mapM {A B} (f : A -> res B) (l : list A) : res (list B) :=
  match l with
  | [] => Ok []
  | a :: r => b <- f a ;; t <- mapM f r ;; Ok (b :: t)
  end.

(* the compared tuple: ParseResult with query=None *)
Definition key_eqb (a b : parsed) : bool :=
  str_eqb (scheme a) (scheme b) && str_eqb (netloc a) (netloc b) && str_eqb (path a) (path b)
  && str_eqb (params a) (params b) && str_eqb (fragment a) (fragment b).
Definition match1 (p : parsed) (qd : qdict) (r : parsed * qdict) : bool :=
  key_eqb p (fst r) && qd_eqb qd (snd r).
Definition norm_reg (r : parsed * qdict) : res (parsed * qdict) :=
  x <- norm_native (fst r) ;; Ok (x, snd r).

(* req != req.strip() or any(ord(c) < 0x20 or ord(c) == 0x7F): on ASCII text str.strip() removes
   9-13 and 28-32, all of which but the space are control characters anyway *)
Definition dirty (d : pystr) : bool :=
  existsb (fun c => (c <? 32) || (c =? 127)) d
  || match d with c :: _ => c =? 32 | [] => false end
  || match List.rev d with c :: _ => c =? 32 | [] => false end.

(* the endpoint type no longer influences the verdict (argument kept for the case files) *)
Definition verify_uri (regs : list reg) (native oidc : bool) (u : pystr) : res unit :=
  d <- unquote u ;;
  if dirty d then Err uri_error else
  p <- urlparse d ;;
  if has_c 35 d then Err uri_error else
  _ <- basic_checks p ;;
  match regs with
  | [] => Err redirect_error
  | _ =>
      rs <- mapM parse_reg regs ;;
      p' <- (if native then norm_native p else Ok p) ;;
      rs' <- (if native then mapM norm_reg rs else Ok rs) ;;
      qd <- parse_qs true (query p') ;;
      if existsb (match1 p' qd) rs' then Ok tt else Err redirect_error
  end.

(* ------------------------------------------------------------------ get_uri and the redirect decision *)
(* urlencode(query, doseq=True) of a registered query dict; quote_plus is the byte-level function of
   Lib/Urlenc.v (ASCII keys and values only, otherwise Unmodelled) *)
Definition enc_pair (k v : pystr) : pystr := quote_plus k ++ 61 :: quote_plus v.
Definition urlencode_qd (d : qdict) : pystr :=
  join [38] (flat_map (fun kv => List.map (enc_pair (fst kv)) (snd kv)) d).
Definition qd_ascii (d : qdict) : bool :=
  forallb (fun kv => is_ascii (fst kv) && forallb is_ascii (snd kv)) d.
Definition join_query (b : pystr) (q : option qdict) : res pystr :=
  match q with
  | None | Some [] => Ok b
  | Some d => if qd_ascii d then Ok (b ++ 63 :: urlencode_qd d) else Unmodelled
  end.

(* get_uri(context, request, "redirect_uri", endpoint_type) for a known client *)
Definition get_uri (regs : list reg) (native oidc : bool) (req_uri : option pystr) : res pystr :=
  match req_uri with
  | Some u => _ <- verify_uri regs native oidc u ;; Ok u
  | None =>
      match regs with
      | [] => Err parameter_error
      | [RPair b q] => join_query b q
      | [RStr _] => Unmodelled          (* join_query( *"string") : not a sensible configuration *)
      | _ => Err parameter_error
      end
  end.

(* what Authorization._post_parse_request does with it:
   Redirectable u   — the request goes on and u is the only place a response is ever sent to
   DirectError      — an error message without any return address is handed back
   Raised e         — another exception leaves parse_request (no response object at all) *)
Inductive decision := Redirectable (u : pystr) | DirectError | Raised (e : exc) | NotModelled.
Definition decide (regs : list reg) (native oidc : bool) (req_uri : option pystr) : decision :=
  match get_uri regs native oidc req_uri with
  | Ok u => Redirectable u
  | Err (Refused 2) | Err (Refused 3) => DirectError
  | Err e => Raised e
  | Unmodelled => NotModelled
  end.

(* ------------------------------------------------------------------ checkers for generated case files *)
Definition popt_eqb := option_eqb str_eqb.
(* ((scheme, netloc, path), (params, query, fragment)) *)
Definition tup6 := ((pystr * pystr * pystr) * (pystr * pystr * pystr))%type.
Definition tup_of (p : parsed) : tup6 := ((scheme p, netloc p, path p), (params p, query p, fragment p)).
Definition tup6_eqb (a b : tup6) : bool :=
  let '((a1, a2, a3), (a4, a5, a6)) := a in
  let '((b1, b2, b3), (b4, b5, b6)) := b in
  str_eqb a1 b1 && str_eqb a2 b2 && str_eqb a3 b3 && str_eqb a4 b4 && str_eqb a5 b5 && str_eqb a6 b6.

Definition chk_unquote (c : pystr * res pystr) : bool := res_eqb str_eqb (unquote (fst c)) (snd c).
(* urlparse with hostname and port: input, Ok (tuple, hostname, port-result) or Err *)
Definition port_eqb (a b : res (option Z)) : bool := res_eqb (option_eqb Z.eqb) a b.
Definition parse_obs := res (tup6 * option pystr * res (option Z)).
Definition parse_view (u : pystr) : parse_obs :=
  p <- urlparse u ;; Ok (tup_of p, hostname p, port p).
Definition chk_urlparse (c : pystr * parse_obs) : bool :=
  res_eqb (fun a b => let '(t, h, po) := a in let '(t', h', po') := b in
                      tup6_eqb t t' && popt_eqb h h' && port_eqb po po')
          (parse_view (fst c)) (snd c).
Definition pair_eqb (a b : pystr * pystr) : bool := str_eqb (fst a) (fst b) && str_eqb (snd a) (snd b).
Definition chk_parse_qsl (c : bool * pystr * res (list (pystr * pystr))) : bool :=
  let '(kb, qs, out) := c in res_eqb (list_eqb pair_eqb) (parse_qsl kb qs) out.
Definition qd_entry_eqb (a b : pystr * list pystr) : bool :=
  str_eqb (fst a) (fst b) && list_eqb str_eqb (snd a) (snd b).
Definition chk_parse_qs (c : bool * pystr * res qdict) : bool :=
  let '(kb, qs, out) := c in res_eqb (list_eqb qd_entry_eqb) (parse_qs kb qs) out.

(* verify_uri: (registered, native, oidc, uri, observed) *)
Definition vcase := (list reg * bool * bool * pystr * res unit)%type.
Definition unit_res_eqb (a b : res unit) : bool := res_eqb (fun _ _ => true) a b.
Definition chk_verify (c : vcase) : bool :=
  let '(regs, native, oidc, u, out) := c in
  match verify_uri regs native oidc u with
  | Unmodelled => true                      (* outside the modelled fragment: counted by the driver *)
  | r => unit_res_eqb r out
  end.
Definition verify_is_modelled (c : vcase) : bool :=
  let '(regs, native, oidc, u, out) := c in
  match verify_uri regs native oidc u with Unmodelled => false | _ => true end.
Definition diag_verify (c : vcase) : res unit :=
  let '(regs, native, oidc, u, out) := c in verify_uri regs native oidc u.

(* the endpoint decision: 0 = redirectable (with the uri), 1 = direct error, 2 = raised *)
Definition dcase := (list reg * bool * bool * option pystr * (N * pystr))%type.
Definition chk_decide (c : dcase) : bool :=
  let '(regs, native, oidc, ru, (code, uri)) := c in
  match decide regs native oidc ru with
  | Redirectable u => (code =? 0) && str_eqb u uri
  | DirectError => code =? 1
  | Raised _ => code =? 2
  | NotModelled => true
  end.
Definition diag_decide (c : dcase) : decision :=
  let '(regs, native, oidc, ru, _) := c in decide regs native oidc ru.
