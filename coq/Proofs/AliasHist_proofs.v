(* Proofs/AliasHist_proofs.v — C20: the ownership discipline over histories of flows. *)
From Coq Require Import List Arith Bool String.
From Verif Require Import Lib.Heap Model.Alias Model.AliasTie Model.AliasHist Proofs.Alias_proofs.
Import ListNotations.

(* after ANY history of accepted flows every object that existed at the start is what it was *)
Theorem hist_no_static_write ps : forall h0 h',
  all_checked ps -> run_hist ps h0 h' -> static_part h0 h'.
Proof.
  induction ps as [|p ps IH]; intros h0 h' Hc Hr l Hl.
  - inversion Hr; subst. reflexivity.
  - inversion Hr as [|p' ps' h e s' h'' Hrun Hrest]; subst.
    inversion Hc as [|? ? Hp Hps]; subst.
    pose proof (no_static_write h0 e p s' Hp Hrun l Hl) as H1.
    rewrite <- H1. apply (IH _ _ Hps Hrest). rewrite H1. exact Hl.
Qed.

(* ORDER INDEPENDENCE: whichever accepted flows were served before - in whatever order, by whichever clients -
   the next request finds the same static objects *)
Theorem hist_order_independent ps1 ps2 h0 h1 h2 :
  all_checked ps1 -> all_checked ps2 -> run_hist ps1 h0 h1 -> run_hist ps2 h0 h2 ->
  forall l, h0 l <> None -> h1 l = h2 l.
Proof.
  intros C1 C2 R1 R2 l Hl.
  rewrite (hist_no_static_write ps1 h0 h1 C1 R1 l Hl), (hist_no_static_write ps2 h0 h2 C2 R2 l Hl). reflexivity.
Qed.

(* a flow that stores into a static root is never accepted, whatever precedes the store: exactly the shape of
   `self.<attr> = <value made by this request>` on a handler *)
Lemma check_from_rejects_root_store pre r x k y post : forall t tn,
  check_from (pre ++ ILoadRoot x r :: ISet x k y :: post) t tn = false.
Proof.
  induction pre as [|i pre IH]; intros t tn; cbn.
  - unfold upd_t. rewrite Nat.eqb_refl. reflexivity.
  - destruct i; cbn; try apply IH; rewrite IH; apply andb_false_r.
Qed.
Lemma check_rejects_root_store pre r x k y post :
  check (pre ++ ILoadRoot x r :: ISet x k y :: post) = false.
Proof. apply check_from_rejects_root_store. Qed.

Lemma check_from_rejects_root_store_atom pre r x k a post : forall t tn,
  check_from (pre ++ ILoadRoot x r :: ISetAtom x k a :: post) t tn = false.
Proof.
  induction pre as [|i pre IH]; intros t tn; cbn.
  - unfold upd_t. rewrite Nat.eqb_refl. reflexivity.
  - destruct i; cbn; try apply IH; rewrite IH; apply andb_false_r.
Qed.
Lemma check_rejects_root_store_atom pre r x k a post :
  check (pre ++ ILoadRoot x r :: ISetAtom x k a :: post) = false.
Proof. apply check_from_rejects_root_store_atom. Qed.

Lemma from_flows_checked gs ps :
  forallb g_checked gs = true -> from_flows gs ps -> all_checked ps.
Proof.
  intros H Hf. rewrite forallb_forall in H. unfold from_flows, all_checked in *.
  rewrite Forall_forall in *. intros p Hp. destruct (Hf p Hp) as [g [Hg ->]]. exact (H g Hg).
Qed.

Theorem generated_hist_no_static_write gs : forallb g_checked gs = true ->
  forall ps h0 h', from_flows gs ps -> run_hist ps h0 h' -> static_part h0 h'.
Proof. intros H ps h0 h' Hf. apply hist_no_static_write. exact (from_flows_checked gs ps H Hf). Qed.

Theorem generated_order_independent gs : forallb g_checked gs = true ->
  forall ps1 ps2 h0 h1 h2, from_flows gs ps1 -> from_flows gs ps2 -> run_hist ps1 h0 h1 -> run_hist ps2 h0 h2 ->
  forall l, h0 l <> None -> h1 l = h2 l.
Proof.
  intros H ps1 ps2 h0 h1 h2 F1 F2. apply hist_order_independent; eapply from_flows_checked; eauto.
Qed.
