(* Proofs/Alias_proofs.v — soundness of the ownership checker (C20): a flow accepted by `check` never
   modifies an object that existed before the flow started. *)
From Coq Require Import List Arith Bool Lia.
From Verif Require Import Lib.Heap Model.Alias Model.AliasTie.
Import ListNotations.

Lemma lookup_delk k o k' : lookup k' (delk k o) = if Nat.eqb k' k then None else lookup k' o.
Proof.
  unfold delk. induction o as [|[k0 v0] r IH]; cbn; [now destruct (Nat.eqb k' k)|].
  destruct (Nat.eqb k0 k) eqn:E0; cbn.
  - rewrite IH. destruct (Nat.eqb k' k) eqn:E; [reflexivity|].
    destruct (Nat.eqb k' k0) eqn:E1; [|reflexivity].
    apply Nat.eqb_eq in E0, E1. subst. rewrite Nat.eqb_refl in E. discriminate.
  - rewrite IH. destruct (Nat.eqb k' k0) eqn:E1; [|reflexivity].
    destruct (Nat.eqb k' k) eqn:E; [|reflexivity].
    apply Nat.eqb_eq in E, E1. subst. rewrite Nat.eqb_refl in E0. discriminate.
Qed.
Lemma lookup_setk k v o k' : lookup k' (setk k v o) = if Nat.eqb k' k then Some v else lookup k' o.
Proof. unfold setk. cbn [lookup]. destruct (Nat.eqb k' k) eqn:E; [reflexivity|]. now rewrite lookup_delk, E. Qed.
Lemma lookup_merge o oy k v : lookup k (merge o oy) = Some v -> lookup k oy = Some v \/ lookup k o = Some v.
Proof.
  unfold merge. induction oy as [|[k0 v0] r IH]; cbn [fold_right fst snd]; [auto|]. rewrite lookup_setk. cbn [lookup].
  destruct (Nat.eqb k k0) eqn:E; [intros H; left; exact H|]. intros H. destruct (IH H); auto.
Qed.

(* the invariant: old objects untouched and never "fresh"; fresh objects are live; F registers point to
   fresh objects; while untainted, fresh objects reference fresh objects only *)
Definition inv (h0 : heap) (t : tenv) (tainted : bool) (s : state) : Prop :=
  let '(h, e, f) := s in
  (forall l, h0 l <> None -> f l = false /\ h l = h0 l) /\
  (forall l, f l = true -> h l <> None) /\
  (forall x l, t x = F -> e x = Some (Ref l) -> f l = true) /\
  (tainted = false -> forall l o, f l = true -> h l = Some o -> all_refs_in o (fun l1 => f l1 = true)).

Ltac inv4 := refine (conj _ (conj _ (conj _ _))).

(* a write into a fresh object keeps all old objects as they were *)
Lemma write_fresh_old h0 h (f : loc -> bool) l o' :
  (forall l0, h0 l0 <> None -> f l0 = false /\ h l0 = h0 l0) -> f l = true ->
  forall l0, h0 l0 <> None -> f l0 = false /\ upd_heap h l o' l0 = h0 l0.
Proof.
  intros Hold Fx l0 Hl0. destruct (Hold l0 Hl0) as [A B]. split; [exact A|]. unfold upd_heap.
  destruct (Nat.eqb l0 l) eqn:E; [apply Nat.eqb_eq in E; subst; congruence|exact B].
Qed.
Lemma write_live h (f : loc -> bool) l o' :
  (forall l0, f l0 = true -> h l0 <> None) -> forall l0, f l0 = true -> upd_heap h l o' l0 <> None.
Proof. intros Hlive l0 Hl0. unfold upd_heap. destruct (Nat.eqb l0 l); [discriminate|auto]. Qed.

Lemma step_sound h0 i p t tainted s s' :
  check_from (i :: p) t tainted = true -> inv h0 t tainted s -> step i s s' ->
  exists t' tainted', check_from p t' tainted' = true /\ inv h0 t' tainted' s'.
Proof.
  intros Hc Hinv Hs. destruct Hs; cbn [check_from] in Hc; destruct Hinv as (Hold & Hlive & HF & Hclosed).
  - (* ILoadRoot *) exists (upd_t t x S), tainted. split; [exact Hc|]. inv4; auto.
    intros x0 l0 Hx0. unfold upd_t in Hx0. unfold upd_env. destruct (Nat.eqb x0 x); [discriminate|eauto].
  - (* IGet *) eexists _, tainted. split; [exact Hc|]. inv4; auto.
    intros x0 l1 Hx0. unfold upd_t in Hx0. unfold upd_env. destruct (Nat.eqb x0 x) eqn:E; [|eauto].
    destruct (is_F (t y) && negb tainted) eqn:E2; [|discriminate].
    apply andb_true_iff in E2 as [Ty Tn]. apply negb_true_iff in Tn. destruct (t y) eqn:Ety; [|discriminate].
    intros Hv. inversion Hv; subst v. pose proof (HF y l Ety H) as Fy. eapply (Hclosed Tn l o Fy H0); eauto.
  - (* INew *) exists (upd_t t x F), tainted. split; [exact Hc|]. inv4.
    + intros l0 Hl0. destruct (Hold l0 Hl0) as [A B]. unfold upd_heap. destruct (Nat.eqb l0 l) eqn:E.
      * apply Nat.eqb_eq in E; subst. rewrite B in H. contradiction.
      * cbn. rewrite A. auto.
    + intros l0 Hl0. unfold upd_heap. destruct (Nat.eqb l0 l) eqn:E; [discriminate|]. cbn in Hl0. apply Hlive; auto.
    + intros x0 l0 Hx0. unfold upd_t in Hx0. unfold upd_env. destruct (Nat.eqb x0 x) eqn:E.
      * intros Hv; inversion Hv; subst. now rewrite Nat.eqb_refl.
      * intros Hv. rewrite (HF x0 l0 Hx0 Hv). apply orb_true_r.
    + intros Tn l0 o Hl0 Ho. unfold upd_heap in Ho. destruct (Nat.eqb l0 l) eqn:E.
      * inversion Ho; subst. intros k l1 Hk. discriminate.
      * cbn in Hl0. intros k l1 Hk. pose proof (Hclosed Tn l0 o Hl0 Ho k l1 Hk) as A. now rewrite A, orb_true_r.
  - (* IDeepCopy *) exists (upd_t t x F), tainted. split; [exact Hc|]. inv4.
    + intros l0 Hl0. destruct (Hold l0 Hl0) as [A B]. split.
      * destruct (f' l0) eqn:E; [|reflexivity]. destruct (H1 l0 E A) as [C _]. rewrite B in C. contradiction.
      * rewrite <- B. apply H. rewrite B. exact Hl0.
    + intros l0 Hl0. destruct (f l0) eqn:E.
      * rewrite H by (apply Hlive; exact E). apply Hlive; exact E.
      * destruct (H1 l0 Hl0 E) as (_ & o & Ho & _). rewrite Ho. discriminate.
    + intros x0 l0 Hx0. unfold upd_t in Hx0. unfold upd_env. destruct (Nat.eqb x0 x) eqn:E.
      * intros Hv; inversion Hv; subst. assumption.
      * intros Hv. apply H0. eapply HF; eauto.
    + intros Tn l0 o Hl0 Ho k l1 Hk. destruct (f l0) eqn:E.
      * rewrite H in Ho by (apply Hlive; exact E). apply H0. eapply Hclosed; eauto.
      * destruct (H1 l0 Hl0 E) as (_ & o' & Ho' & Hrefs). rewrite Ho' in Ho. inversion Ho; subst. apply (Hrefs k l1 Hk).
  - (* ISet *) apply andb_true_iff in Hc as [Tx Hc]. destruct (t x) eqn:Etx; [|discriminate].
    pose proof (HF x l Etx H) as Fx.
    exists t, (tainted || negb (is_F (t y))). split; [exact Hc|]. inv4; auto.
    + now apply write_fresh_old.
    + now apply write_live.
    + intros Tn l0 o0 Hl0 Ho k0 l1 Hk. apply orb_false_iff in Tn as [Tn Ty]. apply negb_false_iff in Ty.
      destruct (t y) eqn:Ety; [|discriminate].
      unfold upd_heap in Ho. destruct (Nat.eqb l0 l) eqn:E.
      * inversion Ho; subst. rewrite lookup_setk in Hk. destruct (Nat.eqb k0 k).
        -- inversion Hk; subst. eapply HF; eauto.
        -- exact (Hclosed eq_refl l o Fx H0 k0 l1 Hk).
      * eapply Hclosed; eauto.
  - (* ISetAtom *) apply andb_true_iff in Hc as [Tx Hc]. destruct (t x) eqn:Etx; [|discriminate].
    pose proof (HF x l Etx H) as Fx.
    exists t, tainted. split; [exact Hc|]. inv4; auto.
    + now apply write_fresh_old.
    + now apply write_live.
    + intros Tn l0 o0 Hl0 Ho k0 l1 Hk. unfold upd_heap in Ho. destruct (Nat.eqb l0 l) eqn:E.
      * inversion Ho; subst. rewrite lookup_setk in Hk. destruct (Nat.eqb k0 k); [discriminate|].
        exact (Hclosed eq_refl l o Fx H0 k0 l1 Hk).
      * eapply Hclosed; eauto.
  - (* IUpdate *) apply andb_true_iff in Hc as [Tx Hc]. destruct (t x) eqn:Etx; [|discriminate].
    pose proof (HF x l Etx H) as Fx.
    exists t, (tainted || negb (is_F (t y))). split; [exact Hc|]. inv4; auto.
    + now apply write_fresh_old.
    + now apply write_live.
    + intros Tn l0 o0 Hl0 Ho k0 l1 Hk. apply orb_false_iff in Tn as [Tn Ty]. apply negb_false_iff in Ty.
      destruct (t y) eqn:Ety; [|discriminate]. pose proof (HF y ly Ety H1) as Fy.
      unfold upd_heap in Ho. destruct (Nat.eqb l0 l) eqn:E.
      * inversion Ho; subst. destruct (lookup_merge _ _ _ _ Hk) as [A|A];
        [exact (Hclosed eq_refl ly oy Fy H2 k0 l1 A)|exact (Hclosed eq_refl l o Fx H0 k0 l1 A)].
      * exact (Hclosed Tn l0 o0 Hl0 Ho k0 l1 Hk).
  - (* IDel *) apply andb_true_iff in Hc as [Tx Hc]. destruct (t x) eqn:Etx; [|discriminate].
    pose proof (HF x l Etx H) as Fx.
    exists t, tainted. split; [exact Hc|]. inv4; auto.
    + now apply write_fresh_old.
    + now apply write_live.
    + intros Tn l0 o0 Hl0 Ho k0 l1 Hk. unfold upd_heap in Ho. destruct (Nat.eqb l0 l) eqn:E.
      * inversion Ho; subst. rewrite lookup_delk in Hk. destruct (Nat.eqb k0 k); [discriminate|].
        exact (Hclosed eq_refl l o Fx H0 k0 l1 Hk).
      * eapply Hclosed; eauto.
Qed.

Theorem flow_sound h0 p : forall t tainted s s',
  check_from p t tainted = true -> inv h0 t tainted s -> run p s s' ->
  forall l, h0 l <> None -> fst (fst s') l = h0 l.
Proof.
  induction p as [|i p IH]; intros t tainted s s' Hc Hinv Hr l Hl.
  - inversion Hr; subst. destruct s' as [[h e] f]. destruct Hinv as (Hold & _). cbn. apply Hold; exact Hl.
  - inversion Hr as [|i' p' s1 s2 s3 Hst Hrun]; subst.
    destruct (step_sound h0 i p t tainted s s2 Hc Hinv Hst) as (t' & tn' & Hc' & Hinv'). eapply IH; eauto.
Qed.

(* C20_no_static_write: from ANY initial heap and register file, a checked flow leaves every object that
   existed before it started exactly as it was *)
Theorem no_static_write (h0 : heap) (e0 : env) p s' :
  check p = true -> run p (h0, e0, fun _ => false) s' -> forall l, h0 l <> None -> fst (fst s') l = h0 l.
Proof.
  intros Hc Hr. eapply flow_sound; eauto. repeat split; auto; try discriminate.
Qed.

(* the checker is not vacuous: a checked flow can run (progress is not claimed in general — a KeyError is a
   refusal — but the discipline does not rule executions out), witnessed in Props/C20.v *)

(* ---- flows regenerated from the source (Gen/AliasGen.v): whatever list of flows the translator emits, if the
   checker accepts all of them then no execution of any of them writes a pre-existing object *)
Theorem checked_flows_no_static_write (gs : list gflow) :
  forallb g_checked gs = true ->
  forall g, In g gs ->
  forall (h0 : heap) (e0 : env) s', run (g_flow g) (h0, e0, fun _ => false) s' ->
  forall l, h0 l <> None -> fst (fst s') l = h0 l.
Proof.
  intros H g Hg h0 e0 s' Hr. apply (no_static_write h0 e0 (g_flow g) s'); [|exact Hr].
  rewrite forallb_forall in H. exact (H g Hg).
Qed.

(* ---- the two facts the translator's path pruning rests on (harness/py2alias.py: `subsumed`, `prune`,
   `prune_prefixes`): the checker is prefix-closed, and it is monotone in the typing (F below S) and in the
   taint flag, so a path whose registers are typed no worse and which has executed no more is implied. *)
Definition ty_le (a b : ty) : Prop := b = F -> a = F.
Lemma check_from_mono p : forall t t' tn tn',
  (forall x, ty_le (t x) (t' x)) -> (tn = true -> tn' = true) ->
  check_from p t' tn' = true -> check_from p t tn = true.
Proof.
  induction p as [|i p IH]; intros t t' tn tn' Ht Htn Hc; [reflexivity|].
  assert (HF : forall x, is_F (t' x) = true -> is_F (t x) = true).
  { intros x Hx. destruct (t' x) eqn:E; [|discriminate]. now rewrite (Ht x E). }
  assert (Hupd : forall x a a', ty_le a a' -> forall z, ty_le (upd_t t x a z) (upd_t t' x a' z)).
  { intros x a a' Ha z. unfold upd_t. destruct (Nat.eqb z x); [exact Ha|apply Ht]. }
  assert (Hor : forall b b', (b = true -> b' = true) -> (tn || b = true -> tn' || b' = true)).
  { intros b b' Hb H. apply orb_true_iff in H as [H|H]; apply orb_true_iff; [left; auto|right; auto]. }
  assert (Hneg : forall y, negb (is_F (t y)) = true -> negb (is_F (t' y)) = true).
  { intros y Hy. destruct (is_F (t' y)) eqn:E; [rewrite (HF y E) in Hy; discriminate|reflexivity]. }
  destruct i; cbn [check_from] in *.
  - eapply IH; [apply Hupd; intros H; exact H| exact Htn|exact Hc].
  - eapply IH; [apply Hupd| exact Htn|exact Hc].
    intros H. destruct (is_F (t' y) && negb tn') eqn:E; [|discriminate].
    apply andb_true_iff in E as [E1 E2]. rewrite (HF y E1). destruct tn; [rewrite (Htn eq_refl) in E2; discriminate|reflexivity].
  - eapply IH; [apply Hupd; intros H; exact H| exact Htn|exact Hc].
  - eapply IH; [apply Hupd; intros H; exact H| exact Htn|exact Hc].
  - apply andb_true_iff in Hc as [H1 H2]. rewrite (HF x H1). cbn. eapply IH; [exact Ht| |exact H2]. apply Hor, Hneg.
  - apply andb_true_iff in Hc as [H1 H2]. rewrite (HF x H1). cbn. eapply IH; [exact Ht|exact Htn|exact H2].
  - apply andb_true_iff in Hc as [H1 H2]. rewrite (HF x H1). cbn. eapply IH; [exact Ht| |exact H2]. apply Hor, Hneg.
  - apply andb_true_iff in Hc as [H1 H2]. rewrite (HF x H1). cbn. eapply IH; [exact Ht|exact Htn|exact H2].
Qed.

Lemma check_from_app p q : forall t tn,
  check_from (p ++ q) t tn = check_from p t tn && (let '(t', tn') := types_after p t tn in check_from q t' tn').
Proof.
  induction p as [|i p IH]; intros t tn; [reflexivity|].
  destruct i; cbn [app check_from types_after]; rewrite ?IH, ?andb_assoc; reflexivity.
Qed.
Lemma check_prefix_closed p q : check (p ++ q) = true -> check p = true.
Proof. unfold check. rewrite check_from_app. intros H. now apply andb_true_iff in H as [H _]. Qed.
